"""C43 — config section inheritance resolves to the nearest definition."""
import io
import itertools
import sys
import types

PID = "C43"
LEAN_MODULES = ["Pkgcore.Props.C43"]
OBLIGATIONS = [
    "Pkgcore.C43.lookup_is_latest_first",
    "Pkgcore.C43.inherited_is_breadth_first",
    "Pkgcore.C43.collapse_nearest_definition",
    "Pkgcore.C43.tree_shaped_collapses",
    "Pkgcore.C43.cycle_or_missing_is_error",
    "Pkgcore.C43.history_collapse_is_current",   # the rendered-section cache is never stale across add_config_source / reload
    "Pkgcore.C43.default_nearest_definition",    # the `default` flag comes from the first section that sets it (false shadows true)
    "Pkgcore.C43.anon_collapse_nearest_definition",   # anonymous/inline sections: nearest definition below the node (None, section)
    "Pkgcore.C43.anon_tree_shaped_collapses",
    "Pkgcore.C43.anon_cycle_or_missing_is_error",
    "Pkgcore.C43.history_anon_collapse_is_current",   # an anonymous collapse depends on the current sources only, not on earlier collapses
    "Pkgcore.C43.expand_measure",       # the decrease that makes `loop` (well-founded recursion) terminate on any graph
]
TRUSTED = [
    "typed rendering of values (convert_asis / convert_string / ini parsing, ConfigType introspection) is glue: sections are modelled as "
    "(inherit list, inherit-only flag, string items; a value is opaque, 'sets the key' = the key is present); exercised by generating "
    "every case as HardCodedConfigSection, ConfigSectionFromStringDict and ini text with list/bool/str/int typed keys whose values "
    "include the empty ones ([], False, '', 0, ini no/0/false)",
    "the name None of an anonymous section is modelled by a reserved name that the driver refuses in inputs",
    "termination of _get_inherited_sections on arbitrary graphs is the well-founded-recursion obligation discharged when Lean "
    "accepts Pkgcore.C43.loop (measure: not-yet-inherited names, then total size of pending self-inherit trees)",
]
ASSUMPTIONS = ["section names are unique within one config source (sources are mappings)",
               "autoload sections and named section references (ref:/refs: keys naming other sections) are outside this property; inline "
               "sections held by a refs: key are collapsed as anonymous sections and are covered"]
RULE = ("1-4 config sources over section names A-F (+ one undefined name), built as random trees with sections spread over sources and "
        "self-inherits to the earlier source, then optionally perturbed (extra edge = cycle or diamond, deleted target, duplicate name in an "
        "inherit list); every defined name collapsed; non-trivial = the breadth-first order has >= 3 nodes, or the error is an "
        "inheritance error (missing target / self-inherit without earlier source / cycle); plus histories on one manager: collapse some "
        "names, add_config_source (a further source of the same generated configuration) or reload, collapse again ... each answer compared "
        "with a manager created afresh over the current sources (non-trivial = a source was added after a collapse, or >= 2 anonymous "
        "sections were collapsed); sections carry list/bool/str/int typed keys with empty values (explicit empty overrides); histories "
        "interleave collapse_section([inline section]) calls (anonymous sections inheriting from the named ones, any concrete form) "
        "and end by collapsing a holder whose refs: key holds all the inline sections of the history")
LEVEL_TEXT = ("Kernel-checked Lean 4 theorems about a model of ConfigManager section lookup, _get_inherited_sections and collapse_section: "
              "the lookup stacks are the sections of all sources latest-first; whenever collapsing succeeds the relevant sections are exactly "
              "the generations of the inheritance graph in breadth-first order and every key has the value of the first section in that "
              "order that sets it; tree-shaped graphs of any size always collapse; any reachable missing target or cycle yields an error; "
              "the expansion terminates on arbitrary graphs (well-founded recursion). Differential run against the real ConfigManager.")
LEVEL_NOTE = "Trusted: Lean kernel, standard axioms; value rendering/typing glue; correspondence sampled."

NAMES = list("ABCDEF")
GHOST = "Z"   # never defined
KEYS = ["k1", "k2", "k3", "k4"]
# typed keys of the generated class; values are written as the text an ini file would hold
TYPED = {"seq": "list", "flag": "bool", "text": "str", "num": "int"}
EMPTY = {"seq": [""], "flag": ["false", "no", "0"], "text": [""], "num": ["0"]}
FULL = {"seq": ["a", "b c"], "flag": ["true", "yes", "1"], "text": ["x", "two words"], "num": ["5", "12"]}
TRUE_WORDS = ("yes", "true", "1")


def typed(key, v):
    """the Python value a HardCodedConfigSection holds for the text `v` of `key`"""
    t = "bool" if key == "default" else TYPED.get(key, "str")
    if t == "list":
        return v.split()
    if t == "bool":
        return v.lower() in TRUE_WORDS
    if t == "int":
        return int(v)
    return v


def canon(key, value):
    """canonical text of a rendered value"""
    if isinstance(value, bool):
        return "true" if value else "false"
    if isinstance(value, (list, tuple)):
        return " ".join(value)
    return str(value)


def want_cfg(pairs):
    """expected collapsed config from the reference's / model's raw strings"""
    return sorted((k, canon(k, typed(k, v))) for k, v in pairs)


def want_default(raw):
    return False if raw is None else typed("default", raw)


def fit_forms(sources, forms):
    """convert_asis has no int type: int-typed keys only live in string based sections"""
    for src, form in zip(sources, forms):
        if form == "hard":
            for sec in src.values():
                sec["items"].pop("num", None)
    return sources


def _install_class():
    """the configurable callable the generated sections instantiate (importable by dotted name)"""
    from pkgcore.config.hint import configurable
    mod = sys.modules.get("verif_c43_mod")
    if mod is None:
        mod = types.ModuleType("verif_c43_mod")

        @configurable(types=dict(TYPED), allow_unknowns=True, typename="c43thing")
        def thing(**kw):
            return kw
        mod.thing = thing

        @configurable(types={"kids": "refs:c43thing"}, typename="c43holder")
        def holder(**kw):
            return kw
        mod.holder = holder
        sys.modules["verif_c43_mod"] = mod
    return mod.thing


# ------------------------------------------------------------------ generator

def gen_case(rng):
    """sources: list of {name: {"inherit": [...]|None, "inherit_only": bool, "items": {k: v}}}"""
    nsrc = rng.choice([1, 2, 2, 3, 3, 4])
    names = rng.sample(NAMES, rng.randint(2, 6))
    # a random forest over the names: parent[n] chosen among earlier names
    order = list(names)
    rng.shuffle(order)
    children = {n: [] for n in order}
    for i, n in enumerate(order[1:], 1):
        if rng.random() < 0.85:
            children[rng.choice(order[:i])].append(n)
    sources = [dict() for _ in range(nsrc)]
    for n in order:
        where = sorted(rng.sample(range(nsrc), rng.choice([1, 1, 2, min(3, nsrc)]) if nsrc > 1 else 1))
        kids = list(children[n])
        rng.shuffle(kids)
        # split the children over this name's sections; later sources inherit the earlier one by self-inherit
        for j, s in enumerate(where):
            mine = kids[j::len(where)]
            inh = list(mine)
            if j > 0 and rng.random() < 0.8:
                inh.insert(rng.randrange(len(inh) + 1), n)
            sec = {"inherit": inh if (inh or rng.random() < 0.1) else None, "inherit_only": False, "items": {}}
            for k in KEYS:
                if rng.random() < 0.35:
                    r = rng.random()
                    sec["items"][k] = "%s%d%s" % (n.lower(), s, k) if r < 0.8 else ("two words" if r < 0.9 else "")
            for k in TYPED:
                if rng.random() < 0.3:
                    sec["items"][k] = rng.choice(EMPTY[k] if rng.random() < 0.45 else FULL[k])
            if rng.random() < 0.45:
                sec["items"]["class"] = "verif_c43_mod.thing"
            if rng.random() < 0.1:
                sec["items"]["default"] = rng.choice(["true", "false", "yes", "no", "1", "0"])
            sources[s][n] = sec
    # make sure most cases have a class somewhere near the leaves
    for s in sources:
        for n, sec in s.items():
            if not children[n] and rng.random() < 0.8:
                sec["items"].setdefault("class", "verif_c43_mod.thing")
    # perturbations
    k = rng.random()
    secs = [(s, n) for s in range(nsrc) for n in sources[s]]
    if k < 0.18 and secs:          # extra edge: cycle or diamond
        s, n = rng.choice(secs)
        sec = sources[s][n]
        sec["inherit"] = (sec["inherit"] or []) + [rng.choice(names)]
    elif k < 0.28 and secs:        # missing target
        s, n = rng.choice(secs)
        sec = sources[s][n]
        sec["inherit"] = (sec["inherit"] or []) + [GHOST]
    elif k < 0.34 and secs:        # delete a section somebody may inherit
        s, n = rng.choice(secs)
        del sources[s][n]
    elif k < 0.40 and secs:        # duplicate name inside one inherit list
        s, n = rng.choice(secs)
        sec = sources[s][n]
        if sec["inherit"]:
            sec["inherit"] = sec["inherit"] + [rng.choice(sec["inherit"])]
    elif k < 0.44 and secs:        # inherit-only
        s, n = rng.choice(secs)
        sources[s][n]["inherit_only"] = True
    elif k < 0.48 and secs:        # self-inherit with nothing below
        s, n = rng.choice(secs)
        sec = sources[s][n]
        sec["inherit"] = [n] + (sec["inherit"] or [])
    sources = [s for s in sources if s] or [{}]
    forms = [rng.choice(["hard", "strdict", "ini"]) for _ in sources]
    return fit_forms(sources, forms), forms


def gen_anon(rng, names, big=False):
    """an anonymous (inline) section inheriting from the named ones + the concrete form it is built in"""
    r = rng.random()
    if r < 0.08 or not names:
        inh = None
    else:
        inh = rng.sample(names, min(len(names), rng.choice([1, 1, 1, 2])))
        if r > 0.9:
            inh.insert(rng.randrange(len(inh) + 1), GHOST)
    sec = {"inherit": inh, "inherit_only": False, "items": {}}
    for k in KEYS[:2]:
        if rng.random() < 0.3:
            sec["items"][k] = "anon-" + k if rng.random() < 0.85 else ""
    for k in TYPED:
        if rng.random() < 0.25:
            sec["items"][k] = rng.choice(EMPTY[k] if rng.random() < 0.5 else FULL[k])
    if rng.random() < (0.3 if inh else 0.9):
        sec["items"]["class"] = "verif_c43_mod.thing"
    if rng.random() < 0.1:
        sec["items"]["default"] = rng.choice(["true", "false"])
    form = rng.choice(["hard", "strdict", "ini"])
    fit_forms([{"_": sec}], [form])
    return sec, form


def to_model(sources):
    return [[{"name": n, "inherit": sec["inherit"], "inherit_only": sec["inherit_only"],
              "items": [[k, v] for k, v in sec["items"].items()]} for n, sec in src.items()] for src in sources]


# ------------------------------------------------------------------ implementation side

def build_source(src, form):
    """one config source in the requested concrete form"""
    from pkgcore.config import basics, cparser
    thing = _install_class()
    if form == "ini":
        txt = []
        for n, sec in src.items():
            txt.append("[%s]" % n)
            if sec["inherit"] is not None:
                txt.append("inherit = %s" % " ".join(sec["inherit"]))
            if sec["inherit_only"]:
                txt.append("inherit-only = true")
            for k, v in sec["items"].items():
                txt.append(("%s = %s" % (k, v)).rstrip())
        return cparser.config_from_file(io.StringIO("\n".join(txt) + "\n"))
    d = {}
    for n, sec in src.items():
        raw = {}
        if sec["inherit"] is not None:
            raw["inherit"] = list(sec["inherit"]) if form == "hard" else " ".join(sec["inherit"])
        if sec["inherit_only"]:
            raw["inherit-only"] = True if form == "hard" else "true"
        for k, v in sec["items"].items():
            if form == "hard" and k == "class":
                v = thing
            elif form == "hard":
                v = typed(k, v)
            raw[k] = v
        d[n] = basics.HardCodedConfigSection(raw) if form == "hard" else basics.ConfigSectionFromStringDict(raw)
    return d


def build_manager(sources, forms):
    from pkgcore.config import central
    return central.ConfigManager([build_source(src, form) for src, form in zip(sources, forms)])


ERR_PATTERNS = [
    ("no section called ", "noSection"), ("cannot collapse inherit-only section", "inheritOnly"),
    ("Self-inherit ", "selfMissing"), ("is recursive", "recursive"), ("Inherit target ", "missing"),
    ("no class specified", "noClass"),
]


def build_section(sec, form):
    """one section object (for collapse_section / inline refs) in the requested concrete form"""
    return build_source({"inline": sec}, form)["inline"]


def impl_collapse(mgr, name, section=None):
    """collapse the named section, or (section given) the anonymous section object"""
    from pkgcore.config import errors
    from snakeoil.errors import walk_exception_chain
    try:
        c = mgr.collapse_named_section(name) if section is None else mgr.collapse_section([section])
    except errors.ConfigurationError as e:
        msgs = [str(x) for x in walk_exception_chain(e)]
        for m in reversed(msgs):
            for pat, kind in ERR_PATTERNS:
                if pat in m:
                    arg = m.split("'")[1] if "'" in m and kind not in ("inheritOnly", "noClass") else None
                    return {"err": kind, "arg": arg} if arg is not None else {"err": kind}
        return {"err": "other", "msgs": msgs}
    return {"ok": sorted((k, canon(k, v)) for k, v in c.config.items()), "default": c.default}


# ------------------------------------------------------------------ corpus

def S(inherit=None, io=False, **items):
    return {"inherit": inherit, "inherit_only": io, "items": dict(items)}


CLS = "verif_c43_mod.thing"
CORPUS = [
    # plain chain and a wide tree: nearest definition, breadth-first (B's value beats D's although D is listed under B first)
    ([{"A": S(["B", "C"], k1="a"), "B": S(["D"], k2="b"), "C": S(k2="c", k3="c"), "D": S(k3="d", k4="d", **{"class": CLS})}], "A"),
    # later source overrides earlier one of the same name; self-inherit reaches the earlier one
    ([{"A": S(k1="old", k2="old", **{"class": CLS})}, {"A": S(["A"], k1="new")}], "A"),
    ([{"A": S(k1="old", k2="old", **{"class": CLS})}, {"A": S(k1="new", **{"class": CLS})}], "A"),
    # three-deep self-inherit chain, other inherits on the way, self not first in the list
    ([{"A": S(["B"], k1="a0"), "B": S(k2="b0", **{"class": CLS})}, {"A": S(["A", "C"], k3="a1"), "C": S(k1="c1", k2="c1")}, {"A": S(["A"], k4="a2")}], "A"),
    # self-inherit with nothing below
    ([{"A": S(["A"], **{"class": CLS})}], "A"),
    # cycle of length 2 and 3, cycle not through the root, cycle through a self-inherit
    ([{"A": S(["B"], **{"class": CLS}), "B": S(["A"])}], "A"),
    ([{"A": S(["B"], **{"class": CLS}), "B": S(["C"]), "C": S(["A"])}], "B"),
    ([{"A": S(["B"], **{"class": CLS}), "B": S(["C"]), "C": S(["B"])}], "A"),
    ([{"A": S(["B"], **{"class": CLS}), "B": S(k1="b")}, {"B": S(["B", "A"])}], "A"),
    # missing target, at depth 2
    ([{"A": S(["B"], **{"class": CLS}), "B": S(["Z"])}], "A"),
    # diamond (not a cycle): the code reports it as recursive; the property does not say
    ([{"A": S(["B", "C"], **{"class": CLS}), "B": S(["D"]), "C": S(["D"]), "D": S(k1="d")}], "A"),
    # duplicate names inside one inherit list
    ([{"A": S(["B", "B"], **{"class": CLS}), "B": S(k1="b")}], "A"),
    ([{"A": S(k1="a0", **{"class": CLS})}, {"A": S(["A", "A"], k2="a1")}], "A"),
    # inherit-only root, inherit-only base, no class anywhere, empty inherit list, unknown section
    ([{"A": S(["B"], io=True), "B": S(**{"class": CLS})}], "A"),
    ([{"A": S(["B"]), "B": S(io=True, k1="b", **{"class": CLS})}], "A"),
    ([{"A": S(["B"], k1="a"), "B": S(k2="b")}], "A"),
    ([{"A": S([], k1="a", **{"class": CLS})}], "A"),
    ([{"A": S(**{"class": CLS})}], "B"),
    # inherited default flag
    ([{"A": S(["B"], **{"class": CLS}), "B": S(default="true", k1="b")}], "A"),
    # "sets the key" = the key is present: an explicitly empty value in the nearer section shadows the farther one, for every
    # value type (list, bool, str, int, the default flag), in the section itself / a nearer base / a later source of the same name
    ([{"A": S(["B"], seq="", flag="false", text="", num="0", k1="", default="false"),
       "B": S(seq="a b", flag="true", text="x", num="5", k1="b", default="true", **{"class": CLS})}], "A"),
    ([{"A": S(["B", "C"]), "B": S(seq="", flag="no", text="", num="0"),
       "C": S(seq="c", flag="yes", text="c", num="7", **{"class": CLS})}], "A"),
    ([{"A": S(seq="old", flag="1", text="old", num="3", default="yes", **{"class": CLS})},
      {"A": S(["A"], seq="", flag="0", text="", num="0", default="no")}], "A"),
    ([{"A": S(["B"], flag="false"), "B": S(["C"], flag="true", seq=""), "C": S(seq="c", flag="false", **{"class": CLS})}], "A"),
    # a lone empty value is still a value
    ([{"A": S(seq="", flag="false", text="", num="0", **{"class": CLS})}], "A"),
]


def run(ctx):
    rng = ctx.rng
    _install_class()
    cases = []   # (sources, forms, name)
    if ctx.replay_cases:
        for c in ctx.replay_cases:
            if "sources" in c:
                cases.append((c["sources"], c["forms"], c["name"]))
    import copy
    for sources, name in CORPUS:
        for form in ("hard", "strdict", "ini"):
            forms = [form] * len(sources)
            cases.append((fit_forms(copy.deepcopy(sources), forms), forms, name))
    for _ in range(ctx.n(3000, 60000)):
        sources, forms = gen_case(rng)
        defined = sorted({n for s in sources for n in s})
        for name in defined + ([GHOST] if rng.random() < 0.05 else []):
            cases.append((sources, forms, name))
    if not ctx.quick():
        # bounded-exhaustive: 3 names x 2 sources, each section absent or with one of 6 inherit lists
        opts = [None, [], ["A"], ["B"], ["C"], ["B", "C"], ["C", "A"]]
        n = 0
        slots = [(s, nm) for s in range(2) for nm in "ABC"]
        for combo in itertools.product(range(len(opts) + 1), repeat=len(slots)):
            if combo[0] == 0 and combo[3] == 0:
                continue      # A undefined everywhere: covered by symmetry
            sources = [dict(), dict()]
            for (s, nm), o in zip(slots, combo):
                if o == 0:
                    continue
                items = {"k1": "%s%d" % (nm.lower(), s), "class": CLS}
                if s == 0:
                    items["k2"] = "%s%dk2" % (nm.lower(), s)
                sources[s][nm] = {"inherit": opts[o - 1], "inherit_only": False, "items": items}
            sources = [s for s in sources if s]
            cases.append((sources, ["hard"] * len(sources), "A"))
            n += 1
        ctx.extra["exhaustive_configs"] = n

    reqs = [{"cmd": "c43.collapse", "sources": to_model(s), "name": name} for s, _, name in cases]
    replies = []
    for i in range(0, len(reqs), 20000):
        replies += ctx.model(reqs[i:i + 20000])

    last = (None, None)
    for (sources, forms, name), rep in zip(cases, replies):
        case = {"sources": sources, "forms": forms, "name": name}
        if rep == "bad-op":
            ctx.mismatch(case, "driver rejected the request")
            continue
        key = (id(sources), tuple(forms))
        try:
            if last[0] != key:
                last = (key, build_manager(sources, forms))    # same manager for every name of a configuration
            mgr = last[1]
            impl = impl_collapse(mgr, name)
            again = impl_collapse(mgr, name)                   # the cached CollapsedConfig / a repeated error
        except Exception as e:
            ctx.violation(case, f"collapsing raised {type(e).__name__}: {e}")
            continue
        if again != impl:
            ctx.violation(case, f"collapsing the same section twice differs: {impl} then {again}")
            continue
        model, spec, order = rep["model"], rep["spec"], rep["order"]
        kind = "ok" if "ok" in impl else impl["err"]
        nontriv = (order is not None and len(order) >= 3) or kind in ("missing", "selfMissing", "recursive")
        ctx.case(case, nontriv, key=None)
        ctx.count("impl_" + kind)
        ctx.count("spec_" + ("ok" if "ok" in spec else spec.get("err", "unspecified")))
        ctx.count("sources_%d" % len(sources))
        ctx.count("form_" + "+".join(sorted(set(forms))))
        if order is not None:
            ctx.count("order_len_%d" % min(len(order), 8))
            if len({n for n, _ in order}) < len(order):
                ctx.count("order_has_self_inherit")
        # ---- the property on the real code (edge C)
        if "ok" in spec:
            want = want_cfg(spec["ok"])
            if "ok" not in impl:
                ctx.violation(case, f"tree-shaped inheritance should collapse to {want}, the implementation reports {impl}")
                continue
            if [tuple(x) for x in impl["ok"]] != want:
                ctx.violation(case, f"collapsed config {impl['ok']} differs from the nearest definitions {want}")
                continue
            if impl["default"] != want_default(spec["default"]):
                ctx.violation(case, f"default flag is {impl['default']}; the first section that sets 'default' sets it to "
                                    f"{spec['default']!r}")
                continue
            if any(v in ("", "false", "0") for _, v in want):
                ctx.count("empty_value_wins")
        elif spec.get("err") in ("missing", "cyclic"):
            if "ok" in impl:
                ctx.violation(case, f"inheritance graph has a {spec['err']} problem but collapsing succeeded: {impl['ok']}")
                continue
        elif "err" in spec and "ok" in impl:
            ctx.mismatch(case, f"reference says {spec} but collapsing succeeded")
            continue
        # ---- model vs implementation (edge A)
        if "ok" in model:
            m = {"ok": want_cfg(model["ok"]), "default": want_default(model["default"])}
            i = {"ok": [tuple(x) for x in impl["ok"]], "default": impl["default"]} if "ok" in impl else impl
        else:
            m, i = model, {k: v for k, v in impl.items()}
        if m != i:
            ctx.mismatch(case, f"implementation {impl}, model {model}")
        # ---- the public object API on top (instantiation glue)
        if "ok" in impl and ctx.evaluations % 5 == 0:
            try:
                inst = mgr.objects.c43thing[name]
                if sorted((k, canon(k, v)) for k, v in inst.items()) != impl["ok"]:
                    ctx.mismatch(case, f"objects.c43thing[{name!r}] = {inst} differs from collapsed config {impl['ok']}")
            except Exception as e:
                ctx.mismatch(case, f"instantiating through manager.objects raised {type(e).__name__}: {e}")
    run_histories(ctx)


# ------------------------------------------------------------------ histories: collapse / add_config_source / reload / collapse again

def gen_history(rng):
    """(initial sources, forms, ops): sources are cut off a generated configuration and added later, with collapses in between"""
    sources, forms = gen_case(rng)
    while len(sources) < 2 and rng.random() < 0.8:
        more, mf = gen_case(rng)
        sources, forms = sources + more[:2], forms + mf[:2]
    k = rng.randint(1, max(1, len(sources) - 1)) if len(sources) > 1 else 1
    init, later = sources[:k], sources[k:]
    names = sorted({n for s in sources for n in s})
    ops = []
    n_anon = rng.choice([0, 2, 2, 3, 4])
    for src, form in [(None, None)] + list(zip(later, forms[k:])):
        if src is not None:
            ops.append({"op": "add", "source": src, "form": form})
        elif rng.random() < 0.2:
            ops.append({"op": "reload"})
        picks = [n for n in names if rng.random() < 0.7] or names[:1]
        rng.shuffle(picks)
        batch = [{"op": "collapse", "name": n} for n in picks]
        # inline sections collapsed through the same manager, between the named ones
        for _ in range(rng.randint(0, n_anon)):
            sec, form = gen_anon(rng, names)
            batch.insert(rng.randrange(len(batch) + 1), {"op": "anon", "section": sec, "form": form})
        ops += batch
        if rng.random() < 0.15:
            ops.append({"op": "reload"})
            ops.append({"op": "collapse", "name": rng.choice(names)})
    return init, forms[:k], ops


HISTORY_CORPUS = [
    # a section collapsed before a later source redefines its base / its base's base / the section itself / adds a self-inherit layer
    ([{"A": S(["B"], k1="a", **{"class": CLS}), "B": S(k1="b-old", k2="b-old")}], [{"B": S(k2="b-new", k3="b-new")}], ["A", "B"]),
    ([{"A": S(["B"], **{"class": CLS}), "B": S(["C"], k1="b"), "C": S(k2="c-old")}], [{"C": S(k2="c-new")}], ["A"]),
    ([{"A": S(k1="old", k2="old", **{"class": CLS})}], [{"A": S(["A"], k1="new")}], ["A"]),
    ([{"A": S(["B"], **{"class": CLS}), "B": S(k1="b")}], [{"B": S(["B", "Z"], k2="b2")}], ["A"]),          # the new layer breaks it
    ([{"A": S(["B"], **{"class": CLS})}], [{"B": S(k1="now-there")}], ["A"]),                                  # a missing base appears
    ([{"A": S(["B"], **{"class": CLS}), "B": S(k1="b")}], [{"B": S(["A"])}], ["A", "B"]),                       # a cycle appears
]

# sequences of anonymous (inline) sections through one manager: (sources, [anonymous sections])
_RB = [{"R": S(k1="red", k2="red", **{"class": CLS}), "B": S(k1="blue", k3="blue", **{"class": CLS})}]
ANON_CORPUS = [
    (_RB, [S(["R"], k3="x"), S(["B"], k2="y")]),                                     # different bases
    (_RB, [S(["R"]), S(["Z"], **{"class": CLS})]),                                  # a missing target after a good one
    (_RB, [S(["Z"], **{"class": CLS}), S(["R"])]),                                  # and the other way round
    (_RB, [S(["R", "B"]), S(["B", "R"]), S(["B"]), S(k1="own", **{"class": CLS})]),  # order of bases, no inherit at all
    ([{"R": S(["B"], k1="r"), "B": S(k1="b", k2="b", **{"class": CLS})}, {"B": S(["B"], k2="b-new")}],
     [S(["B"]), S(["R"]), S(["R"], k1="")]),                                         # self-inherit below, empty override on top
]


def run_histories(ctx):
    from pkgcore.config import central
    rng = ctx.rng
    hist = []
    for init, add, names in HISTORY_CORPUS:
        for form in ("hard", "strdict", "ini"):
            ops = [{"op": "collapse", "name": n} for n in names]
            for a in add:
                ops.append({"op": "add", "source": a, "form": form})
                ops += [{"op": "collapse", "name": n} for n in names]
            hist.append((init, [form] * len(init), ops))
    import copy
    for sources, anons in ANON_CORPUS:
        for form in ("hard", "strdict", "ini"):
            forms = [form] * len(sources)
            ops = []
            for a in anons:
                a = copy.deepcopy(a)
                fit_forms([{"_": a}], [form])
                ops.append({"op": "anon", "section": a, "form": form})
            ops.append({"op": "collapse", "name": sorted(sources[0])[0]})
            hist.append((fit_forms(copy.deepcopy(sources), forms), forms, ops + copy.deepcopy(ops[:2])))
    for _ in range(ctx.n(400, 15000)):
        hist.append(gen_history(rng))

    def op_model(o):
        if o["op"] == "add":
            return {"op": "add", "source": to_model([o["source"]])[0]}
        if o["op"] == "anon":
            return {"op": "anon", "section": to_model([{"inline": o["section"]}])[0][0]}
        return o
    reqs = [{"cmd": "c43.history", "sources": to_model(init), "ops": [op_model(o) for o in ops]} for init, _, ops in hist]
    replies = []
    for i in range(0, len(reqs), 5000):
        replies += ctx.model(reqs[i:i + 5000])
    for (init, forms, ops), rep in zip(hist, replies):
        case = {"history": {"initial": init, "forms": forms, "ops": ops}}
        if rep == "bad-op" or len(rep) != len(ops):
            ctx.mismatch(case, "driver rejected the history")
            continue
        try:
            mgr = build_manager(init, forms)
        except Exception as e:
            ctx.violation(case, f"building the manager raised {type(e).__name__}: {e}")
            continue
        current, cur_forms = list(init), list(forms)
        added = collapsed_before = False
        ok = True
        inline = []       # (section, form) of every anonymous section of the history
        for i, (op, m) in enumerate(zip(ops, rep)):
            step = dict(case, failing_step=i)
            try:
                if op["op"] == "add":
                    mgr.add_config_source(build_source(op["source"], op["form"]))
                    current.append(op["source"])
                    cur_forms.append(op["form"])
                    added = True
                    continue
                if op["op"] == "reload":
                    mgr.reload()
                    continue
                if op["op"] == "anon":
                    what = "the anonymous section %r" % (op["section"],)
                    inline.append((op["section"], op["form"]))
                    ctx.count("anon_form_" + op["form"])
                    impl = impl_collapse(mgr, None, build_section(op["section"], op["form"]))
                    # ---- the property on the real code: same answer as a manager created now over the current sources
                    fresh = impl_collapse(build_manager(current, cur_forms), None, build_section(op["section"], op["form"]))
                else:
                    what = repr(op["name"])
                    impl = impl_collapse(mgr, op["name"])
                    fresh = impl_collapse(build_manager(current, cur_forms), op["name"])
            except Exception as e:
                ctx.violation(step, f"{op['op']} raised {type(e).__name__}: {e}")
                ok = False
                break
            collapsed_before = True
            ctx.evaluations += 1
            if impl != fresh:
                ctx.violation(step, f"collapsing {what} after this history gives {impl}; a manager created over the current "
                                    f"sources gives {fresh}")
                ok = False
                break
            spec = m["spec"]
            if "ok" in spec and ("ok" not in impl or [tuple(x) for x in impl["ok"]] != want_cfg(spec["ok"])
                                 or impl["default"] != want_default(spec["default"])):
                ctx.violation(step, f"nearest definitions over the current sources are {want_cfg(spec['ok'])} (default "
                                    f"{spec['default']!r}); the manager answers {impl} for {what}")
                ok = False
                break
            if spec.get("err") in ("missing", "cyclic") and "ok" in impl:
                ctx.violation(step, f"the current sources have a {spec['err']} problem but the manager answers {impl}")
                ok = False
                break
            # ---- model vs implementation
            model = m["model"]
            mm = {"ok": want_cfg(model["ok"]), "default": want_default(model["default"])} if "ok" in model else model
            ii = {"ok": [tuple(x) for x in impl["ok"]], "default": impl["default"]} if "ok" in impl else dict(impl)
            if mm != ii:
                ctx.mismatch(step, f"implementation {impl}, model {model}")
                ok = False
                break
        if ok and len(inline) >= 2:
            ok = check_holder(ctx, case, mgr, current, cur_forms, inline)
        ctx.count("history_ops_%d" % min(40, len(ops) // 10 * 10))
        ctx.count("history_anon_%d" % min(len(inline), 6))
        if ok:
            ctx.case(case, (added and collapsed_before) or len(inline) >= 2, key=None)


def check_holder(ctx, case, mgr, current, cur_forms, inline):
    """the way inline sections are really used: a holder whose refs: key holds all the inline sections of the history, collapsed
    through the long-lived manager; every kid must equal the same inline section collapsed alone on a fresh manager"""
    from pkgcore.config import basics, errors
    holder = sys.modules["verif_c43_mod"].holder
    step = dict(case, failing_step="holder of all inline sections")
    try:
        alone = [impl_collapse(build_manager(current, cur_forms), None, build_section(sec, form)) for sec, form in inline]
        sect = basics.HardCodedConfigSection({"class": holder, "kids": [build_section(sec, form) for sec, form in inline]})
        try:
            kids = mgr.collapse_section([sect]).config["kids"]
        except errors.ConfigurationError:
            kids = None
    except Exception as e:
        ctx.violation(step, f"collapsing a holder of the inline sections raised {type(e).__name__}: {e}")
        return False
    ctx.evaluations += 1
    if kids is None:
        if all("ok" in a for a in alone):
            ctx.violation(step, f"every inline section collapses alone ({alone}) but a refs: holder of them fails to collapse")
            return False
        ctx.count("holder_error")
        return True
    got = [{"ok": sorted((k, canon(k, v)) for k, v in c.config.items()), "default": c.default} for c in kids]
    if got != alone:
        ctx.violation(step, f"inline sections {[s for s, _ in inline]} held by a refs: key collapse to {got}; each alone on a "
                            f"manager over the current sources gives {alone}")
        return False
    ctx.count("holder_ok")
    return True
