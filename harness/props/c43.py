"""C43 — config section inheritance resolves to the nearest definition."""
import io
import itertools
import sys
import types

PID = "C43"
LEAN_MODULES = ["Pkgcore.Props.C43"]
OBLIGATIONS = [
    "Pkgcore.C43.lookup_is_latest_first",
    "Pkgcore.C43.inherited_is_breadth_first",
    "Pkgcore.C43.collapse_nearest_definition",
    "Pkgcore.C43.tree_shaped_collapses",
    "Pkgcore.C43.cycle_or_missing_is_error",
    "Pkgcore.C43.expand_measure",       # the decrease that makes `loop` (well-founded recursion) terminate on any graph
]
TRUSTED = [
    "typed rendering of values (convert_asis / convert_string / ini parsing, ConfigType introspection) is glue: sections are modelled as "
    "(inherit list, inherit-only flag, string items); exercised by generating every case as HardCodedConfigSection, "
    "ConfigSectionFromStringDict and ini text",
    "termination of _get_inherited_sections on arbitrary graphs is the well-founded-recursion obligation discharged when Lean "
    "accepts Pkgcore.C43.loop (measure: not-yet-inherited names, then total size of pending self-inherit trees)",
]
ASSUMPTIONS = ["section names are unique within one config source (sources are mappings)",
               "autoload sections and section references (ref:/refs: typed keys) are outside this property"]
RULE = ("1-4 config sources over section names A-F (+ one undefined name), built as random trees with sections spread over sources and "
        "self-inherits to the earlier source, then optionally perturbed (extra edge = cycle or diamond, deleted target, duplicate name in an "
        "inherit list); every defined name collapsed; non-trivial = the breadth-first order has >= 3 nodes, or the error is an "
        "inheritance error (missing target / self-inherit without earlier source / cycle)")
LEVEL_TEXT = ("Kernel-checked Lean 4 theorems about a model of ConfigManager section lookup, _get_inherited_sections and collapse_section: "
              "the lookup stacks are the sections of all sources latest-first; whenever collapsing succeeds the relevant sections are exactly "
              "the generations of the inheritance graph in breadth-first order and every key has the value of the first section in that "
              "order that sets it; tree-shaped graphs of any size always collapse; any reachable missing target or cycle yields an error; "
              "the expansion terminates on arbitrary graphs (well-founded recursion). Differential run against the real ConfigManager.")
LEVEL_NOTE = "Trusted: Lean kernel, standard axioms; value rendering/typing glue; correspondence sampled."

NAMES = list("ABCDEF")
GHOST = "Z"   # never defined
KEYS = ["k1", "k2", "k3", "k4"]


def _install_class():
    """the configurable callable the generated sections instantiate (importable by dotted name)"""
    from pkgcore.config.hint import configurable
    mod = sys.modules.get("verif_c43_mod")
    if mod is None:
        mod = types.ModuleType("verif_c43_mod")

        @configurable(allow_unknowns=True, typename="c43thing")
        def thing(**kw):
            return kw
        mod.thing = thing
        sys.modules["verif_c43_mod"] = mod
    return mod.thing


# ------------------------------------------------------------------ generator

def gen_case(rng):
    """sources: list of {name: {"inherit": [...]|None, "inherit_only": bool, "items": {k: v}}}"""
    nsrc = rng.choice([1, 2, 2, 3, 3, 4])
    names = rng.sample(NAMES, rng.randint(2, 6))
    # a random forest over the names: parent[n] chosen among earlier names
    order = list(names)
    rng.shuffle(order)
    children = {n: [] for n in order}
    for i, n in enumerate(order[1:], 1):
        if rng.random() < 0.85:
            children[rng.choice(order[:i])].append(n)
    sources = [dict() for _ in range(nsrc)]
    for n in order:
        where = sorted(rng.sample(range(nsrc), rng.choice([1, 1, 2, min(3, nsrc)]) if nsrc > 1 else 1))
        kids = list(children[n])
        rng.shuffle(kids)
        # split the children over this name's sections; later sources inherit the earlier one by self-inherit
        for j, s in enumerate(where):
            mine = kids[j::len(where)]
            inh = list(mine)
            if j > 0 and rng.random() < 0.8:
                inh.insert(rng.randrange(len(inh) + 1), n)
            sec = {"inherit": inh if (inh or rng.random() < 0.1) else None, "inherit_only": False, "items": {}}
            for k in KEYS:
                if rng.random() < 0.35:
                    sec["items"][k] = "%s%d%s" % (n.lower(), s, k) if rng.random() < 0.9 else "two words"
            if rng.random() < 0.45:
                sec["items"]["class"] = "verif_c43_mod.thing"
            if rng.random() < 0.1:
                sec["items"]["default"] = rng.choice(["true", "false"])
            sources[s][n] = sec
    # make sure most cases have a class somewhere near the leaves
    for s in sources:
        for n, sec in s.items():
            if not children[n] and rng.random() < 0.8:
                sec["items"].setdefault("class", "verif_c43_mod.thing")
    # perturbations
    k = rng.random()
    secs = [(s, n) for s in range(nsrc) for n in sources[s]]
    if k < 0.18 and secs:          # extra edge: cycle or diamond
        s, n = rng.choice(secs)
        sec = sources[s][n]
        sec["inherit"] = (sec["inherit"] or []) + [rng.choice(names)]
    elif k < 0.28 and secs:        # missing target
        s, n = rng.choice(secs)
        sec = sources[s][n]
        sec["inherit"] = (sec["inherit"] or []) + [GHOST]
    elif k < 0.34 and secs:        # delete a section somebody may inherit
        s, n = rng.choice(secs)
        del sources[s][n]
    elif k < 0.40 and secs:        # duplicate name inside one inherit list
        s, n = rng.choice(secs)
        sec = sources[s][n]
        if sec["inherit"]:
            sec["inherit"] = sec["inherit"] + [rng.choice(sec["inherit"])]
    elif k < 0.44 and secs:        # inherit-only
        s, n = rng.choice(secs)
        sources[s][n]["inherit_only"] = True
    elif k < 0.48 and secs:        # self-inherit with nothing below
        s, n = rng.choice(secs)
        sec = sources[s][n]
        sec["inherit"] = [n] + (sec["inherit"] or [])
    sources = [s for s in sources if s] or [{}]
    forms = [rng.choice(["hard", "strdict", "ini"]) for _ in sources]
    return sources, forms


def to_model(sources):
    return [[{"name": n, "inherit": sec["inherit"], "inherit_only": sec["inherit_only"],
              "items": [[k, v] for k, v in sec["items"].items()]} for n, sec in src.items()] for src in sources]


# ------------------------------------------------------------------ implementation side

def build_manager(sources, forms):
    from pkgcore.config import basics, central, cparser
    thing = _install_class()
    cfgs = []
    for src, form in zip(sources, forms):
        if form == "ini":
            txt = []
            for n, sec in src.items():
                txt.append("[%s]" % n)
                if sec["inherit"] is not None:
                    txt.append("inherit = %s" % " ".join(sec["inherit"]))
                if sec["inherit_only"]:
                    txt.append("inherit-only = true")
                for k, v in sec["items"].items():
                    txt.append("%s = %s" % (k, v))
            cfgs.append(cparser.config_from_file(io.StringIO("\n".join(txt) + "\n")))
            continue
        d = {}
        for n, sec in src.items():
            raw = {}
            if sec["inherit"] is not None:
                raw["inherit"] = list(sec["inherit"]) if form == "hard" else " ".join(sec["inherit"])
            if sec["inherit_only"]:
                raw["inherit-only"] = True if form == "hard" else "true"
            for k, v in sec["items"].items():
                if form == "hard" and k == "class":
                    v = thing
                elif form == "hard" and k == "default":
                    v = (v == "true")
                raw[k] = v
            d[n] = basics.HardCodedConfigSection(raw) if form == "hard" else basics.ConfigSectionFromStringDict(raw)
        cfgs.append(d)
    return central.ConfigManager(cfgs)


ERR_PATTERNS = [
    ("no section called ", "noSection"), ("cannot collapse inherit-only section", "inheritOnly"),
    ("Self-inherit ", "selfMissing"), ("is recursive", "recursive"), ("Inherit target ", "missing"),
    ("no class specified", "noClass"),
]


def impl_collapse(mgr, name):
    from pkgcore.config import errors
    from snakeoil.errors import walk_exception_chain
    try:
        c = mgr.collapse_named_section(name)
    except errors.ConfigurationError as e:
        msgs = [str(x) for x in walk_exception_chain(e)]
        for m in reversed(msgs):
            for pat, kind in ERR_PATTERNS:
                if pat in m:
                    arg = m.split("'")[1] if "'" in m and kind not in ("inheritOnly", "noClass") else None
                    return {"err": kind, "arg": arg} if arg is not None else {"err": kind}
        return {"err": "other", "msgs": msgs}
    return {"ok": sorted((k, str(v)) for k, v in c.config.items()), "default": c.default}


# ------------------------------------------------------------------ corpus

def S(inherit=None, io=False, **items):
    return {"inherit": inherit, "inherit_only": io, "items": dict(items)}


CLS = "verif_c43_mod.thing"
CORPUS = [
    # plain chain and a wide tree: nearest definition, breadth-first (B's value beats D's although D is listed under B first)
    ([{"A": S(["B", "C"], k1="a"), "B": S(["D"], k2="b"), "C": S(k2="c", k3="c"), "D": S(k3="d", k4="d", **{"class": CLS})}], "A"),
    # later source overrides earlier one of the same name; self-inherit reaches the earlier one
    ([{"A": S(k1="old", k2="old", **{"class": CLS})}, {"A": S(["A"], k1="new")}], "A"),
    ([{"A": S(k1="old", k2="old", **{"class": CLS})}, {"A": S(k1="new", **{"class": CLS})}], "A"),
    # three-deep self-inherit chain, other inherits on the way, self not first in the list
    ([{"A": S(["B"], k1="a0"), "B": S(k2="b0", **{"class": CLS})}, {"A": S(["A", "C"], k3="a1"), "C": S(k1="c1", k2="c1")}, {"A": S(["A"], k4="a2")}], "A"),
    # self-inherit with nothing below
    ([{"A": S(["A"], **{"class": CLS})}], "A"),
    # cycle of length 2 and 3, cycle not through the root, cycle through a self-inherit
    ([{"A": S(["B"], **{"class": CLS}), "B": S(["A"])}], "A"),
    ([{"A": S(["B"], **{"class": CLS}), "B": S(["C"]), "C": S(["A"])}], "B"),
    ([{"A": S(["B"], **{"class": CLS}), "B": S(["C"]), "C": S(["B"])}], "A"),
    ([{"A": S(["B"], **{"class": CLS}), "B": S(k1="b")}, {"B": S(["B", "A"])}], "A"),
    # missing target, at depth 2
    ([{"A": S(["B"], **{"class": CLS}), "B": S(["Z"])}], "A"),
    # diamond (not a cycle): the code reports it as recursive; the property does not say
    ([{"A": S(["B", "C"], **{"class": CLS}), "B": S(["D"]), "C": S(["D"]), "D": S(k1="d")}], "A"),
    # duplicate names inside one inherit list
    ([{"A": S(["B", "B"], **{"class": CLS}), "B": S(k1="b")}], "A"),
    ([{"A": S(k1="a0", **{"class": CLS})}, {"A": S(["A", "A"], k2="a1")}], "A"),
    # inherit-only root, inherit-only base, no class anywhere, empty inherit list, unknown section
    ([{"A": S(["B"], io=True), "B": S(**{"class": CLS})}], "A"),
    ([{"A": S(["B"]), "B": S(io=True, k1="b", **{"class": CLS})}], "A"),
    ([{"A": S(["B"], k1="a"), "B": S(k2="b")}], "A"),
    ([{"A": S([], k1="a", **{"class": CLS})}], "A"),
    ([{"A": S(**{"class": CLS})}], "B"),
    # inherited default flag
    ([{"A": S(["B"], **{"class": CLS}), "B": S(default="true", k1="b")}], "A"),
]


def run(ctx):
    rng = ctx.rng
    _install_class()
    cases = []   # (sources, forms, name)
    if ctx.replay_cases:
        for c in ctx.replay_cases:
            if "sources" in c:
                cases.append((c["sources"], c["forms"], c["name"]))
    for sources, name in CORPUS:
        for form in ("hard", "strdict", "ini"):
            cases.append((sources, [form] * len(sources), name))
    for _ in range(ctx.n(5000, 60000)):
        sources, forms = gen_case(rng)
        defined = sorted({n for s in sources for n in s})
        for name in defined + ([GHOST] if rng.random() < 0.05 else []):
            cases.append((sources, forms, name))
    if not ctx.quick():
        # bounded-exhaustive: 3 names x 2 sources, each section absent or with one of 6 inherit lists
        opts = [None, [], ["A"], ["B"], ["C"], ["B", "C"], ["C", "A"]]
        n = 0
        slots = [(s, nm) for s in range(2) for nm in "ABC"]
        for combo in itertools.product(range(len(opts) + 1), repeat=len(slots)):
            if combo[0] == 0 and combo[3] == 0:
                continue      # A undefined everywhere: covered by symmetry
            sources = [dict(), dict()]
            for (s, nm), o in zip(slots, combo):
                if o == 0:
                    continue
                items = {"k1": "%s%d" % (nm.lower(), s), "class": CLS}
                if s == 0:
                    items["k2"] = "%s%dk2" % (nm.lower(), s)
                sources[s][nm] = {"inherit": opts[o - 1], "inherit_only": False, "items": items}
            sources = [s for s in sources if s]
            cases.append((sources, ["hard"] * len(sources), "A"))
            n += 1
        ctx.extra["exhaustive_configs"] = n

    reqs = [{"cmd": "c43.collapse", "sources": to_model(s), "name": name} for s, _, name in cases]
    replies = []
    for i in range(0, len(reqs), 20000):
        replies += ctx.model(reqs[i:i + 20000])

    last = (None, None)
    for (sources, forms, name), rep in zip(cases, replies):
        case = {"sources": sources, "forms": forms, "name": name}
        if rep == "bad-op":
            ctx.mismatch(case, "driver rejected the request")
            continue
        key = (id(sources), tuple(forms))
        try:
            if last[0] != key:
                last = (key, build_manager(sources, forms))    # same manager for every name of a configuration
            mgr = last[1]
            impl = impl_collapse(mgr, name)
            again = impl_collapse(mgr, name)                   # the cached CollapsedConfig / a repeated error
        except Exception as e:
            ctx.violation(case, f"collapsing raised {type(e).__name__}: {e}")
            continue
        if again != impl:
            ctx.violation(case, f"collapsing the same section twice differs: {impl} then {again}")
            continue
        model, spec, order = rep["model"], rep["spec"], rep["order"]
        kind = "ok" if "ok" in impl else impl["err"]
        nontriv = (order is not None and len(order) >= 3) or kind in ("missing", "selfMissing", "recursive")
        ctx.case(case, nontriv, key=None)
        ctx.count("impl_" + kind)
        ctx.count("spec_" + ("ok" if "ok" in spec else spec.get("err", "unspecified")))
        ctx.count("sources_%d" % len(sources))
        ctx.count("form_" + "+".join(sorted(set(forms))))
        if order is not None:
            ctx.count("order_len_%d" % min(len(order), 8))
            if len({n for n, _ in order}) < len(order):
                ctx.count("order_has_self_inherit")
        # ---- the property on the real code (edge C)
        if "ok" in spec:
            want = sorted(map(tuple, spec["ok"]))
            if "ok" not in impl:
                ctx.violation(case, f"tree-shaped inheritance should collapse to {want}, the implementation reports {impl}")
                continue
            if [tuple(x) for x in impl["ok"]] != want:
                ctx.violation(case, f"collapsed config {impl['ok']} differs from the nearest definitions {want}")
                continue
        elif spec.get("err") in ("missing", "cyclic"):
            if "ok" in impl:
                ctx.violation(case, f"inheritance graph has a {spec['err']} problem but collapsing succeeded: {impl['ok']}")
                continue
        elif "err" in spec and "ok" in impl:
            ctx.mismatch(case, f"reference says {spec} but collapsing succeeded")
            continue
        # ---- model vs implementation (edge A)
        if "ok" in model:
            m = {"ok": sorted(map(tuple, model["ok"]))}
            i = {"ok": [tuple(x) for x in impl["ok"]]} if "ok" in impl else impl
        else:
            m, i = model, {k: v for k, v in impl.items()}
        if m != i:
            ctx.mismatch(case, f"implementation {impl}, model {model}")
        # ---- the public object API on top (instantiation glue)
        if "ok" in impl and ctx.evaluations % 5 == 0:
            try:
                inst = mgr.objects.c43thing[name]
                if sorted((k, str(v)) for k, v in inst.items()) != impl["ok"]:
                    ctx.mismatch(case, f"objects.c43thing[{name!r}] = {inst} differs from collapsed config {impl['ok']}")
            except Exception as e:
                ctx.mismatch(case, f"instantiating through manager.objects raised {type(e).__name__}: {e}")
