"""C29 — package database updates (vdb, binpkg) are crash-consistent."""
import bz2
import dis
import hashlib
import os
import shutil
import sys
import tempfile
import types

PID = "C29"
LEAN_MODULES = ["Pkgcore.Props.C29"]
OBLIGATIONS = [
    "Pkgcore.C29.crash_states_are_prefixes",
    "Pkgcore.C29.vdb_install_crash_consistent",
    "Pkgcore.C29.vdb_uninstall_crash_consistent",
    "Pkgcore.C29.binpkg_install_crash_consistent",
    "Pkgcore.C29.binpkg_uninstall_crash_consistent",
    "Pkgcore.C29.binpkg_replace_same_version_crash_consistent",
    "Pkgcore.C29.repo_update_crash_consistent",
    "Pkgcore.C29.new_entry_is_exactly_the_metadata",
    "Pkgcore.C29.temp_names_hidden",
    "Pkgcore.C29.vdb_replace_crash_consistent_partial",
    "Pkgcore.C29.vdb_replace_never_neither",
    "Pkgcore.C29.vdb_replace_same_version_partial",
    "Pkgcore.C29.vdb_replace_same_version_gap",
    "Pkgcore.C29.vdb_replace_same_version_counterexample",
    "Pkgcore.C29.vdb_replace_other_version_counterexample",
    "Pkgcore.C29.binpkg_replace_crash_consistent_partial",
    "Pkgcore.C29.binpkg_replace_other_version_counterexample",
    "Pkgcore.C29.vdb_uninstall_unfixed_counterexample",
    "Pkgcore.C29.vdb_replace_unfixed_counterexample",
    "Pkgcore.C29.binpkg_replace_unfixed_counterexample",
]
TRUSTED = [
    "abstract file system: one category directory = names -> (regular file | flat directory of files); rename(2)/unlink(2)/rmdir(2)/mkdir(2) "
    "with the POSIX error cases the code meets; rename is atomic; operations on the repository root and on the category directory itself "
    "(utime, mkdir/rmdir of the category, the binpkg Packages cache) do not change which packages a scan lists",
    "the OS-level calls of each real operation are observed with a sys audit hook (open/rename/remove/rmdir/mkdir/chmod/chown/utime/truncate "
    "events, dir_fd resolved through /proc); writes through an already open descriptor and external helper processes (bzip2) are not "
    "individually visible — their effect is seen at the next audited call; a truncating open of an existing file is additionally simulated",
    "listing rules (.tmp./-MERGING- prefixes, .lockfile suffix, .tbz2 extension) regenerated from the bytecode constants of the two "
    "_get_packages methods and cross-checked by probing the real methods",
]
ASSUMPTIONS = [
    "no regular *file* sits at the code's temporary names (.tmp.<P>, .tmp.<P>.unmerge; a directory there — a leftover — is handled)",
    "install targets a version that is not installed, uninstall/replace one that is (install_or_replace dispatches accordingly)",
    "binpkg tarballs of the initial state are older than one second (the Packages cache validates entries by integer mtime; C48's subject)",
]
RULE = ("a case = an initial repository built by real installs (0-4 packages: other versions of the same package, other packages of the same "
        "category, another category) plus optional leftovers (.tmp.<P> / .tmp.<P>.unmerge directories of an interrupted run, -MERGING- "
        "directory, .lockfile) and one operation (install, uninstall, replace by another version, replace by the same version with different "
        "metadata) on a vdb or a binpkg repository through repo.operations.*; every OS-level mutating call is a crash point at which a fresh "
        "tree() is scanned and all metadata attributes of every listed package are read; non-trivial = the operation performed at least one call "
        "that changed the listing; key = repository kind + operation + initial entries + leftovers + package")
LEVEL_TEXT = ("Kernel-checked Lean 4 theorems about the operation lists of vdb and binpkg install/uninstall/replace (as repaired) over an abstract "
              "category directory: for every initial store and every prefix of the list, a fresh scan (including every metadata file of each "
              "listed package) shows the old or the new state for install, uninstall and same-version binpkg replace "
              "(repo_update_crash_consistent and its components); replace by another version shows old, new or — between its two steps — both "
              "complete versions, never neither, never a partial one (…_partial, vdb_replace_never_neither); a same-version vdb replace has a "
              "crash point with the package unlisted for every input (vdb_replace_same_version_gap) — recorded as open findings. Tied to the "
              "code by tracing the OS calls of the real operations, scanning a fresh tree at every crash point and comparing listing sequence "
              "and visible-operation sequence with the model.")
LEVEL_NOTE = ("Trusted: Lean kernel; standard axioms only; the abstract file system and rename atomicity; the audit-hook observer. Partial: the "
              "two replace shapes listed as open findings.")

F_GAP = "C29-vdb-replace-same-version-gap"
F_BOTH = "C29-replace-other-version-both"


# ------------------------------------------------------------------ tables from the code

def _classify_consts(func):
    """string constants used as str.startswith / str.endswith arguments in `func` (bytecode walk, no source regex)"""
    pre, suf = [], []
    last_attr = None
    for ins in dis.get_instructions(func):
        if ins.opname in ("LOAD_ATTR", "LOAD_METHOD") and ins.argval in ("startswith", "endswith"):
            last_attr = ins.argval
        elif ins.opname == "LOAD_CONST" and last_attr and isinstance(ins.argval, (str, tuple)):
            vals = [ins.argval] if isinstance(ins.argval, str) else [v for v in ins.argval if isinstance(v, str)]
            (pre if last_attr == "startswith" else suf).extend(vals)
            last_attr = None
        elif ins.opname.startswith("CALL"):
            last_attr = None
    return pre, suf


def gen_tables(repo):
    from pkgcore.vdb import ondisk
    from pkgcore.binpkg import repository
    vp, vs = _classify_consts(ondisk.tree._get_packages)
    bp, bs = _classify_consts(repository.tree._get_packages)
    ext = repository.tree.extension
    # cross-check by probing the real listing methods
    d = tempfile.mkdtemp(prefix="verif-c29-tab-")
    try:
        os.chmod(d, 0o755)
        v = os.path.join(d, "v", "cat")
        os.makedirs(v)
        names = [p + "foo-1" for p in vp] + ["foo-1" + s for s in vs]
        for n in names:
            os.makedirs(os.path.join(v, n))
        os.chmod(os.path.join(d, "v"), 0o755)
        if ondisk.tree(os.path.join(d, "v"), disable_cache=True)._get_packages("cat") != ():
            raise RuntimeError("a vdb skip rule read from the bytecode does not hide its entry")
        b = os.path.join(d, "b", "cat")
        os.makedirs(b)
        for n in [p + "foo-1" + ext for p in bp] + ["foo-1" + ext + s for s in bs] + ["foo-1.tar"]:
            open(os.path.join(b, n), "w").close()
        if repository.tree(os.path.join(d, "b"))._get_packages("cat") != ():
            raise RuntimeError("a binpkg skip rule read from the bytecode does not hide its entry")
    finally:
        shutil.rmtree(d, ignore_errors=True)
    q = lambda l: "[" + ", ".join('"%s"' % x.replace("\\", "\\\\").replace('"', '\\"') for x in l) + "]"
    text = ("-- GENERATED from /repo by harness/props/c29.py (gen_tables); do not edit\n"
            "namespace Pkgcore.Generated.C29\n"
            f"def vdbSkipPrefixes : List String := {q(vp)}\n"
            f"def vdbSkipSuffixes : List String := {q(vs)}\n"
            f"def binSkipPrefixes : List String := {q(bp)}\n"
            f"def binSkipSuffixes : List String := {q(bs)}\n"
            f'def binExtension : String := "{ext}"\n'
            "end Pkgcore.Generated.C29\n")
    return {"Pkgcore/Generated/C29Tables.lean": text}


# ------------------------------------------------------------------ observing OS-level calls (shared with C47)

class CrashObserver:
    """A process-wide audit hook.  While `watch(root, probe)` is active, every mutating OS-level call on a path below `root`
    is a crash point: `probe(event)` runs *before* the call is executed."""
    _installed = None

    MUTATING = {"os.rename": (0, 1), "os.remove": (0,), "os.rmdir": (0,), "os.mkdir": (0,), "os.chmod": (0,), "os.chown": (0,),
                "os.utime": (0,), "os.truncate": (0,), "os.link": (0, 1), "os.symlink": (1,)}
    DIRFD = {"os.rename": (2, 3), "os.remove": (1,), "os.rmdir": (1,), "os.mkdir": (2,), "os.chmod": (2,), "os.chown": (3,),
             "os.utime": (3,), "os.link": (2, 3), "os.symlink": (2,)}

    def __init__(self):
        self.root = None
        self.probe = None
        self.busy = False
        self.events = []

    @classmethod
    def get(cls):
        if cls._installed is None:
            cls._installed = cls()
            sys.addaudithook(cls._installed._hook)
        return cls._installed

    def _resolve(self, p, dir_fd):
        if isinstance(p, bytes):
            p = os.fsdecode(p)
        if isinstance(p, os.PathLike):
            p = os.fspath(p)
        if not isinstance(p, str):
            return None
        if not os.path.isabs(p):
            if isinstance(dir_fd, int) and dir_fd >= 0:
                try:
                    base = os.readlink("/proc/self/fd/%d" % dir_fd)
                except OSError:
                    return None
            else:
                base = os.getcwd()
            p = os.path.join(base, p)
        return os.path.normpath(p)

    def _hook(self, name, args):
        if self.root is None or self.busy:
            return
        try:
            if name == "open":
                path, mode, flags = args[0], args[1], args[2]
                if not isinstance(flags, int) or not flags & (os.O_WRONLY | os.O_RDWR | os.O_CREAT | os.O_TRUNC | os.O_APPEND):
                    return
                paths = [self._resolve(path, None)]
                kind = "open-trunc" if flags & os.O_TRUNC else "open-write"
            elif name in self.MUTATING:
                fds = self.DIRFD.get(name, ())
                paths = []
                for i, pi in enumerate(self.MUTATING[name]):
                    fd = args[fds[i]] if i < len(fds) and fds[i] < len(args) else None
                    paths.append(self._resolve(args[pi], fd))
                kind = name[3:]
            elif name == "subprocess.Popen":
                paths, kind = [self.root], "spawn"
            else:
                return
            if not any(p is not None and (p == self.root or p.startswith(self.root + os.sep)) for p in paths):
                return
            self.busy = True
            try:
                ev = (kind,) + tuple(os.path.relpath(p, self.root) if p else "?" for p in paths)
                self.events.append(ev)
                self.probe(ev, paths)
            finally:
                self.busy = False
        except BaseException as e:  # never let the observer change the behaviour of the code under test
            self.events.append(("observer-error", repr(e)))

    def watch(self, root, probe):
        obs = self

        class _Ctx:
            def __enter__(self_):
                obs.events = []
                obs.root, obs.probe = os.path.realpath(root), probe
                return obs

            def __exit__(self_, *a):
                obs.root = obs.probe = None
        return _Ctx()


def digest(b):
    return hashlib.blake2b(b, digest_size=6).hexdigest()


def raw_category(path):
    """file-level snapshot of one category directory: entry -> ('file', digest) | ('dir', sorted [(name, digest)])"""
    out = {}
    try:
        names = os.listdir(path)
    except OSError:
        return out
    for n in names:
        p = os.path.join(path, n)
        if os.path.isdir(p):
            fs = []
            for f in sorted(os.listdir(p)):
                fp = os.path.join(p, f)
                try:
                    with open(fp, "rb") as fh:
                        fs.append((f, digest(fh.read())))
                except OSError:
                    fs.append((f, "unreadable"))
            out[n] = ("dir", fs)
        else:
            try:
                with open(p, "rb") as fh:
                    out[n] = ("file", digest(fh.read()))
            except OSError:
                out[n] = ("file", "unreadable")
    return out


# ------------------------------------------------------------------ building packages and repositories

ATTRS = ["fullslot", "description", "keywords", "use", "iuse", "eapi", "license", "defined_phases", "source_repository", "chost", "homepage"]


def write_src_pkg(root, cat, pf, variant, slot, rng_tag):
    d = os.path.join(root, cat, pf)
    os.makedirs(d)
    eapi = "5" if variant == "C" else "8"
    files = {
        "SLOT": slot + "\n", "EAPI": eapi + "\n", "DESCRIPTION": f"{pf} build {variant} {rng_tag}\n", "KEYWORDS": "amd64 ~arm64\n",
        "USE": ("foo\n" if variant == "A" else "foo bar\n"), "IUSE": "foo bar\n", "RDEPEND": "dev-libs/x\n" if variant == "A" else "dev-libs/x dev-libs/y\n",
        "DEPEND": "virtual/pkgconfig\n", "LICENSE": "GPL-2\n", "DEFINED_PHASES": "install\n", "CHOST": "x86_64-pc-linux-gnu\n",
        "HOMEPAGE": "https://example.org/" + pf + "\n", "repository": "gentoo\n",
        "CONTENTS": f"dir /usr\ndir /usr/bin\nobj /usr/bin/{pf}-{variant} d41d8cd98f00b204e9800998ecf8427e 1700000000\n",
        pf + ".ebuild": f"# {pf} {variant}\nEAPI={eapi}\nSLOT={slot}\n",
    }
    if variant == "A":
        files["PROPERTIES"] = "live\n"
    if variant == "C":             # a build with fewer / other metadata: no HOMEPAGE, no PROPERTIES, other deps
        del files["HOMEPAGE"]
        files["RDEPEND"] = "dev-libs/z\n"
    for k, v in files.items():
        with open(os.path.join(d, k), "w") as f:
            f.write(v)
    with open(os.path.join(d, "environment.bz2"), "wb") as f:
        f.write(bz2.compress(f"declare -x PF={pf}\ndeclare -x VARIANT={variant}\n".encode()))


class World:
    """source packages (variants A, B: same attribute set, different values; C: an EAPI-5 build with fewer tracked
    attributes and no NEEDED file) + scratch space"""
    CPVS = [("dev-util", "foo-1.0", "0"), ("dev-util", "foo-1.0-r1", "0"), ("dev-util", "foo-2.0_rc1", "2"), ("dev-util", "foo-10.1.2", "2/2.1"),
            ("dev-util", "bar-baz-0.9", "0"), ("sys-apps", "libx-3", "3")]

    def __init__(self):
        from pkgcore.vdb.ondisk import tree as vtree
        from pkgcore.package.mutated import MutatedPkg
        from pkgcore.fs.livefs import scan
        self.root = tempfile.mkdtemp(prefix="verif-c29-")
        os.chmod(self.root, 0o755)
        self.n = 0
        self.src = {}
        self.domain = types.SimpleNamespace(pm_tmpdir=os.path.join(self.root, "pmtmp"))
        os.makedirs(self.domain.pm_tmpdir)
        img = os.path.join(self.root, "image")
        os.makedirs(os.path.join(img, "usr", "bin"))
        with open(os.path.join(img, "usr", "bin", "tool"), "w") as f:
            f.write("#!/bin/sh\necho tool\n")
        os.makedirs(os.path.join(img, "etc"))
        with open(os.path.join(img, "etc", "tool.conf"), "w") as f:
            f.write("x=1\n")
        cset = scan(img, offset=img)
        self.domain_plain = types.SimpleNamespace(pm_tmpdir=os.path.join(self.root, "pmtmp-plain"))
        os.makedirs(self.domain_plain.pm_tmpdir)
        self.refs = {}
        for variant in ("A", "B", "C"):
            sroot = os.path.join(self.root, "src" + variant)
            os.makedirs(sroot)
            os.chmod(sroot, 0o755)
            for cat, pf, slot in self.CPVS:
                write_src_pkg(sroot, cat, pf, variant, slot, "x")
            for pkg in vtree(sroot, disable_cache=True):
                self.src[(pkg.cpvstr, variant)] = pkg
                self.src[(pkg.cpvstr, variant, "bin")] = MutatedPkg(pkg, {"contents": cset})
        # a NEEDED file for one package exercises that branch of add_data
        for pf in ("foo-1.0", "foo-2.0_rc1", "bar-baz-0.9"):
            nd = os.path.join(self.domain.pm_tmpdir, "dev-util", pf, "temp")
            os.makedirs(nd)
            for n in ("NEEDED", "NEEDED.ELF.2")[: 1 if pf == "bar-baz-0.9" else 2]:
                with open(os.path.join(nd, n), "w") as f:
                    f.write("/usr/bin/foo libc.so.6\n")

    def domain_for(self, key):
        return self.domain_plain if key[1] == "C" else self.domain

    def reference(self, kind, key):
        """a clean install of this build into an empty repository: (file-level entry, attribute view) — what the entry must be"""
        if (kind, key) not in self.refs:
            loc = self.fresh_dir()
            perform(kind, loc, self, "install", None, key)
            cat, pf = key[0].split("/")
            raw = raw_category(os.path.join(loc, cat))[pf + (".tbz2" if kind == "binpkg" else "")]
            self.refs[(kind, key)] = (raw, fresh_view(kind, loc)[key[0]])
            shutil.rmtree(loc, ignore_errors=True)
        return self.refs[(kind, key)]

    def fresh_dir(self):
        self.n += 1
        d = os.path.join(self.root, "r%d" % self.n)
        os.makedirs(d)
        os.chmod(d, 0o755)
        return d

    def close(self):
        shutil.rmtree(self.root, ignore_errors=True)


def open_repo(kind, loc):
    if kind == "vdb":
        from pkgcore.vdb.ondisk import tree
        return tree(loc, disable_cache=True)
    from pkgcore.binpkg.repository import tree
    return tree(loc)


def pkg_attrs(pkg):
    out = {}
    for a in ATTRS:
        try:
            v = getattr(pkg, a)
            out[a] = " ".join(sorted(map(str, v))) if isinstance(v, (tuple, list, set, frozenset)) else str(v)
        except Exception as e:
            out[a] = "ERR:" + type(e).__name__
    for a in ("rdepend", "depend"):
        try:
            out[a] = str(getattr(pkg, a))
        except Exception as e:
            out[a] = "ERR:" + type(e).__name__
    try:
        out["contents"] = " ".join(sorted(str(x) for x in pkg.contents))
    except Exception as e:
        out["contents"] = "ERR:" + type(e).__name__
    try:
        out["environment"] = digest(pkg.environment.bytes_fileobj().read())
    except Exception as e:
        out["environment"] = "ERR:" + type(e).__name__
    return out


def fresh_view(kind, loc):
    """what a fresh view of the repository lists: cpv -> all metadata attributes (read through the package objects)"""
    try:
        repo = open_repo(kind, loc)
        return {pkg.cpvstr: pkg_attrs(pkg) for pkg in repo}
    except Exception as e:
        return {"<scan failed>": {"error": type(e).__name__ + ": " + str(e)[:200]}}


def perform(kind, loc, world, opname, old_cpv, new_key):
    """run one repository operation through the public operations API"""
    repo = open_repo(kind, loc)
    suffix = ("bin",) if kind == "binpkg" else ()
    newpkg = world.src[new_key + suffix] if new_key else None
    if opname == "install":
        op = repo.operations.install(newpkg)
    else:
        oldpkg = [p for p in repo if p.cpvstr == old_cpv][0]
        op = repo.operations.uninstall(oldpkg) if opname == "uninstall" else repo.operations.replace(oldpkg, newpkg)
    if kind == "vdb" and opname != "uninstall":
        op.add_data(world.domain_for(new_key))
    return op.finish()


LEFTOVERS = ["stale-tmp", "stale-unmerge", "merging-dir", "lockfile", "stale-bintmp"]


def build_initial(kind, world, installed, leftovers, target_cat, target_pf):
    loc = world.fresh_dir()
    for key in installed:
        perform(kind, loc, world, "install", None, key)
    cdir = os.path.join(loc, target_cat)
    for l in leftovers:
        os.makedirs(cdir, exist_ok=True)
        if l == "stale-tmp" and kind == "vdb":
            os.makedirs(os.path.join(cdir, ".tmp." + target_pf), exist_ok=True)
            for n in ("NEEDED", "BOGUS", "SLOT"):
                with open(os.path.join(cdir, ".tmp." + target_pf, n), "w") as f:
                    f.write("stale\n")
        elif l == "stale-unmerge" and kind == "vdb":
            os.makedirs(os.path.join(cdir, ".tmp." + target_pf + ".unmerge"), exist_ok=True)
            with open(os.path.join(cdir, ".tmp." + target_pf + ".unmerge", "CONTENTS"), "w") as f:
                f.write("stale\n")
        elif l == "merging-dir" and kind == "vdb":
            os.makedirs(os.path.join(cdir, "-MERGING-" + target_pf), exist_ok=True)
        elif l == "lockfile":
            open(os.path.join(cdir, target_pf + (".tbz2" if kind == "binpkg" else "") + ".lockfile"), "w").close()
        elif l == "stale-bintmp" and kind == "binpkg":
            with open(os.path.join(cdir, ".tmp.%d.%s.tbz2" % (os.getpid(), target_pf)), "w") as f:
                f.write("stale partial tarball")
    if kind == "binpkg":
        # age the tarballs so that the integer-second mtime check of the Packages cache cannot confuse old and new files
        for dp, _, fns in os.walk(loc):
            for fn in fns:
                if fn.endswith(".tbz2"):
                    st = os.stat(os.path.join(dp, fn))
                    os.utime(os.path.join(dp, fn), (st.st_atime - 7200, st.st_mtime - 7200))
        try:
            os.unlink(os.path.join(loc, "Packages"))
        except FileNotFoundError:
            pass
        repo = open_repo(kind, loc)
        for pkg in repo:
            pkg.description
        repo.cache.commit()
    return loc


# ------------------------------------------------------------------ scenarios

def gen_scenario(rng, kind):
    cpvs = World.CPVS
    cat, pf, _ = rng.choice(cpvs[:5] * 2 + cpvs[5:])
    cpv = cat + "/" + pf
    opname = rng.choice(["install", "uninstall", "replace-other", "replace-same", "replace-other", "replace-same"])
    if opname == "replace-other" and not pf.startswith("foo-"):
        opname = "replace-same"          # only `foo` exists in several versions
    others = [c for c in cpvs if c[1] != pf]
    installed = []
    for c in rng.sample(others, rng.randint(0, 3)):
        installed.append((c[0] + "/" + c[1], rng.choice("AB")))
    old_cpv = None
    new_key = None
    if opname == "install":
        new_key = (cpv, rng.choice("ABC"))
    elif opname == "uninstall":
        installed.append((cpv, rng.choice("AB")))
        old_cpv = cpv
    elif opname == "replace-same":
        v = rng.choice("AB")
        installed.append((cpv, v))
        old_cpv, new_key = cpv, (cpv, rng.choice([x for x in "ABC" if x != v]))
    else:
        cand = [c for c in cpvs if c[0] == cat and c[1].split("-")[0] == pf.split("-")[0] and c[1] != pf]
        o = rng.choice(cand)
        installed = [k for k in installed if k[0] != o[0] + "/" + o[1]]
        installed.append((o[0] + "/" + o[1], rng.choice("AB")))
        old_cpv, new_key = o[0] + "/" + o[1], (cpv, rng.choice("ABC"))
    pool = LEFTOVERS[:4] if kind == "vdb" else ["lockfile", "stale-bintmp"]
    leftovers = sorted(set(rng.sample(pool, rng.choice([0, 0, 1, 1, 2, len(pool)]))))
    rng.shuffle(installed)
    return {"kind": kind, "op": opname, "installed": installed, "old": old_cpv, "new": list(new_key) if new_key else None,
            "leftovers": leftovers, "target": [cat, pf]}


def corpus():
    S = lambda kind, op, installed, old, new, leftovers, target: {"kind": kind, "op": op, "installed": installed, "old": old, "new": new,
                                                                  "leftovers": leftovers, "target": target}
    f1, f1r, f2, bb, lx = "dev-util/foo-1.0", "dev-util/foo-1.0-r1", "dev-util/foo-2.0_rc1", "dev-util/bar-baz-0.9", "sys-apps/libx-3"
    out = []
    for kind in ("vdb", "binpkg"):
        left = ["stale-tmp", "stale-unmerge"] if kind == "vdb" else ["stale-bintmp"]
        out += [
            S(kind, "install", [], None, [f1, "A"], [], ["dev-util", "foo-1.0"]),
            S(kind, "install", [(bb, "A"), (f2, "B")], None, [f1, "A"], left, ["dev-util", "foo-1.0"]),
            S(kind, "uninstall", [(f1, "A")], f1, None, [], ["dev-util", "foo-1.0"]),                       # last package of the category
            S(kind, "uninstall", [(f1, "A"), (f1r, "B"), (lx, "A")], f1, None, left, ["dev-util", "foo-1.0"]),
            S(kind, "replace-other", [(f1, "A")], f1, [f2, "A"], [], ["dev-util", "foo-2.0_rc1"]),          # the defects fixed in the repo
            S(kind, "replace-other", [(f1, "A"), (bb, "B")], f1, [f1r, "B"], left, ["dev-util", "foo-1.0-r1"]),
            S(kind, "replace-same", [(f1, "A")], f1, [f1, "B"], [], ["dev-util", "foo-1.0"]),
            S(kind, "replace-same", [(f1, "B"), (f2, "A")], f1, [f1, "A"], left, ["dev-util", "foo-1.0"]),
        ]
    return out


# ------------------------------------------------------------------ the check

def run(ctx):
    from pkgcore.vdb import ondisk  # noqa: F401
    rng = ctx.rng
    world = World()
    obs = CrashObserver.get()
    pending = []
    followups = []
    hidden_py = _hidden_rules()

    def follow_up_install(sc, ev, copy, crashed_key):
        cpv = crashed_key[0]
        cat, pf = cpv.split("/")
        other = tuple([cpv, rng.choice([v for v in "ABC" if v != crashed_key[1]])])
        desc = dict(sc, crash_before=list(ev), follow_up_build=list(other))
        try:
            store = [[n, {"file": o[1]} if o[0] == "file" else {"dir": [list(x) for x in o[1]]}]
                     for n, o in sorted(raw_category(os.path.join(copy, cat)).items())]
            listed = fresh_view("vdb", copy)
            try:
                perform("vdb", copy, world, "replace" if cpv in listed else "install", cpv, other)
            except Exception as e:
                ctx.violation(desc, f"follow-up {'replace' if cpv in listed else 'install'} after the crash raised {type(e).__name__}: {e}")
                return
            ref_raw, ref_attrs = world.reference("vdb", other)
            got_attrs = fresh_view("vdb", copy).get(cpv)
            got_raw = raw_category(os.path.join(copy, cat)).get(pf)
            ctx.count("crash_followup_installs")
            if got_attrs != ref_attrs:
                bad = {a: ((got_attrs or {}).get(a), ref_attrs.get(a)) for a in ref_attrs if (got_attrs or {}).get(a) != ref_attrs.get(a)}
                ctx.violation(desc, f"after a crash and a complete re-install from another build the entry reads back as a mix of both builds "
                                    f"(got, clean install): {bad}")
            bad = entry_diff(got_raw, ref_raw)
            if bad:
                ctx.violation(desc, f"after a crash and a complete re-install from another build the entry is not exactly that build's metadata: {bad}")
            files = [[f, (dict(got_raw[1]).get(f, d) if got_raw and f == "COUNTER" else d)] for f, d in ref_raw[1]]
            req = {"cmd": "c29.run", "store": store, "files": files}
            if cpv in listed:
                req.update(kind="vdb-replace", old=pf, new=pf)
            else:
                req.update(kind="vdb-install", name=pf)
            followups.append((desc, req, pf, sorted(map(tuple, got_raw[1])) if got_raw and got_raw[0] == "dir" else None))
        finally:
            shutil.rmtree(copy, ignore_errors=True)

    def run_scenario(sc):
        kind, opname = sc["kind"], sc["op"]
        cat, pf = sc["target"]
        try:
            loc = build_initial(kind, world, [tuple(k) for k in sc["installed"]], sc["leftovers"], cat, pf)
        except Exception as e:
            ctx.mismatch(sc, f"could not build the initial repository: {type(e).__name__}: {e}")
            return
        cdir = os.path.join(loc, cat)
        points = []    # (event, attribute-level fresh view, file-level category snapshot, listed cpvs)

        crash_copies = []   # (event, copy of the whole repository) for a sample of crash points

        def probe(ev, paths):
            view = fresh_view(kind, loc)
            points.append([ev, view, raw_category(cdir)])
            if kind == "vdb" and sc["new"] and len(crash_copies) < follow_budget and \
                    (len(points) in sample_at or (ev[0] == "rename" and len(crash_copies) < follow_budget)):
                dst = os.path.join(world.root, "crash%d" % world.n)
                world.n += 1
                shutil.copytree(loc, dst, symlinks=True)
                crash_copies.append((ev, dst))
            # a truncating open of an existing file: the state right after the open is a crash point of its own
            if ev[0] == "open-trunc" and paths[0] and os.path.isfile(paths[0]) and os.path.getsize(paths[0]) > 0:
                st = os.stat(paths[0])
                with open(paths[0], "rb") as f:
                    saved = f.read()
                try:
                    os.truncate(paths[0], 0)
                    points.append([("after-" + ev[0],) + ev[1:], fresh_view(kind, loc), raw_category(cdir)])
                finally:
                    with open(paths[0], "wb") as f:
                        f.write(saved)
                    os.utime(paths[0], ns=(st.st_atime_ns, st.st_mtime_ns))

        follow_budget = ctx.n(2, 4)
        sample_at = {rng.randrange(4, 40), rng.randrange(40, 75)} if ctx.quick() else {rng.randrange(2, 25), rng.randrange(25, 50), rng.randrange(50, 80)}
        old_view = fresh_view(kind, loc)
        old_raw = raw_category(cdir)
        new_key = tuple(sc["new"]) if sc["new"] else None
        realop = "replace" if opname.startswith("replace") else opname
        try:
            with obs.watch(loc, probe):
                perform(kind, loc, world, realop, sc["old"], new_key)
        except Exception as e:
            ctx.violation(sc, f"{kind} {opname} raised {type(e).__name__}: {e}")
            return
        new_view = fresh_view(kind, loc)
        new_raw = raw_category(cdir)
        points.append([("end",), new_view, new_raw])
        if any(e[0] == "observer-error" for e in obs.events):
            ctx.mismatch(sc, "observer failed: %r" % [e for e in obs.events if e[0] == "observer-error"][:2])
            return
        ctx.traces += 1
        ctx.count("crash_points", len(points))
        ctx.count(f"{kind}_{opname}")
        for l in sc["leftovers"]:
            ctx.count("leftover_" + l)
        ctx.count("initial_pkgs_%d" % len(sc["installed"]))

        # ---- the expected new state (edge C, part 1): exactly the requested change, with the source package's metadata
        want = set(old_view)
        if sc["old"]:
            want.discard(sc["old"])
        if new_key:
            want.add(new_key[0])
        if set(new_view) != want:
            ctx.violation(sc, f"after the completed {opname} a fresh view lists {sorted(new_view)}, expected exactly {sorted(want)}")
        else:
            for k in want:
                if k != (new_key[0] if new_key else None) and new_view[k] != old_view[k]:
                    ctx.violation(sc, f"{opname} changed the metadata of the untouched package {k}")
            if new_key:
                ref_raw, ref_attrs = world.reference(kind, new_key)
                got = new_view[new_key[0]]
                if got != ref_attrs:
                    bad = {a: (got.get(a), ref_attrs.get(a)) for a in set(got) | set(ref_attrs) if got.get(a) != ref_attrs.get(a)}
                    ctx.violation(sc, f"the new entry {new_key[0]} does not read back as this build's metadata (got, clean install): {bad}")
                if kind == "vdb":
                    bad = entry_diff(new_raw.get(new_key[0].split("/")[1]), ref_raw)
                    if bad:
                        ctx.violation(sc, f"the new entry {new_key[0]} is not exactly the metadata of this build: {bad}")

        # ---- every crash point (edge C, part 2): old or new, with the two open finding classes recognised exactly
        gap = both = None
        if opname == "replace-same" and kind == "vdb":
            gap = {k: v for k, v in old_view.items() if k != sc["old"]}
        if opname == "replace-other":
            both = dict(old_view)
            both[new_key[0]] = new_view.get(new_key[0])
        changed = False
        for ev, view, _ in points:
            if view != old_view:
                changed = True
            if view == old_view or view == new_view:
                continue
            if gap is not None and view == gap:
                ctx.violation(sc, f"crash before {ev}: {sc['old']} is not listed at all (neither old nor new)", finding=F_GAP)
            elif both is not None and view == both:
                ctx.violation(sc, f"crash before {ev}: both {sc['old']} and {new_key[0]} are listed", finding=F_BOTH)
            else:
                odd = {k: ("missing" if k not in view else "partial/other") for k in set(old_view) | set(new_view) | set(view)
                       if view.get(k) != old_view.get(k) and view.get(k) != new_view.get(k)}
                ctx.violation(sc, f"crash before {ev}: a fresh view shows neither the old nor the new state: {odd or sorted(view)}")
        ctx.case(sc, nontrivial=changed, key=repr((kind, opname, sorted(map(tuple, sc["installed"])), sc["leftovers"], sc["old"], sc["new"])))

        # ---- after a crash: a complete follow-up install/replace of the same cpv from ANOTHER build must yield exactly that build
        for ev, copy in crash_copies:
            follow_up_install(sc, ev, copy, new_key)

        # ---- material for edge A
        listed_seq = []
        for ev, view, raw in points:
            names = set()
            for cpv in view:
                c, _, p = cpv.partition("/")
                if c == cat:
                    names.add(p + (".tbz2" if kind == "binpkg" else ""))
            fv = sorted((n, raw[n][1] if n in raw and raw[n][0] == ("file" if kind == "binpkg" else "dir") else "absent") for n in names)
            if not listed_seq or listed_seq[-1] != fv:
                listed_seq.append(fv)
        vis_events = []
        for ev in obs.events:
            if ev[0] in ("open-write", "open-trunc", "spawn", "utime", "chmod", "chown"):
                tops = [_top(p, cat) for p in ev[1:]]
                if ev[0] in ("open-write", "open-trunc") and tops[0] and not hidden_py[kind](tops[0]):
                    vis_events.append(["write", tops[0]])
                continue
            tops = [_top(p, cat) for p in ev[1:]]
            if any(t and not hidden_py[kind](t) for t in tops):
                vis_events.append([{"remove": "unlink"}.get(ev[0], ev[0])] + tops)
        pending.append((sc, old_raw, new_raw, listed_seq, vis_events))
        shutil.rmtree(loc, ignore_errors=True)

    try:
        scenarios = corpus()
        nv, nb = ctx.n(5, 170), ctx.n(5, 150)
        scenarios += [gen_scenario(rng, "vdb") for _ in range(nv)] + [gen_scenario(rng, "binpkg") for _ in range(nb)]
        for sc in scenarios:
            run_scenario(sc)
    finally:
        world_refs = dict(world.refs)
        world.close()

    # ---- edge A: the Lean model on the abstracted initial state
    def model_files(sc, new_raw, newname):
        ref_raw, _ = world_refs[("vdb", tuple(sc["new"]))]
        actual = dict(new_raw[newname][1]) if newname in new_raw and new_raw[newname][0] == "dir" else {}
        return [[f, actual.get(f, d) if f == "COUNTER" else d] for f, d in ref_raw[1]]

    reqs = []
    for sc, old_raw, new_raw, _, _ in pending:
        kind, opname = sc["kind"], sc["op"]
        cat, pf = sc["target"]
        ext = ".tbz2" if kind == "binpkg" else ""
        store = [[n, {"file": o[1]} if o[0] == "file" else {"dir": [list(x) for x in o[1]]}] for n, o in sorted(old_raw.items())]
        req = {"cmd": "c29.run", "store": store}
        newname = sc["new"][0].split("/")[1] + ext if sc["new"] else None
        oldname = sc["old"].split("/")[1] + ext if sc["old"] else None
        if kind == "vdb":
            if opname == "install":
                req.update(kind="vdb-install", name=newname, files=model_files(sc, new_raw, newname))
            elif opname == "uninstall":
                req.update(kind="vdb-uninstall", name=oldname)
            else:
                req.update(kind="vdb-replace", old=oldname, new=newname, files=model_files(sc, new_raw, newname))
        else:
            tmp = ".tmp.%d.%s" % (os.getpid(), newname) if newname else None
            if opname == "install":
                req.update(kind="bin-install", tmp=tmp, name=newname, pre=["tar-stream-only"], content=new_raw[newname][1])
            elif opname == "uninstall":
                req.update(kind="bin-uninstall", name=oldname)
            else:
                req.update(kind="bin-replace", tmp=tmp, old=oldname, new=newname, pre=["tar-stream-only"], content=new_raw[newname][1])
        reqs.append(req)
    for (sc, old_raw, new_raw, listed_seq, vis_events), rep in zip(pending, ctx.model(reqs)):
        if not isinstance(rep, dict):
            ctx.mismatch(sc, f"driver answered {rep!r}")
            continue
        mviews = []
        for v in rep["views"]:
            if sc["kind"] == "vdb":
                fv = sorted((n, sorted(map(tuple, fs))) for n, fs in v)
            else:
                fv = sorted((n, c) for n, c in v)
            if not mviews or mviews[-1] != fv:
                mviews.append(fv)
        cat = sc["target"][0]
        real = [[(n, [tuple(x) for x in d] if isinstance(d, list) else d) for n, d in fv] for fv in listed_seq]
        model = [[(n, d) for n, d in fv] for fv in mviews]
        if real != model:
            short = lambda seq: [[(n, "%d files #%s" % (len(d), digest(repr(d).encode())) if isinstance(d, list) else d) for n, d in fv] for fv in seq]
            ctx.mismatch(sc, f"sequence of distinct listings at the crash points: implementation {short(real)[:12]} vs Lean model {short(model)[:12]}")
        mvis = [[o[0]] + o[1:-1][: (2 if o[0] == "rename" else 1)] for o in rep["ops"] if not o[-1] and o[0] != "noop"]
        if vis_events != mvis:
            ctx.mismatch(sc, f"operations on listed entries: implementation {vis_events} vs Lean model {mvis}")
    for (desc, req, pf, got), rep in zip(followups, ctx.model([f[1] for f in followups])):
        if not isinstance(rep, dict):
            ctx.mismatch(desc, f"driver answered {rep!r}")
            continue
        final = dict((n, sorted(map(tuple, fs))) for n, fs in rep["views"][-1])
        if final.get(pf) != got:
            short = lambda e: None if e is None else sorted(set(x[0] for x in e))
            ctx.mismatch(desc, f"entry after the follow-up install from the crash state: implementation files {short(got)} vs Lean model "
                               f"{short(final.get(pf))} (digests differ or file sets differ)")
    # the hidden-name rule itself, model vs python mirror vs real listing (the mirror is what classified the real events)
    probe_names = ["foo-1", ".tmp.foo-1", ".tmp.foo-1.unmerge", "-MERGING-foo-1", "foo-1.lockfile", "foo-1.tbz2", ".tmp.12.foo-1.tbz2",
                   "foo-1.TBZ2", "foo-1.tbz2.lockfile", "foo-1.tar", "tmp.foo-1", "x.tmp.foo-1"]
    for n, rep in zip(probe_names, ctx.model([{"cmd": "c29.hidden", "name": n} for n in probe_names])):
        if rep != [hidden_py["vdb"](n), hidden_py["binpkg"](n)]:
            ctx.mismatch({"name": n}, f"hidden-name rule: model {rep}, harness mirror {[hidden_py['vdb'](n), hidden_py['binpkg'](n)]}")


def entry_diff(got, ref):
    """difference between a vdb entry and the clean reference entry of the same build (COUNTER holds the install time)"""
    if got is None or got[0] != "dir":
        return {"entry": "missing"}
    g, r = dict(got[1]), dict(ref[1])
    out = {}
    if set(g) - set(r):
        out["stale files"] = sorted(set(g) - set(r))
    if set(r) - set(g):
        out["missing files"] = sorted(set(r) - set(g))
    diff = sorted(f for f in set(g) & set(r) if g[f] != r[f] and f != "COUNTER")
    if diff:
        out["different content"] = diff
    return out


def _top(rel, cat):
    """entry name inside the category directory that a repository-relative path touches (None: outside that directory)"""
    parts = rel.split(os.sep)
    if len(parts) >= 2 and parts[0] == cat:
        return parts[1]
    return None


def _hidden_rules():
    from pkgcore.vdb import ondisk
    from pkgcore.binpkg import repository
    vp, vs = _classify_consts(ondisk.tree._get_packages)
    bp, bs = _classify_consts(repository.tree._get_packages)
    ext = repository.tree.extension
    return {"vdb": lambda n: n.startswith(tuple(vp)) or n.endswith(tuple(vs)),
            "binpkg": lambda n: n.startswith(tuple(bp)) or n.endswith(tuple(bs)) or not n.lower().endswith(ext)}
