"""C42 — package move updates follow move chains in file order."""
import itertools
import os
import shutil
import tempfile

PID = "C42"
LEAN_MODULES = ["Pkgcore.Props.C42"]
OBLIGATIONS = [
    "Pkgcore.C42.scan_chronological",
    "Pkgcore.C42.updates_eq_reference",
    "Pkgcore.C42.updates_keys_nodup",
    "Pkgcore.C42.redundant_moves_ignored",
    "Pkgcore.C42.malformed_lines_skipped",
    "Pkgcore.C42.malformed_lines_removable",
    "Pkgcore.C42.deque_graph_acyclic",
]
TRUSTED = [
    "lexing (str.strip/str.split, the atom parser on each token, update_regex on file names) is modelled as structured tokens whose "
    "flags are fixed by the generator's construction; a start-up calibration compares every token template with the real atom() and the "
    "real update_regex, and the correspondence run feeds the rendered text files to the real read_updates()",
    "Python object identity of the nested deques is modelled by node ids; snakeoil's iflatten_instance by the recursive `flatten`",
]
ASSUMPTIONS = [
    "file order = (year, quarter) for quarter-named files (EAPI <= 7); for EAPIs whose update_regex has no groups (EAPI 8: any name not starting "
    "with a dot) files are processed in name order",
    "source atoms are plain, versioned or slotted package atoms (no use deps / repo ids / blockers), so that validity of the two slot atoms of a "
    "slotmove depends on the slot token only",
]
RULE = ("random update directories: 1-6 files (quarter names over 2019-2022 listed in random order, plus wrongly named files), 0-9 lines each over a universe "
        "of 3-6 package names so that chains, cycles, self moves and redundant moves are frequent; lines are valid moves/slotmoves (plain, versioned, "
        "slotted sources), malformed lines of every class the code distinguishes, blank lines and extra whitespace; "
        "non-trivial = the reference reports for some name a command whose source is a different name (a chain was followed)")

CATS = ["a", "dev-x"]
VALID_SLOTS = ["0", "1", "2.1", "foo", "0/1"]
BAD_SLOTS = ["-0", ".1", "a:b", "0/"]
BAD_ATOMS = ["pkgonly", "=K", "K-1.0", "K:-1"]          # K is replaced by a key
QUARTER_YEARS = [2019, 2020, 2021, 2022]
BAD_NAMES = ["5Q-2020", "1Q-20201", "1q-2020", "frobnicate", "1Q-2020.bak", "0Q-2021", "Q1-2020"]
DOT_NAMES = [".hidden", ".1Q-2020"]


def atom_tok(key, form):
    """token in atom position; flags by construction"""
    if form == "plain":
        t, v, s = key, False, False
    elif form == "eq":
        t, v, s = f"={key}-1.0", True, False
    elif form == "ge":
        t, v, s = f">={key}-2", True, False
    elif form == "tilde":
        t, v, s = f"~{key}-1", True, False
    elif form == "slot":
        t, v, s = f"{key}:1", False, True
    elif form == "eqslot":
        t, v, s = f"={key}-1.0:2", True, True
    else:
        raise ValueError(form)
    return {"text": t, "atom": {"text": t, "key": key, "versioned": v, "slotted": s}, "slotOk": False, "kind": "atom"}


def bad_atom_tok(key, tmpl):
    return {"text": tmpl.replace("K", key), "atom": None, "slotOk": False, "kind": "badatom"}


def slot_tok(text, ok):
    return {"text": text, "atom": None, "slotOk": ok, "kind": "slot"}


def word(text):
    return {"text": text, "atom": None, "slotOk": False, "kind": "word"}


def gen_line(rng, keys):
    """returns (tokens, kind)"""
    k = rng.random()
    key = lambda: rng.choice(keys)
    if k < 0.38:
        return [word("move"), atom_tok(key(), "plain"), atom_tok(key(), "plain")], "move"
    if k < 0.42:
        return [word("move"), atom_tok(key(), rng.choice(["plain", "slot"])), atom_tok(key(), rng.choice(["plain", "slot"]))], "move_slotted_atoms"
    if k < 0.62:
        return [word("slotmove"), atom_tok(key(), "plain"), slot_tok(rng.choice(VALID_SLOTS), True), slot_tok(rng.choice(VALID_SLOTS), True)], "slotmove"
    if k < 0.68:
        return [word("slotmove"), atom_tok(key(), rng.choice(["eq", "ge", "tilde"])), slot_tok(rng.choice(VALID_SLOTS), True),
                slot_tok(rng.choice(VALID_SLOTS), True)], "slotmove_versioned_src"
    if k < 0.72:
        a, b = atom_tok(key(), rng.choice(["eq", "ge", "tilde", "eqslot"])), atom_tok(key(), "plain")
        return [word("move")] + ([a, b] if rng.random() < 0.5 else [b, a]), "bad_move_versioned"
    if k < 0.76:
        return [word("slotmove"), atom_tok(key(), rng.choice(["slot", "eqslot"])), slot_tok("0", True), slot_tok("1", True)], "bad_slotmove_slotted"
    if k < 0.80:
        n = rng.choice([0, 1, 3, 4])
        return [word("move")] + [atom_tok(key(), "plain") for _ in range(n)], "bad_move_form"
    if k < 0.84:
        n = rng.choice([0, 1, 2, 4])
        toks = [word("slotmove")] + ([atom_tok(key(), "plain")] if n else []) + [slot_tok(rng.choice(VALID_SLOTS), True) for _ in range(max(0, n - 1))]
        return toks, "bad_slotmove_form"
    if k < 0.88:
        bad = bad_atom_tok(key(), rng.choice(BAD_ATOMS))
        good = atom_tok(key(), "plain")
        return [word("move")] + ([bad, good] if rng.random() < 0.5 else [good, bad]), "bad_move_atom"
    if k < 0.91:
        if rng.random() < 0.4:
            return [word("slotmove"), bad_atom_tok(key(), rng.choice(BAD_ATOMS)), slot_tok("0", True), slot_tok("1", True)], "bad_slotmove_atom"
        s2 = slot_tok(rng.choice(BAD_SLOTS), False)
        s3 = slot_tok(rng.choice(VALID_SLOTS), True)
        if rng.random() < 0.5:
            s2, s3 = s3, s2
        return [word("slotmove"), atom_tok(key(), "plain"), s2, s3], "bad_slotmove_slot"
    if k < 0.95:
        w = rng.choice(["MOVE", "remove", "slotmov", "#", "moved"])
        return [word(w), atom_tok(key(), "plain"), atom_tok(key(), "plain")], "unknown_command"
    return [], "blank"


def render_line(rng, toks):
    if not toks:
        return rng.choice(["", " ", "\t", "   "])
    seps = [rng.choice([" ", " ", " ", "  ", "\t"]) for _ in toks[1:]]
    s = toks[0]["text"] + "".join(sep + t["text"] for sep, t in zip(seps, toks[1:]))
    r = rng.random()
    if r < 0.08:
        s = " " + s
    elif r < 0.16:
        s = s + " \t"
    return s


def gen_case(rng):
    nkeys = rng.choice([2, 3, 3, 4, 6])
    keys = [f"{rng.choice(CATS)}/p{i}" for i in range(nkeys)]
    eapi = "8" if rng.random() < 0.15 else rng.choice(["7", "7", "6", "5"])
    nfiles = rng.choice([1, 1, 2, 2, 3, 4, 6])
    names = set()
    while len(names) < nfiles:
        r = rng.random()
        if r < 0.8:
            names.add(f"{rng.randint(1, 4)}Q-{rng.choice(QUARTER_YEARS)}")
        elif r < 0.93:
            names.add(rng.choice(BAD_NAMES))
        else:
            names.add(rng.choice(DOT_NAMES))
    names = list(names)
    rng.shuffle(names)
    files = []
    for n in names:
        lines = []
        for _ in range(rng.choice([0, 1, 2, 3, 3, 4, 5, 7, 9])):
            toks, kind = gen_line(rng, keys)
            lines.append({"toks": toks, "kind": kind, "text": render_line(rng, toks)})
        files.append({"name": n, "lines": lines})
    return {"eapi": eapi, "files": files, "keys": keys}


def mk(eapi, files, keys):
    """hand written case: files = [(name, [line text ...])] with simple token syntax"""
    out = []
    for name, lines in files:
        ls = []
        for text in lines:
            ws = text.split()
            toks = []
            for i, w in enumerate(ws):
                if i == 0:
                    toks.append(word(w))
                elif ws[0] == "slotmove" and i >= 2:
                    toks.append(slot_tok(w, w not in BAD_SLOTS))
                elif "/" in w and not w.startswith(("=", ">", "~")) and ":" not in w and "-1.0" not in w:
                    toks.append(atom_tok(w, "plain"))
                elif w.startswith("=") and w.endswith("-1.0"):
                    toks.append(atom_tok(w[1:-4], "eq"))
                elif w.endswith(":1") and "/" in w:
                    toks.append(atom_tok(w[:-2], "slot"))
                else:
                    toks.append({"text": w, "atom": None, "slotOk": False, "kind": "badatom"})
            ls.append({"toks": toks, "kind": "corpus", "text": text})
        out.append({"name": name, "lines": ls})
    return {"eapi": eapi, "files": out, "keys": keys}


CORPUS = [
    # the defect fixed in /repo: 1Q-2021 sorted before 4Q-2020 cut the chain a/a -> a/b -> a/c
    mk("7", [("1Q-2021", ["move a/b a/c", "slotmove a/c 0 1"]), ("4Q-2020", ["move a/a a/b"])], ["a/a", "a/b", "a/c"]),
    mk("7", [("4Q-2019", ["move a/a a/b"]), ("2Q-2020", ["move a/b a/c"]), ("1Q-2020", ["slotmove a/b 0 1"])], ["a/a", "a/b", "a/c"]),
    # second defect fixed: an unparsable atom aborted read_updates with MalformedAtom
    mk("7", [("1Q-2021", ["move a/a a/b", "move foo a/b", "slotmove a/b -0 1", "slotmove a/b 0 0/", "move a/b =a/c", "slotmove a/b 0 1"])], ["a/a", "a/b", "a/c"]),
    # cycle, self move, moves into an already moved name, redundant commands afterwards
    mk("7", [("1Q-2021", ["move a/a a/b", "move a/b a/a", "move a/c a/a", "slotmove a/a 0 1", "move a/a a/a", "slotmove a/b 1 2"])], ["a/a", "a/b", "a/c"]),
    mk("7", [("1Q-2021", ["move a/a a/a", "slotmove a/a 0 1", "move a/b a/a"])], ["a/a", "a/b"]),
    # two moves into the same target, target's own history before and after
    mk("7", [("2Q-2020", ["slotmove a/c 5 6", "move a/a a/c", "slotmove a/c 0 1", "move a/b a/c", "slotmove a/c 1 2", "move a/c a/d", "slotmove a/d 2 3"])],
       ["a/a", "a/b", "a/c", "a/d"]),
    # malformed lines of every class, whitespace
    mk("7", [("3Q-2020", ["", "   ", "move a/a", "move a/a a/b a/c", "slotmove a/a 0", "slotmove a/a 0 1 2", "remove a/a a/b", "move =a/a-1.0 a/b",
                          "move a/a =a/b-1.0", "slotmove a/a:1 0 1", "  move a/a a/b  ", "slotmove =a/b-1.0 0 1"])], ["a/a", "a/b", "a/c"]),
    # wrongly named files are ignored, EAPI 8 takes every non-dot name in name order
    mk("7", [("frobnicate", ["move a/a a/b"]), ("5Q-2020", ["move a/b a/c"]), ("1Q-2020", ["move a/c a/d"])], ["a/a", "a/b", "a/c", "a/d"]),
    mk("8", [("zz", ["move a/b a/c"]), ("2021.1", ["move a/a a/b"]), (".hidden", ["move a/c a/d"])], ["a/a", "a/b", "a/c", "a/d"]),
    mk("7", [], ["a/a"]),
]


def name_key(name, eapi):
    """what update_regex makes of a file name, by construction of the generator's name templates"""
    import re
    if name.startswith("."):
        return None
    if eapi == "8":
        return [0, 0]
    m = re.fullmatch(r"([1-4])Q-([0-9]{4})", name)
    return [int(m.group(2)), int(m.group(1))] if m else None


def strip_tok(t):
    return {"text": t["text"], "atom": t["atom"], "slotOk": t["slotOk"]}


def run(ctx):
    from pkgcore.ebuild import pkg_updates, repo_objs
    from pkgcore.ebuild.atom import atom
    from pkgcore.ebuild.eapi import get_eapi
    from pkgcore.ebuild.errors import MalformedAtom

    rng = ctx.rng
    cases = []
    if ctx.replay_cases:
        cases += [c for c in ctx.replay_cases if "files" in c]
    cases += CORPUS
    for _ in range(ctx.n(1500, 30000)):
        cases.append(gen_case(rng))
    if not ctx.quick():
        # bounded exhaustive: every sequence of <= 4 commands over {a,b,c} (9 moves incl. self moves + 3 slotmoves),
        # split over two files whose names sort the wrong way round as strings
        ks = ["a/a", "a/b", "a/c"]
        cmds = [f"move {x} {y}" for x in ks for y in ks] + [f"slotmove {x} 0 1" for x in ks]
        n = 0
        for ln in range(1, 5):
            for seq in itertools.product(cmds, repeat=ln):
                cut = (n % ln)
                cases.append(mk("7", [("1Q-2021", list(seq[cut:])), ("4Q-2020", list(seq[:cut]))], ks))
                n += 1
        ctx.extra["exhaustive_command_sequences"] = n

    # ---- calibration of the token and file-name tables against the real parsers
    bad_cal = set()
    seen = {}
    for c in cases:
        for f in c["files"]:
            for l in f["lines"]:
                for t in l["toks"]:
                    key = (t["text"], t["kind"])
                    if key in seen:
                        continue
                    seen[key] = True
                    if t["kind"] in ("atom", "badatom"):
                        try:
                            a = atom(t["text"])
                            got = {"text": str(a), "key": a.key, "versioned": a.fullver is not None, "slotted": a.slot is not None}
                        except MalformedAtom:
                            got = None
                        if got != t["atom"]:
                            bad_cal.add(key)
                            ctx.mismatch({"token": t}, f"token table disagrees with the real atom(): {got}")
                    elif t["kind"] == "slot":
                        oks = []
                        for src in ("a/x", "=a/x-1"):
                            try:
                                atom(f"{src}:{t['text']}")
                                oks.append(True)
                            except MalformedAtom:
                                oks.append(False)
                        if oks != [t["slotOk"]] * 2:
                            bad_cal.add(key)
                            ctx.mismatch({"token": t}, f"slot token table disagrees with the real atom(): {oks}")
    for eapi in ("5", "6", "7", "8"):
        rx = get_eapi(eapi).options.update_regex
        for nm in BAD_NAMES + DOT_NAMES + [f"{q}Q-{y}" for q in range(1, 5) for y in QUARTER_YEARS] + ["zz", "2021.1"]:
            m = rx.match(nm)
            want = name_key(nm, eapi)
            got = None if m is None else ([int(g) for g in m.groups()[::-1]] or [0, 0])
            if got != want:
                ctx.mismatch({"name": nm, "eapi": eapi}, f"file-name table disagrees with update_regex: {got} vs {want}")
                return

    # ---- model + spec
    reqs = []
    for c in cases:
        eapi = c["eapi"]
        mfiles = [{"name": f["name"], "key": name_key(f["name"], eapi), "lines": [[strip_tok(t) for t in l["toks"]] for l in f["lines"]]}
                  for f in c["files"]]
        reqs.append({"cmd": "c42.read", "files": mfiles})
        valid = [f for f in mfiles if f["key"] is not None]
        valid.sort(key=lambda f: (f["key"][0], f["key"][1], f["name"]))
        c["_order"] = [f["name"] for f in valid]
        lines = [l for f in valid for l in f["lines"]]
        reqs.append({"cmd": "c42.spec", "lines": lines, "keys": c["keys"] + ["zz/absent"]})
    replies = ctx.model(reqs)

    scratch = tempfile.mkdtemp(prefix="verif-c42-")
    try:
        for idx, c in enumerate(cases):
            mrep, srep = replies[2 * idx], replies[2 * idx + 1]
            pub = {"eapi": c["eapi"], "keys": c["keys"],
                   "files": [{"name": f["name"], "lines": [{"toks": l["toks"], "kind": l["kind"], "text": l["text"]} for l in f["lines"]]} for f in c["files"]]}
            if mrep == "bad-op" or srep == "bad-op":
                ctx.mismatch(pub, "driver rejected the request")
                continue
            d = os.path.join(scratch, "c%d" % idx)
            via_repo = idx % 9 == 4
            if via_repo:
                updates_dir = os.path.join(d, "profiles", "updates")
                os.makedirs(updates_dir)
                with open(os.path.join(d, "profiles", "eapi"), "w") as f:
                    f.write(c["eapi"] + "\n")
            else:
                updates_dir = d
                os.makedirs(d)
            for f in c["files"]:
                with open(os.path.join(updates_dir, f["name"]), "w") as fh:
                    fh.write("".join(l["text"] + "\n" for l in f["lines"]))
            if rng.random() < 0.1:
                os.mkdir(os.path.join(updates_dir, "2Q-2018"))   # directories are not update files
            try:
                if via_repo:
                    real = dict(repo_objs.RepoConfig(d).updates)
                    ctx.count("via_RepoConfig.updates")
                else:
                    real = pkg_updates.read_updates(updates_dir, get_eapi(c["eapi"]))
                order = pkg_updates._scan_directory(updates_dir, get_eapi(c["eapi"]))
            except Exception as e:
                ctx.violation(pub, f"read_updates raised {type(e).__name__}: {e}")
                continue
            finally:
                shutil.rmtree(d, ignore_errors=True)
            real = {k: [[x[0], str(x[1]), str(x[2]), x[1].key] for x in v] for k, v in real.items()}
            spec = {k: v for k, v in srep if v is not None}
            model = {k: v for k, v in mrep["map"]}
            followed = any(any(cmd[3] != k for cmd in v) for k, v in spec.items())
            ctx.case(pub, followed, key=c["eapi"] + "|" + "|".join(f["name"] + ":" + ";".join(l["text"] for l in f["lines"]) for f in c["files"]))
            ctx.count("files_%d" % len(c["files"]))
            ctx.count("eapi_" + c["eapi"])
            for f in c["files"]:
                for l in f["lines"]:
                    ctx.count("line_" + l["kind"])
            ctx.count("maxchain_%d" % max([len(v) for v in spec.values()] + [0]))
            if len({f["key"][0] for f in (dict(key=name_key(g["name"], c["eapi"])) for g in c["files"]) if f["key"]}) > 1:
                ctx.count("spans_several_years")
            if order != c["_order"]:
                ctx.violation(pub, f"_scan_directory processes {order}, chronological order is {c['_order']}")
            elif order != mrep["order"]:
                ctx.mismatch(pub, f"_scan_directory gives {order}, model scan gives {mrep['order']}")
            if set(real) - set(c["keys"]):
                ctx.violation(pub, f"read_updates reports names never mentioned: {sorted(set(real) - set(c['keys']))}")
            elif real != spec:
                bad = sorted(k for k in set(real) | set(spec) if real.get(k) != spec.get(k))
                ctx.violation(pub, f"read_updates differs from the sequential reference for {bad}: real={ {k: real.get(k) for k in bad} } "
                                   f"reference={ {k: spec.get(k) for k in bad} }")
            elif real != model:
                ctx.mismatch(pub, f"read_updates gives {real}, the Lean model gives {model}")
            elif list(real) != [k for k, _ in mrep["map"]]:
                ctx.mismatch(pub, f"mapping insertion order differs: {list(real)} vs {[k for k, _ in mrep['map']]}")
        # nonexistent directory -> {}
        try:
            if pkg_updates.read_updates(os.path.join(scratch, "nonexistent"), get_eapi("7")) != {}:
                ctx.violation({"dir": "nonexistent"}, "read_updates of a missing directory is not empty")
        except Exception as e:
            ctx.violation({"dir": "nonexistent"}, f"read_updates of a missing directory raised {type(e).__name__}")
    finally:
        shutil.rmtree(scratch, ignore_errors=True)


LEVEL_TEXT = ("Kernel-checked Lean 4 theorems about a model of _scan_directory/_process_updates/read_updates in which the aliased deque graph is a heap "
              "of nodes: for every list of update files and every package name the flattened chain equals the sequential per-name reference "
              "(updates_eq_reference, by an invariant over all reachable heaps), files are processed chronologically (scan_chronological), redundant "
              "and malformed lines leave the state untouched, and the deque graph is acyclic (so the flatten terminates). The model is tied to the code "
              "by running the real read_updates() (and RepoConfig.updates) on rendered scratch directories; the reference is also compared directly "
              "with the real output.")
LEVEL_NOTE = ("Trusted: Lean kernel; standard axioms only; tokenisation and the atom parser are represented by structured tokens (calibrated against the real "
              "parser each run); object identity of deques = node ids.")
