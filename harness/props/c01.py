"""C01 — version comparison follows the PMS algorithm and is a total preorder."""
import itertools

PID = "C01"
LEAN_MODULES = ["Pkgcore.Props.C01"]
OBLIGATIONS = [
    "Pkgcore.C01.verCmp_eq_pms",
    "Pkgcore.C01.pms_is_key_order",
    "Pkgcore.C01.pmsCmp_refl",
    "Pkgcore.C01.pmsCmp_antisymm",
    "Pkgcore.C01.pmsCmp_trans",
    "Pkgcore.C01.pmsCmp_eq_trans",
    "Pkgcore.C01.verCmp_total_preorder",
    "Pkgcore.C01.suffix_order",
    "Pkgcore.C01.suffix_table_complete",
    "Pkgcore.C01.versionMatch_agrees",
    "Pkgcore.C01.versionMatch_tilde",
    "Pkgcore.C01.lex_render",
    "Pkgcore.C01.verCmpStr_eq_pms",
]
TRUSTED = [
    "lexing of version strings (str.split('_'), str.split('.'), letter extraction, suffix_regexp, isvalid_version_re) is modelled by lexVer and proved "
    "to invert rendering (lex_render); it is ASCII-only: Python's \\d / isalpha also accept non-ASCII digits/letters and `$` accepts a trailing newline, "
    "which the model does not reproduce (the generators stay inside printable ASCII)",
    "tables suffix_value and _VersionMatch._convert_str2op are regenerated from the imported modules on every run",
]
ASSUMPTIONS = ["revisions reach ver_cmp either both None (the ~ operator) or both Revision objects (everything else), as all call sites in pkgcore do"]
RULE = ("pairs (and triples) of grammar-generated versions: 1-4 dotted components with leading/trailing zeros and long digit runs, optional letter, "
        "0-3 stacked suffixes with/without numbers, revisions incl. -r0/-r007; second version usually a small mutation of the first; "
        "non-trivial = the two rendered versions differ as strings and agree on the integer value of the first component")

SUFS = ["alpha", "beta", "pre", "rc", "p"]


def gen_tables(repo):
    from pkgcore.ebuild import cpv, restricts
    sv = ", ".join(f'("{k}", {v})' for k, v in cpv.suffix_value.items())
    ops = ", ".join('("%s", [%s])' % (k, ", ".join(str(i) for i in v)) for k, v in restricts._VersionMatch._convert_str2op.items())
    text = ("-- GENERATED from /repo by harness/props/c01.py (gen_tables); do not edit\n"
            "namespace Pkgcore.Generated.C01\n"
            f"def suffixValue : List (String × Int) := [{sv}]\n"
            f"def str2op : List (String × List Int) := [{ops}]\n"
            "end Pkgcore.Generated.C01\n")
    return {"Pkgcore/Generated/C01Tables.lean": text}


def render(v):
    s = ".".join(v["comps"]) + (v["letter"] or "")
    for n, d in v["sufs"]:
        s += "_" + n + d
    return s


def gen_comp(rng, first=False):
    k = rng.random()
    if k < 0.25:
        return rng.choice(["0", "1", "2", "9", "10"])
    if k < 0.5:
        return "0" * rng.randint(1, 2) + rng.choice(["", "1", "10", "5", "50", "100"])
    if k < 0.7:
        return rng.choice(["1", "2", "12"]) + "0" * rng.randint(0, 3)
    if k < 0.85:
        return str(rng.randint(0, 30))
    return str(rng.randint(10 ** 15, 10 ** 22))


def gen_ver(rng):
    comps = [gen_comp(rng) for _ in range(rng.choice([1, 1, 2, 2, 3, 4]))]
    letter = rng.choice([None, None, "a", "b", "z", "A"])
    sufs = [[rng.choice(SUFS), rng.choice(["", "", "0", "1", "2", "01", "10"])] for _ in range(rng.choice([0, 0, 1, 1, 2, 3]))]
    return {"comps": comps, "letter": letter, "sufs": sufs}


def mutate(rng, v):
    v = {"comps": list(v["comps"]), "letter": v["letter"], "sufs": [list(s) for s in v["sufs"]]}
    k = rng.randrange(9)
    if k == 0:
        i = rng.randrange(len(v["comps"]))
        v["comps"][i] = gen_comp(rng)
    elif k == 1:
        i = rng.randrange(len(v["comps"]))
        v["comps"][i] = v["comps"][i] + "0"
    elif k == 2:
        i = rng.randrange(len(v["comps"]))
        v["comps"][i] = "0" + v["comps"][i]
    elif k == 3:
        v["comps"].append(gen_comp(rng))
    elif k == 4 and len(v["comps"]) > 1:
        v["comps"].pop()
    elif k == 5:
        v["letter"] = rng.choice([None, "a", "b", "z"])
    elif k == 6:
        v["sufs"].append([rng.choice(SUFS), rng.choice(["", "0", "1"])])
    elif k == 7 and v["sufs"]:
        i = rng.randrange(len(v["sufs"]))
        v["sufs"][i] = [rng.choice(SUFS), rng.choice(["", "0", "1", "2"])]
    elif k == 8 and v["sufs"]:
        v["sufs"].pop()
    return v


REVS = ["", "", "0", "00", "1", "01", "2", "007", "10"]
CORPUS = [
    # (ver1, rev1, ver2, rev2) as structures; includes the defect fixed in /repo (first component is an integer)
    ({"comps": ["09"], "letter": None, "sufs": []}, "", {"comps": ["1"], "letter": None, "sufs": []}, ""),
    ({"comps": ["01"], "letter": None, "sufs": []}, "", {"comps": ["1"], "letter": None, "sufs": []}, ""),
    ({"comps": ["1", "0"], "letter": None, "sufs": []}, "", {"comps": ["1", "00"], "letter": None, "sufs": []}, "0"),
    ({"comps": ["1", "02"], "letter": None, "sufs": []}, "", {"comps": ["1", "1"], "letter": None, "sufs": []}, ""),
    ({"comps": ["1", "10"], "letter": None, "sufs": []}, "", {"comps": ["1", "010"], "letter": None, "sufs": []}, ""),
    ({"comps": ["1"], "letter": None, "sufs": [["alpha", ""]]}, "", {"comps": ["1"], "letter": None, "sufs": [["alpha", "0"]]}, ""),
    ({"comps": ["1"], "letter": None, "sufs": [["p", ""]]}, "", {"comps": ["1"], "letter": None, "sufs": []}, ""),
    ({"comps": ["1"], "letter": None, "sufs": [["rc", "1"]]}, "", {"comps": ["1"], "letter": None, "sufs": [["rc", "1"], ["p", "0"]]}, ""),
    ({"comps": ["1"], "letter": None, "sufs": [["rc", "1"]]}, "", {"comps": ["1"], "letter": None, "sufs": [["rc", "1"], ["alpha", "5"]]}, ""),
    ({"comps": ["1"], "letter": "a", "sufs": []}, "", {"comps": ["1"], "letter": None, "sufs": []}, "007"),
    ({"comps": ["1"], "letter": None, "sufs": []}, "0", {"comps": ["1"], "letter": None, "sufs": []}, ""),
    ({"comps": ["1", "2"], "letter": None, "sufs": []}, "1", {"comps": ["1", "2", "0"], "letter": None, "sufs": []}, ""),
]


def sign(x):
    return (x > 0) - (x < 0)


def run(ctx):
    from pkgcore.ebuild import cpv, restricts
    from pkgcore.ebuild.cpv import Revision, VersionedCPV, ver_cmp

    rng = ctx.rng
    cases = list(CORPUS)
    if ctx.replay_cases:
        cases = [tuple(c["pair"]) for c in ctx.replay_cases if "pair" in c] + cases
    n = ctx.n(4000, 120000)
    for _ in range(n):
        a = gen_ver(rng)
        b = mutate(rng, a) if rng.random() < 0.8 else gen_ver(rng)
        if rng.random() < 0.3:
            b = mutate(rng, b)
        cases.append((a, rng.choice(REVS), b, rng.choice(REVS)))
    if not ctx.quick():
        # bounded-exhaustive small grammar: all ordered pairs
        comps = [["1"], ["01"], ["1", "0"], ["1", "00"], ["1", "01"], ["1", "1"], ["1", "10"], ["1", "02"], ["2"], ["1", "1", "0"]]
        letters = [None, "a"]
        sufsets = [[], [["alpha", ""]], [["alpha", "0"]], [["p", ""]], [["p", "1"]], [["rc", "1"], ["p", ""]], [["pre", "2"]], [["beta", ""]]]
        revs = ["", "0", "1"]
        small = [({"comps": c, "letter": l, "sufs": s}, r) for c in comps for l in letters for s in sufsets for r in revs]
        for (a, ra), (b, rb) in itertools.product(small, small):
            cases.append((a, ra, b, rb))
        ctx.extra["exhaustive_small_grammar_pairs"] = len(small) ** 2

    # ---- edge A and C for ver_cmp
    reqs = [{"cmd": "c01.vercmp", "v1": a, "r1": ra, "v2": b, "r2": rb} for a, ra, b, rb in cases]
    replies = ctx.model(reqs)
    for (a, ra, b, rb), rep in zip(cases, replies):
        s1, s2 = render(a), render(b)
        case = {"pair": [a, ra, b, rb], "ver1": s1, "rev1": ra, "ver2": s2, "rev2": rb}
        if rep == "bad-op":
            ctx.mismatch(case, "driver rejected the request")
            continue
        model, spec = rep
        if not (cpv.isvalid_version_re.match(s1) and cpv.isvalid_version_re.match(s2)):
            ctx.mismatch(case, "generated version rejected by isvalid_version_re (lexing glue changed)")
            continue
        try:
            impl = sign(ver_cmp(s1, Revision(ra), s2, Revision(rb)))
        except Exception as e:
            ctx.violation(case, f"ver_cmp raised {type(e).__name__}: {e}")
            continue
        nontriv = s1 != s2 and int(a["comps"][0]) == int(b["comps"][0])
        ctx.case(case, nontriv, key=f"{s1}|{ra}|{s2}|{rb}")
        ctx.count("sign_%d" % impl)
        ctx.count("ncomps_%d" % len(a["comps"]))
        ctx.count("nsufs_%d" % len(a["sufs"]))
        if any(c[0] == "0" for c in a["comps"] + b["comps"]):
            ctx.count("has_leading_zero_component")
        if impl != spec:
            ctx.violation(case, f"ver_cmp gives {impl}, the PMS algorithm gives {spec}")
        elif impl != model:
            ctx.mismatch(case, f"ver_cmp gives {impl}, Lean model of ver_cmp gives {model}")
        # through the public CPV API (parsing glue): <, ==, > must agree with ver_cmp
        if ctx.evaluations % 7 == 0:
            try:
                c1 = VersionedCPV("cat/pkg-" + s1 + ("-r" + ra if ra else ""))
                c2 = VersionedCPV("cat/pkg-" + s2 + ("-r" + rb if rb else ""))
                got = (c1 < c2, c1 == c2, c1 > c2, c1 <= c2, c1 >= c2, c1 != c2)
                want = (spec < 0, spec == 0, spec > 0, spec <= 0, spec >= 0, spec != 0)
                if got != want:
                    ctx.violation(case, f"CPV rich comparisons {got} disagree with PMS order {spec}")
            except Exception as e:
                ctx.violation(case, f"CPV construction/comparison raised {type(e).__name__}: {e}")

    # ---- string level: acceptance (isvalid_version_re vs lexVer) and comparison on raw strings
    strs = []
    alphabet = "0123456789._abeprclht-R "
    for (a, ra, b, rb) in cases[: ctx.n(1500, 30000)]:
        for v in (a, b):
            t = render(v)
            k = rng.random()
            if k < 0.5 and t:
                i = rng.randrange(len(t) + 1)
                op = rng.randrange(3)
                if op == 0:
                    t = t[:i] + rng.choice(alphabet) + t[i:]
                elif op == 1 and i < len(t):
                    t = t[:i] + t[i + 1:]
                elif i < len(t):
                    t = t[:i] + rng.choice(alphabet) + t[i + 1:]
            strs.append(t)
    strs += ["", "1", "a", "1a", "1.a", "1..2", ".1", "1.", "1_", "1_p", "1_pre", "1_prex", "1_p1_", "1a_alpha_beta2", "1_rc_1", "1__p", "1_P", "1A", "1ab", "01"]
    lexed = ctx.model([{"cmd": "c01.lex", "s": t} for t in strs])
    acc = 0
    for t, lx in zip(strs, lexed):
        want = bool(cpv.isvalid_version_re.match(t))
        ctx.case({"string": t}, lx is not None, key="lex|" + t)
        ctx.count("lex_accept" if want else "lex_reject")
        if want != (lx is not None):
            ctx.mismatch({"string": t}, f"isvalid_version_re accepts={want}, Lean lexVer accepts={lx is not None}")
        acc += want
    good = [t for t, lx in zip(strs, lexed) if lx is not None and cpv.isvalid_version_re.match(t)]
    pairs = [(rng.choice(good), rng.choice(REVS), rng.choice(good), rng.choice(REVS)) for _ in range(ctx.n(1500, 30000))]
    for (s1, ra, s2, rb), rep in zip(pairs, ctx.model([{"cmd": "c01.vercmpstr", "s1": s1, "r1": ra, "s2": s2, "r2": rb} for s1, ra, s2, rb in pairs])):
        case = {"ver1": s1, "rev1": ra, "ver2": s2, "rev2": rb, "level": "string"}
        try:
            impl = sign(ver_cmp(s1, Revision(ra), s2, Revision(rb)))
        except Exception as e:
            ctx.violation(case, f"ver_cmp raised {type(e).__name__}: {e}")
            continue
        ctx.case(case, s1 != s2, key=f"str|{s1}|{ra}|{s2}|{rb}")
        if impl != rep:
            ctx.violation(case, f"ver_cmp on the strings gives {impl}; the PMS algorithm on their parts gives {rep}")

    # ---- total preorder on the implementation itself (triples)
    pool = [(render(a), ra) for a, ra, _, _ in cases[: ctx.n(60, 160)]] + [(render(b), rb) for _, _, b, rb in cases[: ctx.n(60, 160)]]
    pool = list(dict.fromkeys(pool))[: ctx.n(70, 200)]
    M = {}
    for x, y in itertools.product(range(len(pool)), repeat=2):
        M[x, y] = sign(ver_cmp(pool[x][0], Revision(pool[x][1]), pool[y][0], Revision(pool[y][1])))
    for x in range(len(pool)):
        if M[x, x] != 0:
            ctx.violation({"version": pool[x]}, "ver_cmp(v, v) != 0 (reflexivity)")
        for y in range(len(pool)):
            if M[x, y] != -M[y, x]:
                ctx.violation({"a": pool[x], "b": pool[y]}, f"antisymmetry: cmp(a,b)={M[x, y]} cmp(b,a)={M[y, x]}")
    ntr = 0
    for x, y, z in itertools.product(range(len(pool)), repeat=3):
        if M[x, y] <= 0 and M[y, z] <= 0:
            ntr += 1
            if M[x, z] > 0:
                ctx.violation({"a": pool[x], "b": pool[y], "c": pool[z]}, "transitivity: a<=b, b<=c but a>c")
    ctx.evaluations += ntr
    ctx.extra["triples_checked_on_impl"] = ntr

    # ---- operator restrictions
    ops = ["<", "<=", "=", ">=", ">", "~"]
    mcases = []
    for (a, ra, b, rb) in cases[: ctx.n(1500, 20000)]:
        mcases.append((rng.choice(ops), rng.random() < 0.3, a, ra, b, rb))
    reqs = [{"cmd": "c01.match", "op": op, "negate": neg, "ver": a, "rev": ra, "pv": b, "prev": rb} for op, neg, a, ra, b, rb in mcases]
    for (op, neg, a, ra, b, rb), rep in zip(mcases, ctx.model(reqs)):
        case = {"op": op, "negate": neg, "ver": render(a), "rev": ra, "pkgver": render(b), "pkgrev": rb}
        pkg = VersionedCPV("cat/pkg-" + render(b) + ("-r" + rb if rb else ""))
        try:
            impl = restricts._VersionMatch(op, render(a), Revision(ra), negate=neg).match(pkg)
        except Exception as e:
            ctx.violation(case, f"_VersionMatch.match raised {type(e).__name__}: {e}")
            continue
        ctx.case(case, True)
        ctx.count("op_" + op)
        if impl != rep:
            ctx.violation(case, f"_VersionMatch.match gives {impl}; operator semantics on the PMS order give {rep}")

LEVEL_TEXT = ("Kernel-checked Lean 4 theorems: the model of ver_cmp equals the PMS algorithm for all lexed versions of any length and all revisions "
              "(verCmp_eq_pms); the PMS order is the pull-back of a lexicographic order along an explicit key, hence reflexive, antisymmetric and "
              "transitive (no size bound); every operator of _VersionMatch agrees with it (tables regenerated from /repo). The model is tied to the "
              "code by a differential run on grammar-generated version strings, which also evaluates the PMS spec and the preorder laws directly on "
              "the real ver_cmp / CPV comparisons / _VersionMatch.match.")
LEVEL_NOTE = ("Trusted: Lean kernel; standard axioms only; the lexing of version strings is proved to invert rendering (lex_render, verCmpStr_eq_pms) "
              "for well-formed versions; that pkgcore's regexp-based splitting is that lexer is validated by the sampled correspondence, not proved; "
              "Python's int/str comparison primitives.")
