"""C23 — merge-time permission hardening never lets unsafe modes through."""
import os
import shutil
import stat
import tempfile

PID = "C23"
LEAN_MODULES = ["Pkgcore.Props.C23"]
OBLIGATIONS = [
    "Pkgcore.C23.premerge_pointwise",
    "Pkgcore.C23.mask_arithmetic",
    "Pkgcore.C23.harden_spec",
    "Pkgcore.C23.engine_order_standard",
    "Pkgcore.C23.no_suid_world_writable_partial",
    "Pkgcore.C23.no_suid_world_writable_counterexample",
    "Pkgcore.C23.reowned",
    "Pkgcore.C23.fixes_preserve_identity",
    "Pkgcore.C23.engine_premerge_hardens",
    "Pkgcore.C23.reset_then_harden",
    "Pkgcore.C23.reset_after_fixers_counterexample",
    "Pkgcore.C23.ebuild_engine_premerge_hardens",
    "Pkgcore.C23.outcome_independent_of_other_entries",
    "Pkgcore.C23.outcome_independent_of_names",
    "Pkgcore.C23.spec_checker_sound",
]
TRUSTED = [
    "an entry is modelled as (kind, location, mode, uid, gid, payload); the harness checks on the real objects that class, location, symlink target, "
    "data/chksums objects (identity), device numbers, mtime, dev/inode survive the stage",
    "the masks 0o6000 / 0o002 / 0o6002 are literals of triggers.py mirrored in the model (tied by the differential run over every 12-bit mode and by the "
    "exhaustive mode sweep in the thorough tier); hook order, hook names, required csets and engine modes are regenerated from the real engines",
    "Python int & / ~ on non-negative ints = bit clearing on Nat",
]
ASSUMPTIONS = [
    "symbolic links are exempt from the set-id/world-writable clause by design: fix_set_bits and detect_world_writable iterate cset.iterlinks(True); a link's mode "
    "bits are never applied by the merger (ensure_perms skips chmod for links) and are not permissions. The theorem carries this guard explicitly "
    "(no_suid_world_writable_partial + _counterexample); the check does not flag link entries",
    "every entry has integer mode, uid and gid (what livefs scans, binpkgs and the vdb produce); an entry with mode=None would make fix_set_bits raise, and the "
    "engine suppresses trigger exceptions",
    "the build user/group are the trigger arguments (defaults os_data.portage_uid/gid; in this sandbox there is no portage user, both default to 0, so the check "
    "also registers instances with a distinct build uid/gid through the public register() API)",
]
RULE = ("[also: engines assembled the way the ebuild format does it — default plugins with real build ids, format triggers incl. preinst_contents_reset, domain triggers — and "
        "entry names with %-format / str.format / shell metacharacters, reported through the real interpolating observer outputs (file_handle_output, formatter_output) as "
        "well as a recording stub, offsets with such characters; "
        "runs in which an unrelated pre_merge trigger of priority 5/20/49/60 raises a suppressed exception; file entries that are further names of one inode "
        "(hardlinks: shared st_dev/st_ino, data, mtime; mostly shared, sometimes differing mode/owner) and file entries without st_dev/st_ino] contents sets of 0-9 entries of the five fs classes with distinct locations; modes drawn from all 4096 permission-bit combinations (biased towards set-id and "
        "world-writable ones) optionally with the S_IF* type bits a livefs scan records; uid/gid from {0, build, other}; run through the pre_merge hook of a real "
        "MergeEngine.install / MergeEngine.replace (default plugins + explicitly registered instances, with and without an observer, with and without an offset) or, "
        "for a quarter of the cases, through the trigger objects directly; non-trivial = at least one entry is changed by the stage and at least one is not")

BUILD_UID, BUILD_GID = 250, 251
KIND_CLASSES = ["fsFile", "fsDir", "fsSymlink", "fsDev", "fsFifo"]
TYPE_BITS = [stat.S_IFREG, stat.S_IFDIR, stat.S_IFLNK, stat.S_IFCHR, stat.S_IFIFO]


def _engines(repo_unused=None):
    from pkgcore.fs import contents
    from pkgcore.merge import engine

    class Pkg:
        def __init__(self, c):
            self.contents = c

        def __str__(self):
            return "verif/c23-1"

    return engine, contents, Pkg


class FakeDomain:
    """what GenerateTriggers reads from a domain (no binpkg repos, stripping and .la fixing off: they need real ELF/.la files)"""
    features = frozenset(["nostrip", "-fixlafiles"])
    installed_repos = ()
    binary_repos_raw = ()


class FakeFormatOp:
    def __init__(self, d):
        self.env = {"D": d}


def make_ebuild_pkg(cset, preinst):
    """a package as the ebuild format's trigger registration looks at it"""
    class Opts:
        rewrite_image_symlinks = True

    class Eapi:
        options = Opts()

    class Parent:
        def scan_contents(self, location):
            return cset.clone()

    class Pkg:
        contents = cset
        repo = object()
        eapi = Eapi()
        mandatory_phases = frozenset(["preinst", "postinst"] if preinst else ["postinst"])
        _parent = Parent()

        def __str__(self):
            return "verif/c23-ebuild-1"

    return Pkg()


def assemble_ebuild_engine(engine, mtriggers, tmp, pkg, offset, obs, ids, image_dir, old_pkg=None):
    """an install/replace engine with the trigger set the ebuild machinery gives it (operations.domain.base.start):
    the engine's default plugins, then the format's triggers, then the domain's triggers.  The default-plugin loop of
    MergeEngine.__init__ is replayed with the build ids of a host that has a portage user (the sandbox has none: the
    class defaults are 0 -> 0); when `ids` is None the engine runs its own loop."""
    from pkgcore.ebuild import ebuild_built
    from pkgcore.ebuild import triggers as etriggers
    kw = dict(offset=offset, observer=obs, disable_plugins=ids is not None)
    eng = engine.MergeEngine.install(tmp, pkg, **kw) if old_pkg is None else engine.MergeEngine.replace(tmp, old_pkg, pkg, **kw)
    if ids is not None:
        bu, ru, bg, rg = ids
        for kls in mtriggers.default_plugins_triggers():
            if kls is mtriggers.fix_uid_perms:
                t = kls(uid=bu, replacement=ru)
            elif kls is mtriggers.fix_gid_perms:
                t = kls(gid=bg, replacement=rg)
            else:
                t = kls()
            t.register(eng)
    ebuild_built.generic_format_triggers(None, pkg, None, FakeFormatOp(image_dir), eng)
    for t in etriggers.GenerateTriggers(FakeDomain(), {}):
        t.register(eng)
    return eng


def hook_order(eng):
    return [t for t in sorted(eng.hooks["pre_merge"], key=lambda t: t.priority)]


def gen_tables(repo):
    from pkgcore.merge import triggers
    engine, contents, Pkg = _engines()
    d = tempfile.mkdtemp(prefix="verif-c23-")
    try:
        e1 = engine.MergeEngine.install(os.path.join(d, "t1"), Pkg(contents.contentsSet()), offset=os.path.join(d, "r1"))
        e2 = engine.MergeEngine.replace(os.path.join(d, "t2"), Pkg(contents.contentsSet()), Pkg(contents.contentsSet()), offset=os.path.join(d, "r2"))
        o1 = [type(t).__name__ for t in hook_order(e1)]
        o2 = [type(t).__name__ for t in hook_order(e2)]
        from pkgcore.merge import triggers as mtriggers
        e3 = assemble_ebuild_engine(engine, mtriggers, os.path.join(d, "t3"), make_ebuild_pkg(contents.contentsSet(), True), os.path.join(d, "r3"), None, None,
                                    os.path.join(d, "image"))
        o3 = [type(t).__name__ for t in hook_order(e3)]
    finally:
        shutil.rmtree(d, ignore_errors=True)
    lst = lambda xs: "[" + ", ".join('"%s"' % x for x in xs) + "]"
    nat = lambda xs: "[" + ", ".join(str(int(x)) for x in xs) + "]"
    meta = []
    for name in ("fix_uid_perms", "fix_gid_perms", "fix_set_bits", "detect_world_writable"):
        k = getattr(triggers, name)
        meta.append('("%s", %s, %s, %s)' % (name, lst(k._hooks), lst(k.required_csets), nat(sorted(k._engine_types))))
    text = ("-- GENERATED from /repo by harness/props/c23.py (gen_tables); do not edit\n"
            "namespace Pkgcore.Generated.C23\n"
            f"def preMergeOrder : List String := {lst(o1)}\n"
            f"def replacePreMergeOrder : List String := {lst(o2)}\n"
            f"def ebuildPreMergeOrder : List String := {lst(o3)}\n"
            f"def triggerMeta : List (String × List String × List String × List Nat) := [{', '.join(meta)}]\n"
            f"def installingModes : List Nat := {nat(sorted(triggers.INSTALLING_MODES))}\n"
            "end Pkgcore.Generated.C23\n")
    return {"Pkgcore/Generated/C23Tables.lean": text}


# ------------------------------------------------------------------ generation

def gen_mode(rng, kind):
    r = rng.random()
    if r < 0.30:
        perm = rng.randrange(0o10000)
    elif r < 0.55:
        perm = rng.choice([0o4000, 0o2000, 0o6000]) | rng.randrange(0o1000) | (0o002 if rng.random() < 0.7 else 0)
    elif r < 0.75:
        perm = rng.choice([0o644, 0o755, 0o666, 0o777, 0o1777, 0o600, 0o002, 0o4755, 0o2755, 0o4711, 0, 0o6002, 0o7777, 0o6000])
    else:
        perm = rng.randrange(0o1000) | rng.choice([0, 0, 0o1000, 0o2000, 0o4000])
    if kind == 3 or rng.random() < 0.35:
        perm |= TYPE_BITS[kind] if kind != 3 else rng.choice([stat.S_IFCHR, stat.S_IFBLK])
    return perm


def gen_case(rng, idx):
    n = rng.choice([0, 1, 2, 3, 4, 5, 6, 7, 9])
    names = ["/bin/su", "/usr/bin/x", "/etc/conf", "/var/tmp", "/dev/n", "/lib/l.so", "/a b/ç", "/f", "/usr", "/tmp/.x", "/opt/p/q", "/sbin/s"]
    rng.shuffle(names)
    ids = [0, BUILD_UID, BUILD_GID, 1000, 7]
    entries = []
    odd_names = rng.random() < 0.4
    for i in range(n):
        kind = rng.choice([0, 0, 0, 1, 1, 2, 3, 4])
        loc = names[i]
        if odd_names and rng.random() < 0.6:
            # any byte but NUL and '/' may occur in a file name: names with printf / str.format / shell metacharacters (score files, doc files, templates)
            loc = loc + "/" + rng.choice(META_NAMES)
        e = {"kind": kind, "loc": loc, "mode": gen_mode(rng, kind), "uid": rng.choice(ids), "gid": rng.choice(ids), "payload": i + 1}
        files = [x for x in entries if x["kind"] == 0]
        if kind == 0 and files and rng.random() < 0.45:
            # a further name of an earlier file (hardlink: same data, st_dev/st_ino, mtime -> same payload).  On disk the names of one inode share
            # mode and owner; a contents set (binpkg, vdb, edited by an earlier trigger) need not, so now and then they differ
            first = rng.choice(files)
            e["payload"] = first["payload"]
            if rng.random() < 0.8:
                e["mode"], e["uid"], e["gid"] = first["mode"], first["uid"], first["gid"]
        entries.append(e)
    how = rng.choice(["install", "install_noplug", "replace", "direct", "ebuild", "ebuild", "ebuild_replace"])
    good_uid = rng.choice([0, 0, 0, 7])
    good_gid = rng.choice([0, 0, 0, 7])
    observer = rng.random() < 0.6
    return {"entries": entries, "how": how, "observer": observer, "offset": rng.random() < 0.7,
            # what the observer writes to: the harness' recording output, or the real outputs of pkgcore.operations.observer a front end attaches
            # (file_handle_output on a stream, formatter_output on a snakeoil formatter) -- these interpolate and write every message
            "output": rng.choice(["recorder", "file_handle", "file_handle", "formatter"]) if observer else None,
            "odd_offset": rng.random() < 0.25,
            "fix_perms": rng.random() < 0.3, "bu": BUILD_UID, "ru": good_uid, "bg": BUILD_GID, "rg": good_gid,
            "extra_first": rng.random() < 0.5, "preinst": rng.random() < 0.6,
            "fault": rng.choice([None, None, None, 5, 20, 49, 60]),
            # where the file entries' st_dev/st_ino come from: a livefs scan of the image (numbers), or a source without them (binpkg / tar: None)
            "inodes": rng.choice(["scan", "scan", "scan", "none"])}


# file-name components with characters that mean something to %-interpolation, str.format, the shell or a terminal
META_NAMES = ["100%.sav", "%s", "%d", "%(name)s", "%", "%%", "a%", "50% done", "%04o", "%r.log", "{0}", "{x.location}", "{", "}}", "$HOME", "*", "a\\nb",
              "%(location)s", "%c", "%-", "caf\u00e9 %", "%5", "%.", "% s", "'%s'", "\"q\""]


def E(kind, loc, mode, uid, gid, payload):
    return {"kind": kind, "loc": loc, "mode": mode, "uid": uid, "gid": gid, "payload": payload}


CORPUS = [
    # names with %-format / str.format metacharacters, reported through the real stream outputs of pkgcore.operations.observer (what pmerge attaches)
    {"entries": [E(0, "/usr/bin/helper", 0o104757, BUILD_UID, BUILD_GID, 1), E(1, "/var/games/tool", 0o42777, BUILD_UID, BUILD_GID, 2),
                 E(0, "/var/games/tool/100%.sav", 0o102666, BUILD_UID, BUILD_GID, 3), E(0, "/usr/share/tool/%s.tmpl", 0o100666, 0, 0, 4),
                 E(0, "/usr/share/tool/{0}.tmpl", 0o106777, 0, 0, 5), E(0, "/usr/bin/sane", 0o104755, 0, 0, 6)],
     "how": "install", "observer": True, "output": "file_handle", "offset": True, "fix_perms": False, "bu": BUILD_UID, "ru": 0, "bg": BUILD_GID, "rg": 0,
     "extra_first": False, "preinst": False, "fault": None, "inodes": "scan"},
    {"entries": [E(0, "/opt/%(name)s/bin/x", 0o6777, BUILD_UID, BUILD_GID, 1), E(4, "/run/%d", 0o2773, 0, 0, 2), E(1, "/srv/50% done", 0o1777, 0, BUILD_GID, 3)],
     "how": "ebuild", "observer": True, "output": "formatter", "offset": True, "odd_offset": True, "fix_perms": True, "bu": BUILD_UID, "ru": 0, "bg": BUILD_GID, "rg": 0,
     "extra_first": False, "preinst": True, "fault": None, "inodes": "scan"},
    {"entries": [E(0, "/a/%", 0o4757, 0, 0, 1), E(0, "/a/%%", 0o2757, 0, 0, 2)],
     "how": "direct", "observer": True, "output": "file_handle", "offset": False, "fix_perms": False, "bu": BUILD_UID, "ru": 0, "bg": BUILD_GID, "rg": 0,
     "extra_first": False, "inodes": "none"},
    # one program installed under several hardlinked names (gzip/gunzip/zcat style) by the build user: every name is an entry of its own
    {"entries": [E(0, "/usr/bin/zip-tool", 0o100755, BUILD_UID, BUILD_GID, 1), E(0, "/usr/bin/unzip-tool", 0o100755, BUILD_UID, BUILD_GID, 1),
                 E(0, "/usr/bin/zcat-tool", 0o100755, BUILD_UID, BUILD_GID, 1), E(2, "/usr/bin/zt", 0o120777, BUILD_UID, BUILD_GID, 2),
                 E(0, "/usr/bin/lone", 0o102757, BUILD_UID, BUILD_GID, 3), E(1, "/var/spool/tool", 0o42777, BUILD_UID, BUILD_GID, 4), E(0, "/usr/bin/sane", 0o104755, 0, 0, 5)],
     "how": "install", "observer": True, "offset": True, "fix_perms": False, "bu": BUILD_UID, "ru": 0, "bg": BUILD_GID, "rg": 0, "extra_first": False, "preinst": False, "fault": None,
     "inodes": "scan"},
    {"entries": [E(0, "/bin/a", 0o6777, BUILD_UID, 7, 1), E(0, "/bin/b", 0o6777, 7, BUILD_GID, 1), E(0, "/bin/c", 0o4757, BUILD_UID, BUILD_GID, 1), E(0, "/bin/d", 0o644, BUILD_UID, BUILD_GID, 2)],
     "how": "ebuild", "observer": False, "offset": True, "fix_perms": False, "bu": BUILD_UID, "ru": 0, "bg": BUILD_GID, "rg": 0, "extra_first": False, "preinst": True, "fault": None,
     "inodes": "scan"},
    {"entries": [E(0, "/bin/a", 0o4757, BUILD_UID, BUILD_GID, 1), E(0, "/bin/b", 0o4757, BUILD_UID, BUILD_GID, 1)],
     "how": "direct", "observer": False, "offset": False, "fix_perms": True, "bu": BUILD_UID, "ru": 0, "bg": BUILD_GID, "rg": 0, "extra_first": True, "inodes": "none"},
    # the engine as the ebuild format assembles it, package with pkg_preinst: what is merged is the re-scanned image
    {"entries": [E(0, "/bin/su", 0o4757, BUILD_UID, BUILD_GID, 1), E(1, "/etc", 0o6777, BUILD_UID, 0, 2), E(2, "/l", 0o777, BUILD_UID, BUILD_GID, 3), E(0, "/ok", 0o644, 0, 0, 4)],
     "how": "ebuild", "observer": True, "offset": True, "fix_perms": False, "bu": BUILD_UID, "ru": 0, "bg": BUILD_GID, "rg": 0, "extra_first": False, "preinst": True, "fault": None},
    {"entries": [E(0, "/bin/su", 0o4757, BUILD_UID, BUILD_GID, 1), E(0, "/ok", 0o644, 0, 0, 4)],
     "how": "ebuild_replace", "observer": False, "offset": True, "fix_perms": False, "bu": BUILD_UID, "ru": 0, "bg": BUILD_GID, "rg": 0, "extra_first": False, "preinst": True, "fault": None},
    # an unrelated earlier trigger crashes (suppressed by the engine): the hardening must still happen
    {"entries": [E(0, "/bin/su", 0o4757, BUILD_UID, BUILD_GID, 1), E(1, "/usr/share", 0o6777, BUILD_UID, BUILD_GID, 2), E(0, "/ok", 0o644, 0, 0, 3)],
     "how": "install", "observer": True, "offset": True, "fix_perms": False, "bu": BUILD_UID, "ru": 0, "bg": BUILD_GID, "rg": 0, "extra_first": False, "preinst": False, "fault": 20},
    {"entries": [E(0, "/bin/su", 0o4757, BUILD_UID, BUILD_GID, 1), E(0, "/ok", 0o644, 0, 0, 3)],
     "how": "ebuild", "observer": False, "offset": True, "fix_perms": False, "bu": BUILD_UID, "ru": 0, "bg": BUILD_GID, "rg": 0, "extra_first": False, "preinst": True, "fault": 5},
    # the defect fixed in the engine: default observer (None) + an entry that makes fix_set_bits warn
    {"entries": [E(0, "/bin/su", 0o4757, 0, 0, 1)], "how": "install", "observer": False, "offset": True, "fix_perms": False,
     "bu": BUILD_UID, "ru": 0, "bg": BUILD_GID, "rg": 0, "extra_first": False},
    {"entries": [E(0, "/bin/su", 0o104757, BUILD_UID, BUILD_GID, 1), E(0, "/bin/sg", 0o2772, 5, BUILD_GID, 2), E(1, "/d", 0o6777, BUILD_UID, 7, 3),
                 E(2, "/l", 0o6777, BUILD_UID, BUILD_GID, 4), E(3, "/dev/x", 0o4777 | stat.S_IFCHR, BUILD_UID, BUILD_GID, 5), E(4, "/f", 0o2773, BUILD_UID, BUILD_GID, 6),
                 E(0, "/ok", 0o4755, 0, 0, 7), E(0, "/ww", 0o666, 0, 0, 8)],
     "how": "install", "observer": True, "offset": True, "fix_perms": False, "bu": BUILD_UID, "ru": 0, "bg": BUILD_GID, "rg": 0, "extra_first": True},
    {"entries": [E(0, "/a", 0o6002, BUILD_UID, BUILD_GID, 1), E(1, "/b", 0o7777, 0, BUILD_GID, 2), E(0, "/c", 0o002, BUILD_UID, 0, 3)],
     "how": "replace", "observer": False, "offset": True, "fix_perms": True, "bu": BUILD_UID, "ru": 7, "bg": BUILD_GID, "rg": 7, "extra_first": False},
    {"entries": [E(0, "/a", 0o4001, 0, 0, 1), E(0, "/b", 0o2004, 0, 0, 2), E(0, "/c", 0o1002, 0, 0, 3)],
     "how": "install_noplug", "observer": False, "offset": False, "fix_perms": False, "bu": BUILD_UID, "ru": 0, "bg": BUILD_GID, "rg": 0, "extra_first": False},
    {"entries": [], "how": "install", "observer": False, "offset": True, "fix_perms": False, "bu": BUILD_UID, "ru": 0, "bg": BUILD_GID, "rg": 0, "extra_first": False},
    {"entries": [E(0, "/a", 0o6777, BUILD_UID, BUILD_GID, 1)], "how": "direct", "observer": False, "offset": False, "fix_perms": True,
     "bu": BUILD_UID, "ru": BUILD_UID, "bg": BUILD_GID, "rg": 0, "extra_first": False},
]


class Recorder:
    """an observer output that records"""
    def __init__(self):
        self.lines = []

    def warn(self, msg, *a, **k):
        self.lines.append(("warn", msg))

    def info(self, msg, *a, **k):
        self.lines.append(("info", msg))

    error = debug = write = info

    def flush(self):
        pass


def run_impl(case, scratch, mods):
    """returns dict(before=[...], after=[...] or None, triggers=[...] (model triggers in hook order), exc=str|None, identity_problems=[...])"""
    fs, contents, engine, triggers, observer_mod, Pkg, data_source = mods
    classes = [fs.fsFile, fs.fsDir, fs.fsSymlink, fs.fsDev, fs.fsFifo]
    objs = []
    for e in case["entries"]:
        kw = dict(mode=e["mode"], uid=e["uid"], gid=e["gid"], mtime=1000 + e["payload"], strict=False)
        if e["kind"] == 0:
            # entries with the same payload are names of one inode: same st_dev/st_ino, same mtime, same bytes (each name has its own data object, as a scan gives)
            ino = dict(dev=3, inode=100 + e["payload"]) if case.get("inodes", "scan") == "scan" else dict(dev=None, inode=None)
            o = fs.fsFile(e["loc"], data=data_source("data-%d" % e["payload"]), **ino, **kw)
        elif e["kind"] == 2:
            o = fs.fsSymlink(e["loc"], "target-%d" % e["payload"], **kw)
        elif e["kind"] == 3:
            o = fs.fsDev(e["loc"], major=e["payload"], minor=e["payload"] + 1, **kw)
        else:
            o = classes[e["kind"]](e["loc"], **kw)
        objs.append(o)
    cset = contents.contentsSet(objs)
    extra = [triggers.fix_uid_perms(uid=case["bu"], replacement=case["ru"]), triggers.fix_gid_perms(gid=case["bg"], replacement=case["rg"])]
    if case["fix_perms"]:
        extra.append(triggers.detect_world_writable(fix_perms=True))
    if case["extra_first"]:
        extra.reverse()
    rec = stream = None
    obs = None
    if case["observer"]:
        out = case.get("output") or "recorder"
        if out == "recorder":
            rec = Recorder()
            obs = observer_mod.repo_observer(rec)
        else:
            import io
            if out == "file_handle":
                stream = io.StringIO()
                obs = observer_mod.repo_observer(observer_mod.file_handle_output(stream))
            else:
                from snakeoil.formatters import PlainTextFormatter
                stream = io.BytesIO()   # snakeoil's plain formatter encodes what it writes
                obs = observer_mod.repo_observer(observer_mod.formatter_output(PlainTextFormatter(stream)))
    # the root may itself have an unusual name (a chroot / prefix directory chosen by the admin)
    offset = os.path.join(scratch, "ro%ot {0} %s" if case.get("odd_offset") else "root") if case["offset"] else None
    res = {"exc": None, "identity": [], "warnings": 0}
    how = case["how"]
    fault = case.get("fault")

    class Flaky(triggers.base):
        # an unrelated pre_merge trigger that crashes; the engine logs and suppresses ordinary exceptions of triggers
        required_csets = ("new_cset",)
        _hooks = ("pre_merge",)
        _engine_types = None

        def trigger(self, engine, cset):
            raise LookupError("injected fault (C23 harness)")   # an ordinary exception (RuntimeError is in snakeoil IGNORED_EXCEPTIONS)

    try:
        if how == "direct":
            class FakeEngine:
                mode = 1
                observer = obs
                offset = "/"
            new = cset.clone()
            trig = [triggers.fix_uid_perms(), triggers.fix_set_bits(), triggers.fix_gid_perms(), triggers.detect_world_writable()] + extra
            for t in trig:
                t(FakeEngine, {"new_cset": new})
            order = trig
            off = None
        else:
            tmp = os.path.join(scratch, "tmp")
            old = contents.contentsSet([fs.fsFile("/old/file", mode=0o644, uid=0, gid=0, mtime=1, data=data_source("x"), strict=False)])
            if how in ("ebuild", "ebuild_replace"):
                # the trigger set of a real ebuild-format merge; the fixers get the build ids directly, no extra instances
                extra = [t for t in extra if type(t).__name__ == "detect_world_writable"]
                eng = assemble_ebuild_engine(engine, triggers, tmp, make_ebuild_pkg(cset, case.get("preinst", False)), offset or os.path.join(scratch, "root-e"), obs,
                                             (case["bu"], case["ru"], case["bg"], case["rg"]), os.path.join(scratch, "image"),
                                             old_pkg=Pkg(old) if how == "ebuild_replace" else None)
            elif how == "replace":
                eng = engine.MergeEngine.replace(tmp, Pkg(old), Pkg(cset), offset=offset, observer=obs)
            elif how == "install_noplug":
                eng = engine.MergeEngine.install(tmp, Pkg(cset), offset=offset, observer=obs, disable_plugins=True)
                for t in (triggers.fix_uid_perms(), triggers.fix_gid_perms(), triggers.fix_set_bits(), triggers.detect_world_writable()):
                    t.register(eng)
            else:
                eng = engine.MergeEngine.install(tmp, Pkg(cset), offset=offset, observer=obs)
            for t in extra:
                t.register(eng)
            if fault is not None:
                fl = Flaky()
                fl.priority = fault
                fl.register(eng)
            order = hook_order(eng)
            eng.pre_merge()
            new = eng.csets["new_cset"]
            off = eng.offset if eng.offset != "/" else None
    except Exception as e:  # the stage itself failed
        res["exc"] = "%s: %s" % (type(e).__name__, e)
        res["after"] = None
        res["triggers"] = []
        return res
    if rec is not None:
        res["warnings"] = len(rec.lines)
        for kind_, msg in rec.lines:
            if "unhandled exception" in msg and "injected fault (C23 harness)" not in msg:
                res["exc"] = "trigger exception suppressed by the engine: " + msg.strip().splitlines()[-1]
    if stream is not None:
        text = stream.getvalue()
        if isinstance(text, bytes):
            text = text.decode("utf-8", "replace")
        res["warnings"] = text.count("\n")
        # execute_hook's report of a suppressed trigger crash: "... unhandled exception caught and suppressed:\n<traceback>"
        for chunk in text.split("unhandled exception")[1:]:
            if "injected fault (C23 harness)" not in chunk:
                tb = [ln for ln in chunk.strip().splitlines() if ln.strip()]
                last = next((ln for ln in reversed(tb) if not ln.startswith((" ", "warning:", "info:")) and ":" in ln), tb[-1] if tb else "")
                res["exc"] = "trigger exception suppressed by the engine: " + last.strip()[:300]
    mt = []
    for t in order:
        n = type(t).__name__
        if n == "fix_uid_perms":
            mt.append({"t": n, "bad": t.bad_uid, "good": t.good_uid})
        elif n == "fix_gid_perms":
            mt.append({"t": n, "bad": t.bad_gid, "good": t.good_gid})
        elif n == "fix_set_bits":
            mt.append({"t": n})
        elif n == "detect_world_writable":
            mt.append({"t": n, "fix": bool(t.fix_perms)})
        elif n == "preinst_contents_reset":
            mt.append({"t": n, "image": case["entries"]})
    res["triggers"] = mt
    # read the result back, in the order of the input entries
    by_loc = {}
    for x in new:
        loc = x.location
        if off is not None:
            pre = off.rstrip("/")
            if not loc.startswith(pre + "/"):
                res["identity"].append("entry %r is outside the offset" % loc)
                continue
            loc = loc[len(pre):]
        by_loc.setdefault(loc, []).append(x)
    after = []
    for e, o in zip(case["entries"], objs):
        got = by_loc.pop(e["loc"], [])
        if len(got) != 1:
            res["identity"].append("location %r occurs %d times after the stage" % (e["loc"], len(got)))
            after.append(None)
            continue
        x = got[0]
        kind = [i for i, c in enumerate(classes) if type(x) is c]
        payload_ok = x.mtime == o.mtime
        if e["kind"] == 0:
            payload_ok = payload_ok and x.data is o.data and x.chksums is o.chksums and x.dev == o.dev and x.inode == o.inode
        elif e["kind"] == 2:
            payload_ok = payload_ok and x.target == o.target
        elif e["kind"] == 3:
            payload_ok = payload_ok and x.major == o.major and x.minor == o.minor
        bad_attr = [a for a in ("mode", "uid", "gid") if not isinstance(getattr(x, a), int)]
        if bad_attr:
            res["identity"].append("entry %r has non-integer %s" % (e["loc"], bad_attr))
            after.append(None)
            continue
        after.append({"kind": kind[0] if kind else 99, "loc": e["loc"], "mode": x.mode, "uid": x.uid, "gid": x.gid,
                      "payload": e["payload"] if payload_ok else 0})
    for loc in by_loc:
        res["identity"].append("unexpected entry %r after the stage" % loc)
    res["after"] = after
    return res


def oracle(case, e, a, fp):
    """the property on one before/after pair, bits by position; returns a description of the failure or None"""
    if a is None:
        return "entry missing"
    if a["kind"] != e["kind"]:
        return "type changed"
    if a["payload"] != e["payload"]:
        return "target/data/device numbers/mtime changed"
    if a["uid"] != (case["ru"] if e["uid"] == case["bu"] else e["uid"]):
        return f"uid {e['uid']} -> {a['uid']} (build uid {case['bu']}, root {case['ru']})"
    if a["gid"] != (case["rg"] if e["gid"] == case["bg"] else e["gid"]):
        return f"gid {e['gid']} -> {a['gid']} (build gid {case['bg']}, root {case['rg']})"
    m = a["mode"]
    setid = (m >> 11) & 1 or (m >> 10) & 1
    ww = (m >> 1) & 1
    if e["kind"] != 2 and setid and ww:
        return f"mode {oct(m)} is set-id and world-writable after the stage"
    if m & ~e["mode"]:
        return f"mode gained bits: {oct(e['mode'])} -> {oct(m)}"
    if (m | 0o6002) != (e["mode"] | 0o6002):
        return f"mode lost bits other than setuid/setgid/world-writable: {oct(e['mode'])} -> {oct(m)}"
    if e["kind"] == 2 and m != e["mode"]:
        return "link mode changed"
    return None


def run(ctx):
    from pkgcore.fs import contents, fs
    from pkgcore.merge import engine, triggers
    from pkgcore.operations import observer as observer_mod
    from snakeoil.data_source import data_source
    _, _, Pkg = _engines()
    mods = (fs, contents, engine, triggers, observer_mod, Pkg, data_source)
    rng = ctx.rng

    cases = [dict(c) for c in CORPUS]
    if ctx.replay_cases:
        cases = [c for c in ctx.replay_cases if "entries" in c] + cases
    for i in range(ctx.n(3000, 30000)):
        cases.append(gen_case(rng, i))
    if not ctx.quick():
        # exhaustive sweep of the 4096 permission-bit combinations x the five classes (direct trigger calls, 64 entries a set)
        modes = list(range(0o10000))
        n0 = len(cases)
        for kind in range(5):
            for off in range(0, len(modes), 64):
                ents = [E(kind, "/m/%04o" % m, m | (TYPE_BITS[kind] if (m + kind) % 3 == 0 or kind == 3 else 0), [0, BUILD_UID, 1000][m % 3], [BUILD_GID, 0, 7][m % 3], (m % 63) + 1)
                        for m in modes[off:off + 64]]
                cases.append({"entries": ents, "how": "direct" if kind % 2 else "install_noplug", "observer": False, "offset": False, "fix_perms": kind == 4,
                              "bu": BUILD_UID, "ru": 0, "bg": BUILD_GID, "rg": 0, "extra_first": False})
        ctx.extra["exhaustive_mode_sweep_cases"] = len(cases) - n0

    scratch = tempfile.mkdtemp(prefix="verif-c23-")
    try:
        impl = [run_impl(c, scratch, mods) for c in cases]
    finally:
        shutil.rmtree(scratch, ignore_errors=True)

    run_reqs, judge_reqs, idx = [], [], []
    for k, (c, r) in enumerate(zip(cases, impl)):
        if r["after"] is None or any(a is None for a in r["after"]):
            continue
        fp = any(t["t"] == "detect_world_writable" and t["fix"] for t in r["triggers"])
        run_reqs.append({"cmd": "c23.run", "entries": c["entries"], "triggers": r["triggers"]})
        judge_reqs.append({"cmd": "c23.judge", "before": c["entries"], "after": r["after"], "bu": c["bu"], "ru": c["ru"], "bg": c["bg"], "rg": c["rg"], "fp": fp})
        idx.append(k)
    run_rep = dict(zip(idx, ctx.model(run_reqs)))
    judge_rep = dict(zip(idx, ctx.model(judge_reqs)))

    # default-order model (generated table) against default-argument engines
    dflt = [k for k in idx if cases[k]["how"] == "install" and not cases[k]["fix_perms"]]

    for k, (c, r) in enumerate(zip(cases, impl)):
        case = {kk: v for kk, v in c.items()}
        changed = unchanged = 0
        if r["after"]:
            for e, a in zip(c["entries"], r["after"]):
                if a is not None and (a["mode"], a["uid"], a["gid"]) != (e["mode"], e["uid"], e["gid"]):
                    changed += 1
                else:
                    unchanged += 1
        ctx.case(case, changed > 0 and unchanged > 0, key=repr(sorted(c.items())))
        ctx.count("how_" + c["how"])
        if c.get("fault") is not None:
            ctx.count("injected_fault_priority_%d" % c["fault"])
        if c["how"].startswith("ebuild") and c.get("preinst"):
            ctx.count("ebuild_with_preinst_contents_reset")
        ctx.count("observer_%s" % (c.get("output") or "recorder" if c["observer"] else "none"))
        if any("%" in e["loc"] for e in c["entries"]):
            ctx.count("sets_with_percent_in_a_name")
            if c["observer"] and (c.get("output") or "recorder") != "recorder" and any(
                    "%" in e["loc"] and e["kind"] != 2 and e["mode"] & 0o6000 and e["mode"] & 0o002 for e in c["entries"]):
                ctx.count("sets_with_unsafe_percent_name_and_stream_observer")
        if c.get("odd_offset") and c["offset"]:
            ctx.count("offset_with_format_metacharacters")
        ctx.count("file_inodes_%s" % c.get("inodes", "scan"))
        pl = [e["payload"] for e in c["entries"] if e["kind"] == 0]
        if len(pl) != len(set(pl)):
            ctx.count("sets_with_hardlinked_names")
            grp = [e for e in c["entries"] if e["kind"] == 0 and pl.count(e["payload"]) > 1]
            if any(e["uid"] == c["bu"] or e["gid"] == c["bg"] for e in grp):
                ctx.count("sets_with_build_owned_hardlinks")
        ctx.count("entries_%d" % min(len(c["entries"]), 9))
        for e in c["entries"]:
            ctx.count("kind_" + KIND_CLASSES[e["kind"]])
            m = e["mode"]
            ctx.count("mode_%s%s" % ("setid" if m & 0o6000 else "plain", "+ww" if m & 0o002 else ""))
        if r["exc"] and r["after"] is not None and not r["identity"] and all(a is not None for a in r["after"]):
            # a trigger crashed and the engine went on: say what that did to the entries (the property's own clauses) before reporting the crash
            for e, a in zip(c["entries"], r["after"]):
                why = oracle(c, e, a, False)
                if why:
                    r["exc"] = f"{e['loc']}: {why}  [{r['exc']}]"
                    break
        if r["exc"]:
            ctx.violation(case, ("" if "  [" in r["exc"] else "the pre_merge stage failed: ") + r["exc"])
            continue
        if r["identity"]:
            ctx.violation(case, "; ".join(r["identity"][:3]))
            continue
        names = [t["t"] for t in r["triggers"]]
        for need in ("fix_uid_perms", "fix_gid_perms", "fix_set_bits", "detect_world_writable"):
            if need not in names:
                ctx.violation(case, f"{need} is not registered on the pre_merge hook of the engine ({c['how']})")
        fp = any(t["t"] == "detect_world_writable" and t["fix"] for t in r["triggers"])
        # ---- edge C: the property on the real code (Python oracle by bit position + the Lean judge = Spec.Hardened)
        bad = None
        for e, a in zip(c["entries"], r["after"]):
            why = oracle(c, e, a, fp)
            if why:
                bad = f"{e['loc']}: {why}"
                break
        jr = judge_rep.get(k)
        if bad is None and isinstance(jr, list):
            for e, a, ok in zip(c["entries"], r["after"], jr):
                if not ok:
                    bad = f"{e['loc']}: before {e} after {a} does not satisfy Spec.Hardened"
                    break
        if bad:
            ctx.violation(case, bad)
            continue
        if jr == "bad-op" or not isinstance(jr, list):
            ctx.mismatch(case, f"driver rejected the judge request: {jr!r}")
            continue
        # ---- edge A: the model of the code
        mr = run_rep.get(k)
        if mr != r["after"]:
            ctx.mismatch(case, f"implementation gives {r['after']}, the Lean model gives {mr}")
            continue
        for a in r["after"]:
            if a["mode"] != next(e["mode"] for e in c["entries"] if e["loc"] == a["loc"]):
                ctx.count("entries_mode_changed")
        ctx.traces += 1

    # the generated default order, run by the model, against engines that only have default-argument plugins + our two
    # (equivalent because the default fix_uid/gid instances are no-ops when portage ids = root ids)
    # the generated ebuild-engine order (contents reset first), run by the model, against the engines assembled the ebuild way
    eb = [k for k in idx if cases[k]["how"] == "ebuild" and cases[k].get("preinst") and not cases[k]["fix_perms"]][:400]
    reqs = [{"cmd": "c23.ebuild", "entries": cases[k]["entries"], "image": cases[k]["entries"], "bu": cases[k]["bu"], "ru": cases[k]["ru"], "bg": cases[k]["bg"], "rg": cases[k]["rg"]}
            for k in eb]
    for k, rep in zip(eb, ctx.model(reqs)):
        ctx.evaluations += 1
        if rep != impl[k]["after"]:
            ctx.mismatch(cases[k], f"model with the generated ebuild-engine trigger order gives {rep}, the engine gives {impl[k]['after']}")
    reqs = [{"cmd": "c23.default", "entries": cases[k]["entries"], "bu": cases[k]["bu"], "ru": cases[k]["ru"], "bg": cases[k]["bg"], "rg": cases[k]["rg"]} for k in dflt[:400]]
    for k, rep in zip(dflt[:400], ctx.model(reqs)):
        ctx.evaluations += 1
        if rep != impl[k]["after"]:
            ctx.mismatch(cases[k], f"model with the generated default trigger order gives {rep}, the engine gives {impl[k]['after']}")


LEVEL_TEXT = ("Kernel-checked Lean 4 theorems about a model of fix_uid_perms / fix_gid_perms / fix_set_bits / detect_world_writable as dict updates of new_cset: "
              "for every contents set, every mode (unbounded), every owner and every order and multiplicity of the triggers (in particular the order of a "
              "default install or replace engine, regenerated from the real engines), each entry is rewritten in place into its hardened form — no "
              "set-id + world-writable entry with permissions is left, build-user/group entries belong to root, kind, location and payload are untouched, "
              "modes only lose the setuid/setgid/world-writable bits. The model is tied to the code by running real MergeEngine.install/replace pre_merge "
              "hooks on generated contents sets; the same runs evaluate the specification (Lean judge proved equivalent to Spec.Hardened, plus an "
              "independent bit-position oracle) on the real code's output.")
LEVEL_NOTE = ("Partial in one respect, stated in the theorem name: symbolic links are exempt from the mode clause by design (guard isSym = false, with a "
              "counterexample theorem for the unguarded statement). Trusted: Lean kernel; standard axioms; entries reduced to six fields; mask literals "
              "mirrored by hand and covered by the exhaustive 12-bit sweep.")
