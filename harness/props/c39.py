"""C39 — bug update list changes compose like applying them in sequence; wire payload = exactly the set fields."""
import dataclasses
import datetime
import itertools

PID = "C39"
LEAN_MODULES = ["Pkgcore.Props.C39"]
OBLIGATIONS = [
    "Pkgcore.C39.or_is_sequential_or_refused",
    "Pkgcore.C39.or_refused_iff",
    "Pkgcore.C39.or_never_refused_with_set",
    "Pkgcore.C39.or_pinned_counterexample",
    "Pkgcore.C39.wire_exactly_set_fields",
    "Pkgcore.C39.wire_needs_ids",
    "Pkgcore.C39.wire_keys_exactly_set_fields",
    "Pkgcore.C39.wire_values",
    "Pkgcore.C39.field_table_matches_code",
    "Pkgcore.C39.wire_names_declared",
]
TRUSTED = [
    "the reference Bugzilla list-update semantics (set replaces; otherwise remove then add; fields are sets) is the "
    "specification Spec.applyWire; a Python transcription of it in this harness is compared with the Lean one on every case",
    "str() of a value (str / BugId) is injective within one field (hypothesis `hinj` of the theorem)",
    "datetime.date.isoformat, str(PackageList), str(StrEnum) are opaque renderings (the model receives the rendered string)",
    "field table (dataclass fields, RawBugUpdate keys, field -> wire key obtained by probing to_wire with one field set, "
    "Status.RESOLVED / Resolution.DUPLICATE values) regenerated from the imported modules on every run",
]
ASSUMPTIONS = [
    "all values of one ListChange have one type T on which str() is injective (str or BugId), as the type annotations require",
    "status/resolution are members of the Status/Resolution enums (the code tests them with `is`)",
]
RULE = ("list changes: random add/remove/set changes (incl. empty, duplicated values, constructor-refused shapes) over a 5-value alphabet "
        "(strings or BugIds) combined with | and applied to random initial lists, plus every ordered pair of the 47 valid changes over a "
        "3-value alphabet; non-trivial = both operands truthy and (they share a value or one of them is a set). "
        "bug updates: every status x resolution x dupe_of combination (bare and next to other fields), the updates the field table is "
        "probed with (each field set / unset next to four status companions), then every field independently set/unset (a resolution "
        "next to any explicit status, RESOLVED or not; some incoherent triples), built through BugUpdate(...) and the shorthands "
        "resolve/sanity_check/obsoleted_by; non-trivial = at least two fields set. A failing update is shrunk (fields dropped, one id) "
        "before it is reported; where model and code disagree the property is evaluated on the real code for the neighbouring inputs "
        "(list changes: every initial list over the mentioned values, both orders, one value dropped; updates: one field dropped, "
        "each field alone) and only if it holds on all of them is the disagreement filed as a mismatch")

ALPHA_S = ["a", "b", "c", "d", "e@gentoo.org"]
ALPHA_I = [1, 2, 3, 44, 555]


def gen_tables(repo):
    from pkgcore.bugzilla import changes, enums, wire
    fields = [f.name for f in dataclasses.fields(changes.BugUpdate)]
    raw_keys = list(wire.RawBugUpdate.__annotations__)
    fw, _problems = _field_wire()   # a field whose key cannot be probed keeps its reference name; run() reports the failing update
    pairs = [(name, fw[name]) for name in fields]

    def q(s):
        return '"' + s.replace("\\", "\\\\").replace('"', '\\"') + '"'
    text = ("-- GENERATED from /repo by harness/props/c39.py (gen_tables); do not edit\n"
            "namespace Pkgcore.Generated.C39\n"
            f"def statusResolved : String := {q(str(enums.Status.RESOLVED))}\n"
            f"def resolutionDuplicate : String := {q(str(enums.Resolution.DUPLICATE))}\n"
            f"def fieldWire : List (String × String) := [{', '.join('(%s, %s)' % (q(a), q(b)) for a, b in pairs)}]\n"
            f"def rawBugUpdateKeys : List String := [{', '.join(q(k) for k in raw_keys)}]\n"
            "end Pkgcore.Generated.C39\n")
    return {"Pkgcore/Generated/C39Tables.lean": text}


# the property's reference for "which payload key carries which field": the names Bugzilla's REST `PUT /rest/bug/<id>` understands
# (wire.RawBugUpdate declares the same ones) — the dataclass field name, except for the two Gentoo custom fields
REFERENCE_WIRE = {name: name for name in (
    "status", "resolution", "dupe_of", "summary", "assigned_to", "whiteboard", "deadline", "cc", "keywords", "blocks", "depends_on",
    "see_also", "groups", "flags", "comment")}
REFERENCE_WIRE.update(package_list="cf_stabilisation_atoms", runtime_testing_required="cf_runtime_testing_required")


def _probe_pairs():
    """for each dataclass field of BugUpdate: pairs (kwargs with the field set, the same kwargs with only that field unset/changed
    to a value that keeps the update valid); all pass __post_init__.  Several companions per field, so that a key that is only
    written next to particular other fields is noticed."""
    from pkgcore.bugzilla import changes, enums
    from pkgcore.bugzilla.pkglist import PackageList
    LC = changes.ListChange
    S, R = enums.Status, enums.Resolution
    with_status = [{}, {"status": S.CONFIRMED}, {"status": S.RESOLVED, "resolution": R.FIXED}, {"status": S.VERIFIED, "resolution": R.WONTFIX}]
    p = {
        "status": [({"status": st}, {}) for st in S if st is not S.RESOLVED],
        "resolution": [({"status": st, "resolution": r}, {"status": st}) for st in S if st is not S.RESOLVED for r in (R.FIXED, R.WONTFIX)],
        "dupe_of": [({"status": st, "resolution": R.DUPLICATE, "dupe_of": 7}, {"status": st, "resolution": R.FIXED}) for st in S],
    }
    simple = {
        "summary": "s", "assigned_to": "m@gentoo.org", "whiteboard": "w", "deadline": datetime.date(2024, 1, 2),
        "flags": (changes.FlagChange("sanity-check", enums.FlagStatus.GRANTED),), "comment": changes.NewComment("c"),
        "package_list": PackageList("=dev-libs/a-1 amd64"), "runtime_testing_required": enums.RuntimeTesting.YES,
    }
    for name in ("cc", "keywords", "blocks", "depends_on", "see_also", "groups"):
        simple[name] = LC.adding("x")
    for name, value in simple.items():
        p[name] = [({**base, name: value}, dict(base)) for base in with_status]
    for f in dataclasses.fields(changes.BugUpdate):
        if f.name not in p or f.name not in REFERENCE_WIRE:
            raise RuntimeError(f"BugUpdate has a field unknown to the C39 model: {f.name}")
    return p


def _probe_values():
    """for each dataclass field of BugUpdate: kwargs that set this field (with the companions __post_init__ demands)"""
    return {name: pairs[0][0] for name, pairs in _probe_pairs().items()}


def _field_wire():
    """(dataclass field name -> wire key, problems).  The key is found by probing the real to_wire with the field set / not set,
    next to several companions.  When the probes do not single out one key, the field keeps its reference name and the probe is
    returned in `problems` = [(field, kwargs, payload, keys that setting the field added)] — run() evaluates the property on
    exactly these updates, so the failure is reported with its input instead of as a broken table."""
    from pkgcore.bugzilla import changes
    out, problems = {}, []
    for name, pairs in _probe_pairs().items():
        found = set()
        for kw, base_kw in pairs:
            w = changes.BugUpdate(**kw).to_wire([1])
            base = changes.BugUpdate(**base_kw).to_wire([1])
            new = tuple(k for k in w if k not in base)
            found.add(new)
            if len(new) != 1:
                problems.append((name, kw, w, list(new)))
        if len(found) == 1 and len(next(iter(found))) == 1:
            out[name] = next(iter(found))[0]
        else:
            if not any(pr[0] == name for pr in problems):   # every probe adds one key, but not the same one
                problems.append((name, pairs[0][0], changes.BugUpdate(**pairs[0][0]).to_wire([1]), sorted(k for t in found for k in t)))
            out[name] = REFERENCE_WIRE[name]
    return out, problems


# ------------------------------------------------------------------ list changes

def gen_change(rng, alpha):
    """a change *specification* {add, remove, replace}; may be refused by the constructor"""
    k = rng.random()
    pick = lambda lo, hi: [rng.choice(alpha) for _ in range(rng.randint(lo, hi))]
    uniq = lambda lo, hi: rng.sample(alpha, rng.randint(lo, hi))
    if k < 0.08:
        return {"add": [], "remove": [], "replace": None}
    if k < 0.28:
        return {"add": uniq(1, 3), "remove": [], "replace": None}
    if k < 0.46:
        return {"add": [], "remove": uniq(1, 3), "replace": None}
    if k < 0.70:
        vals = uniq(2, 5)
        cut = rng.randint(1, len(vals) - 1)
        return {"add": vals[:cut], "remove": vals[cut:], "replace": None}
    if k < 0.88:
        return {"add": [], "remove": [], "replace": uniq(0, 3)}
    if k < 0.94:  # duplicated values inside one tuple
        return {"add": pick(1, 4), "remove": [], "replace": None} if rng.random() < 0.5 else {"add": [], "remove": [], "replace": pick(1, 4)}
    if k < 0.97:  # overlap: refused
        v = uniq(1, 3)
        return {"add": v, "remove": [rng.choice(v)] + uniq(0, 1), "replace": None}
    return {"add": uniq(0, 1), "remove": uniq(0, 1) if rng.random() < 0.5 else [], "replace": uniq(0, 2)}  # replace + add/remove: mostly refused


def build_change(LC, spec):
    """through the public constructors where the shape allows"""
    a, r, s = tuple(spec["add"]), tuple(spec["remove"]), spec["replace"]
    if s is not None and not a and not r:
        return LC.setting(*s)
    if s is None and a and not r:
        return LC.adding(*a)
    if s is None and r and not a:
        return LC.removing(*r)
    if s is None and not a and not r:
        return LC()
    return LC(add=a, remove=r, replace=None if s is None else tuple(s))


def apply_wire(w, values):
    """python transcription of the reference Bugzilla list update (Spec.applyWire), on sets"""
    if "set" in w:
        return set(w["set"])
    return (set(values) - set(w.get("remove", []))) | set(w.get("add", []))


def spec_json(spec):
    return {"add": [str(x) for x in spec["add"]], "remove": [str(x) for x in spec["remove"]],
            "replace": None if spec["replace"] is None else [str(x) for x in spec["replace"]]}


def lc_json(c):
    return {"add": [str(x) for x in c.add], "remove": [str(x) for x in c.remove],
            "replace": None if c.replace is None else [str(x) for x in c.replace]}


def lc_property(x, y, cur):
    """the property itself on two real ListChange objects and one initial list (a set of rendered values): None when it holds
    (the combination is refused, or applies like x then y), else the description of the failure"""
    from pkgcore.bugzilla.errors import BugzillaUsageError
    try:
        c = x | y
    except BugzillaUsageError:
        return None
    except Exception as e:
        return f"a | b raised {type(e).__name__}: {e}"
    seq = apply_wire(y.to_wire(), apply_wire(x.to_wire(), cur))
    comb = apply_wire(c.to_wire(), cur)
    if comb != seq:
        return f"(a | b) = {c!r} applied to {sorted(cur)} gives {sorted(comb)}; a then b gives {sorted(seq)}"
    if bool(c) != bool(c.to_wire()):
        return f"truthiness of {c!r} disagrees with its wire form {c.to_wire()!r}"
    return None


def lc_neighbours(a, b, l, alpha):
    """inputs near (a, b, l) on which a disagreement between model and code would become a failure of the property if it is one:
    every initial list over the values mentioned (+ one value mentioned nowhere), both argument orders, one value dropped"""
    vals = []
    for v in a["add"] + a["remove"] + (a["replace"] or []) + b["add"] + b["remove"] + (b["replace"] or []) + list(l):
        if v not in vals:
            vals.append(v)
    fresh = [v for v in alpha if v not in vals][:1]
    pool = (vals + fresh)[:6]
    lists = [list(c) for r in range(len(pool) + 1) for c in itertools.combinations(pool, r)]

    def drops(spec):
        for key in ("add", "remove", "replace"):
            for i in range(len(spec[key] or [])):
                d = dict(spec)
                d[key] = spec[key][:i] + spec[key][i + 1:]
                yield d
    pairs = [(a, b), (b, a)] + [(d, b) for d in drops(a)] + [(a, d) for d in drops(b)]
    for pa, pb in pairs:
        for pl in lists:
            yield pa, pb, pl


def lc_explore(ctx, LC, typ, a, b, l, why):
    """model and code disagree on (a, b): look for an input on which the property itself fails on the real code; report the
    smallest one found as a violation and return True, else False (the disagreement then stays a mismatch)"""
    from pkgcore.bugzilla.errors import BugzillaUsageError
    alpha = ALPHA_I if typ == "int" else ALPHA_S
    best = None
    for pa, pb, pl in lc_neighbours(a, b, l, alpha):
        try:
            x, y = build_change(LC, pa), build_change(LC, pb)
        except BugzillaUsageError:
            continue
        detail = lc_property(x, y, set(str(v) for v in pl))
        if detail is not None:
            size = sum(len(sp[k] or []) for sp in (pa, pb) for k in ("add", "remove", "replace")) * 8 + len(pl)
            if best is None or size < best[0]:
                best = (size, {"type": typ, "a": pa, "b": pb, "l": pl}, detail)
    if best is None:
        return False
    ctx.violation(best[1], best[2] + f"  [found next to a={a} b={b}, where {why}]")
    return True


LC_CORPUS = [
    # the defect repaired in /repo: an earlier set was dropped by a later add/remove
    ({"add": [], "remove": [], "replace": ["x"]}, {"add": ["a"], "remove": [], "replace": None}, ["q"]),
    ({"add": [], "remove": [], "replace": []}, {"add": [], "remove": [], "replace": None}, ["a"]),
    ({"add": [], "remove": [], "replace": ["x", "y"]}, {"add": ["y", "z"], "remove": ["x"], "replace": None}, ["x", "q"]),
    ({"add": [], "remove": [], "replace": ["x", "x"]}, {"add": ["a", "a"], "remove": ["q"], "replace": None}, []),
    # set on the right hand side (the only direction test_changes.py covers)
    ({"add": ["a"], "remove": [], "replace": None}, {"add": [], "remove": [], "replace": ["z"]}, ["a", "b"]),
    ({"add": [], "remove": [], "replace": ["x"]}, {"add": [], "remove": [], "replace": []}, ["a"]),
    # add then remove / remove then add of the same value: refused
    ({"add": ["a"], "remove": [], "replace": None}, {"add": [], "remove": ["a"], "replace": None}, ["a"]),
    ({"add": [], "remove": ["a"], "replace": None}, {"add": ["a"], "remove": [], "replace": None}, []),
    ({"add": ["a"], "remove": ["b"], "replace": None}, {"add": ["b"], "remove": ["c"], "replace": None}, ["b", "c"]),
    # plain merges, duplicates across and inside operands
    ({"add": ["a"], "remove": [], "replace": None}, {"add": ["b"], "remove": ["c"], "replace": None}, ["c"]),
    ({"add": ["a"], "remove": [], "replace": None}, {"add": ["a"], "remove": [], "replace": None}, []),
    ({"add": ["a", "a"], "remove": ["b"], "replace": None}, {"add": ["c", "a", "c"], "remove": ["b", "d"], "replace": None}, ["b", "d", "e"]),
    ({"add": [], "remove": [], "replace": None}, {"add": [], "remove": [], "replace": None}, ["a"]),
    # constructor refusals
    ({"add": ["a"], "remove": ["a"], "replace": None}, {"add": [], "remove": [], "replace": None}, []),
    ({"add": ["a"], "remove": [], "replace": ["b"]}, {"add": [], "remove": [], "replace": None}, []),
    ({"add": [], "remove": [], "replace": None}, {"add": [], "remove": ["a"], "replace": []}, []),
]


def run_list_changes(ctx):
    from pkgcore.bugzilla.changes import ListChange as LC
    from pkgcore.bugzilla.errors import BugzillaUsageError
    rng = ctx.rng
    cases = [("str", a, b, l) for a, b, l in LC_CORPUS]
    if ctx.replay_cases:
        cases = [(c.get("type", "str"), c["a"], c["b"], c["l"]) for c in ctx.replay_cases if "a" in c and "l" in c] + cases
    # every ordered pair of valid changes over a 3-value alphabet (47 changes), a few initial lists each
    A = ["a", "b", "c"]
    tuples = [list(c) for r in range(3) for c in itertools.permutations(A, r)]
    small = [{"add": ad, "remove": rm, "replace": None} for ad in tuples for rm in tuples if not set(ad) & set(rm)]
    small += [{"add": [], "remove": [], "replace": s} for s in tuples]
    lists = [[], ["a"], ["b", "c"], ["a", "b", "c"]] if ctx.quick() else [list(c) for r in range(4) for c in itertools.combinations(A, r)]
    for a in small:
        for b in small:
            for l in (lists if not ctx.quick() else [rng.choice(lists), rng.choice(lists)]):
                cases.append(("str", a, b, l))
    ctx.extra["exhaustive_small_universe_pairs"] = len(small) ** 2
    for _ in range(ctx.n(6000, 150000)):
        typ = "int" if rng.random() < 0.3 else "str"
        alpha = ALPHA_I if typ == "int" else ALPHA_S
        a = gen_change(rng, alpha)
        b = gen_change(rng, alpha)
        l = rng.sample(alpha, rng.randint(0, 4))
        cases.append((typ, a, b, l))

    reqs = [{"cmd": "c39.or", "a": spec_json(a), "b": spec_json(b), "l": [str(x) for x in l]} for _, a, b, l in cases]
    explored = 0
    for (typ, a, b, l), rep in zip(cases, ctx.model(reqs)):
        case = {"type": typ, "a": a, "b": b, "l": l}
        if not isinstance(rep, dict):
            ctx.mismatch(case, f"driver answered {rep!r}")
            continue
        built = []
        for name, spec in (("a", a), ("b", b)):
            try:
                built.append(build_change(LC, spec))
            except BugzillaUsageError:
                built.append(None)
        impl_ok = [x is not None for x in built]
        if None in built:
            ctx.case(case, False)
            if impl_ok != [rep["a_ok"], rep["b_ok"]]:
                ctx.mismatch(case, f"constructor refusal differs: impl accepts {impl_ok}, model {[rep['a_ok'], rep['b_ok']]}")
            else:
                ctx.count("lc_operand_refused_by_constructor")
            continue
        x, y = built
        try:
            c = x | y
        except BugzillaUsageError:
            c = None
        except Exception as e:
            ctx.case(case, True)
            ctx.violation(case, f"a | b raised {type(e).__name__}: {e}")
            continue
        shared = bool((set(a["add"]) | set(a["remove"]) | set(a["replace"] or [])) & (set(b["add"]) | set(b["remove"]) | set(b["replace"] or [])))
        nontriv = bool(x) and bool(y) and (shared or a["replace"] is not None or b["replace"] is not None)
        ctx.case(case, nontriv, key=repr((typ, a, b, l)))
        kind = lambda s: "set" if s["replace"] is not None else ("empty" if not s["add"] and not s["remove"] else
                                                                 "add" if not s["remove"] else "remove" if not s["add"] else "addremove")
        ctx.count(f"lc_{kind(a)}|{kind(b)}")
        ctx.count("lc_refused" if c is None else "lc_combined")
        ctx.count("lc_type_" + typ)
        # ---- edge C: the property on the real code, against the python transcription of the reference
        cur = set(str(v) for v in l)
        detail = lc_property(x, y, cur)
        if detail is not None:
            ctx.violation(case, detail)
            continue
        seq = apply_wire(y.to_wire(), apply_wire(x.to_wire(), cur))
        comb = None if c is None else apply_wire(c.to_wire(), cur)
        # ---- edge A: model vs implementation (and lean spec vs python reference); on a disagreement the property is evaluated
        # on the real code around this input before it is filed as a mere mismatch
        why = None
        if impl_ok != [rep["a_ok"], rep["b_ok"]]:
            why = f"constructor refusal differs: impl accepts {impl_ok}, model {[rep['a_ok'], rep['b_ok']]}"
        elif (c is None) != (rep["or"] is None):
            why = f"impl {'refuses' if c is None else 'combines'}, model {'refuses' if rep['or'] is None else 'combines'}"
        elif sorted(seq) != rep["sequential"]:
            why = f"reference semantics differ: python {sorted(seq)}, lean spec {rep['sequential']} (wires {x.to_wire()} {y.to_wire()})"
        elif c is not None:
            if lc_json(c) != rep["or"]:
                why = f"impl a|b = {lc_json(c)}, model {rep['or']}"
            elif c.to_wire() != {k: v for k, v in rep["wire"].items() if v is not None}:
                why = f"impl wire {c.to_wire()}, model wire {rep['wire']}"
            elif sorted(comb) != rep["combined"]:
                why = f"reference semantics differ on the combination: python {sorted(comb)}, lean spec {rep['combined']}"
        if why is not None:
            explored += 1
            if explored > 40 or not lc_explore(ctx, LC, typ, a, b, l, why):
                ctx.mismatch(case, why)


# ------------------------------------------------------------------ bug updates

PKGLISTS = ["=dev-libs/a-1 amd64", "dev-libs/b\n", "=x11-libs/c-2.3 ~arm64 x86\n# note\n", ""]
TEXTS = ["", "x", "new summary", "B3 [ebuild]", "m@gentoo.org", "multi\nline \"q\"", "ünï"]


def gen_update(rng):
    """python kwargs (values are python objects); mostly passes __post_init__"""
    from pkgcore.bugzilla import changes, enums
    from pkgcore.bugzilla.pkglist import PackageList
    kw = {}
    k = rng.random()
    if k < 0.25:
        kw["status"] = rng.choice([s for s in enums.Status if s is not enums.Status.RESOLVED])
    elif k < 0.45:
        kw["status"] = enums.Status.RESOLVED
        kw["resolution"] = rng.choice([r for r in enums.Resolution if r is not enums.Resolution.DUPLICATE])
    elif k < 0.55:
        kw["status"] = enums.Status.RESOLVED
        kw["resolution"] = enums.Resolution.DUPLICATE
        kw["dupe_of"] = rng.choice([0, 5, 123456])
    elif k < 0.67:  # a resolution next to any explicit status (valid: only RESOLVED *needs* one), dupe_of coherent
        kw["status"] = rng.choice(list(enums.Status))
        kw["resolution"] = rng.choice(list(enums.Resolution))
        if kw["resolution"] is enums.Resolution.DUPLICATE:
            kw["dupe_of"] = rng.choice([0, 5, 123456])
    elif k < 0.75:  # incoherent on purpose
        if rng.random() < 0.6:
            kw["status"] = rng.choice(list(enums.Status))
        if rng.random() < 0.6:
            kw["resolution"] = rng.choice(list(enums.Resolution))
        if rng.random() < 0.4:
            kw["dupe_of"] = rng.choice([0, 9])
    p = rng.choice([0.1, 0.3, 0.6])
    for name in ("summary", "assigned_to", "whiteboard"):
        if rng.random() < p:
            kw[name] = rng.choice(TEXTS)
    if rng.random() < p:
        kw["deadline"] = datetime.date(2024, 1, 1) + datetime.timedelta(days=rng.randint(0, 800))
    for name in ("cc", "keywords", "blocks", "depends_on", "see_also", "groups"):
        if rng.random() < p:
            alpha = ALPHA_I if name in ("blocks", "depends_on") else ALPHA_S
            for _ in range(5):
                try:
                    kw[name] = build_change(changes.ListChange, gen_change(rng, alpha))
                    break
                except changes.BugzillaUsageError:
                    continue
    if rng.random() < p:
        kw["flags"] = tuple(changes.FlagChange(rng.choice(["sanity-check", "review"]), rng.choice(list(enums.FlagStatus)),
                                               requestee=rng.choice([None, None, "a@gentoo.org", ""]))
                            for _ in range(rng.randint(0, 2)))
    if rng.random() < p:
        kw["comment"] = changes.NewComment(rng.choice(TEXTS), is_private=rng.random() < 0.3)
    if rng.random() < p:
        kw["package_list"] = PackageList(rng.choice(PKGLISTS))
    if rng.random() < p:
        kw["runtime_testing_required"] = rng.choice(list(enums.RuntimeTesting))
    return kw


def update_json(kw):
    """the model's view of the kwargs: everything pre-rendered to strings where the model treats it as opaque"""
    j = {}
    for k, v in kw.items():
        if k in ("status", "resolution", "runtime_testing_required", "package_list"):
            j[k] = str(v)
        elif k == "deadline":
            j[k] = v.isoformat()
        elif k in ("cc", "keywords", "blocks", "depends_on", "see_also", "groups"):
            j[k] = lc_json(v)
        elif k == "flags":
            j[k] = [{"name": f.name, "status": str(f.status.value), "requestee": f.requestee} for f in v]
        elif k == "comment":
            j[k] = {"body": v.body, "is_private": v.is_private}
        else:
            j[k] = v
    return j


def kw_from_json(j):
    """inverse of update_json (for replays): python kwargs from the recorded view of an update"""
    from pkgcore.bugzilla import changes, enums
    from pkgcore.bugzilla.pkglist import PackageList
    kw = {}
    for k, v in j.items():
        if k == "status":
            kw[k] = enums.Status(v)
        elif k == "resolution":
            kw[k] = enums.Resolution(v)
        elif k == "runtime_testing_required":
            kw[k] = enums.RuntimeTesting(v)
        elif k == "package_list":
            kw[k] = PackageList(v)
        elif k == "deadline":
            kw[k] = datetime.date.fromisoformat(v)
        elif k in ("cc", "keywords", "blocks", "depends_on", "see_also", "groups"):
            conv = (lambda x: int(x)) if k in ("blocks", "depends_on") and all(str(x).isdigit() for x in v["add"] + v["remove"] + (v["replace"] or [])) else (lambda x: x)
            kw[k] = changes.ListChange(add=tuple(map(conv, v["add"])), remove=tuple(map(conv, v["remove"])),
                                       replace=None if v["replace"] is None else tuple(map(conv, v["replace"])))
        elif k == "flags":
            kw[k] = tuple(changes.FlagChange(f["name"], enums.FlagStatus(f["status"]), requestee=f["requestee"]) for f in v)
        elif k == "comment":
            kw[k] = changes.NewComment(v["body"], is_private=v["is_private"])
        else:
            kw[k] = v
    return kw


def update_property(u, ids, field_wire, default):
    """the property itself on one real BugUpdate: the payload for a non-empty id list holds `ids` and exactly the fields that
    differ from 'leave alone', under their wire names, with their values.  None when it holds, else the description"""
    from pkgcore.bugzilla.errors import BugzillaUsageError
    try:
        w = u.to_wire(ids)
    except BugzillaUsageError:
        return "to_wire refused a non-empty id list" if ids else None
    except Exception as e:
        return f"to_wire raised {type(e).__name__}: {e}"
    if not ids:
        return None
    set_fields = [f.name for f in dataclasses.fields(u) if getattr(u, f.name) != getattr(default, f.name)]
    want_keys = {"ids"} | {field_wire[f] for f in set_fields}
    if set(w) != want_keys:
        return f"wire keys {sorted(w)} but the fields set are {sorted(set_fields)} (expected keys {sorted(want_keys)})"
    if w["ids"] != [int(i) for i in ids]:
        return f"wire ids {w['ids']} for ids {ids}"
    wrong = [f for f in set_fields if w[field_wire[f]] != expected_value(f, getattr(u, f))]
    if wrong:
        return f"wire value of {wrong[0]} is {w[field_wire[wrong[0]]]!r}, expected {expected_value(wrong[0], getattr(u, wrong[0]))!r}"
    return None


def shrink_update(kw, ids, field_wire, default):
    """smallest update (fields dropped one at a time, then a single id) built through the constructor that still breaks the
    property; None when the constructor-built update does not break it"""
    from pkgcore.bugzilla import changes
    from pkgcore.bugzilla.errors import BugzillaUsageError

    def bad(k, i):
        try:
            u = changes.BugUpdate(**k)
        except BugzillaUsageError:
            return None
        return update_property(u, i, field_wire, default)
    detail = bad(kw, ids)
    if detail is None:
        return None
    kw = dict(kw)
    progress = True
    while progress:
        progress = False
        for name in list(kw):
            sub = {k: v for k, v in kw.items() if k != name}
            d = bad(sub, ids)
            if d is not None:
                kw, detail, progress = sub, d, True
                break
    if len(ids) > 1 or ids != [1]:
        d = bad(kw, [1])
        if d is not None:
            ids, detail = [1], d
    return kw, ids, detail


def update_neighbours(kw):
    """updates near kw: one field dropped; every field alone (status/resolution/dupe_of kept together as far as needed)"""
    core = {k: v for k, v in kw.items() if k in ("status", "resolution", "dupe_of")}
    seen = []
    for name in kw:
        for cand in ({k: v for k, v in kw.items() if k != name}, {**core, name: kw[name]}, {name: kw[name]}):
            if cand not in seen:
                seen.append(cand)
                yield cand


def canon_wire(w):
    """real wire dict -> ordered [key, value] list comparable with the driver's output"""
    out = []
    for k, v in w.items():
        if k == "comment":
            v = {"body": v["body"], "is_private": v.get("is_private")}
        elif isinstance(v, dict):
            v = {"set": v.get("set"), "add": v.get("add"), "remove": v.get("remove")}
        elif k == "flags":
            v = [[[a, b] for a, b in f.items()] for f in v]
        out.append([k, v])
    return out


def expected_value(name, v):
    """edge C: what the property demands as wire value of a set field (independent of to_wire)"""
    if name in ("status", "resolution", "runtime_testing_required", "package_list"):
        return str(v)
    if name == "deadline":
        return v.isoformat()
    if name in ("cc", "keywords", "blocks", "depends_on", "see_also", "groups"):
        if v.replace is not None:
            return {"set": [str(x) for x in v.replace]}
        d = {}
        if v.add:
            d["add"] = [str(x) for x in v.add]
        if v.remove:
            d["remove"] = [str(x) for x in v.remove]
        return d
    if name == "flags":
        return [dict([("name", f.name), ("status", f.status.value)] + ([("requestee", f.requestee)] if f.requestee is not None else [])) for f in v]
    if name == "comment":
        return dict([("body", v.body)] + ([("is_private", True)] if v.is_private else []))
    return v


def run_updates(ctx, field_wire, problems):
    from pkgcore.bugzilla import changes, enums
    from pkgcore.bugzilla.errors import BugzillaUsageError
    rng = ctx.rng
    default = changes.BugUpdate()
    cases = []
    # corpus: empty update, every single field, set-to-empty list change, empty flags, empty ids
    cases.append(({}, [1], "ctor"))
    cases.append(({"summary": "x"}, [], "ctor"))
    if ctx.replay_cases:
        for c in ctx.replay_cases:
            if "update" in c:
                try:
                    cases.append((kw_from_json(c["update"]), list(c.get("ids", [1])), "ctor"))
                except Exception as e:
                    ctx.note(f"replay case not reconstructible: {e}")
    # the updates the field table was probed with (so a field that is not written next to some companion fails here, with its input)
    for name, pairs in _probe_pairs().items():
        for with_kw, without_kw in pairs:
            for kw in (with_kw, without_kw):
                if (kw, [1, 2, 3], "ctor") not in cases:
                    cases.append((kw, [1, 2, 3], "ctor"))
    # every status x resolution x dupe_of combination (valid or refused), bare and next to another field
    for st in (None, *enums.Status):
        for res in (None, *enums.Resolution):
            for dupe in (None, 7):
                kw = {k: v for k, v in (("status", st), ("resolution", res), ("dupe_of", dupe)) if v is not None}
                cases.append((kw, [1], "ctor"))
                cases.append(({**kw, "cc": changes.ListChange.adding("x@gentoo.org"), "whiteboard": ""}, [3, 4], "ctor"))
    cases.append(({"groups": changes.ListChange.setting()}, [4], "ctor"))
    cases.append(({"cc": changes.ListChange(), "flags": ()}, [4], "ctor"))
    cases.append(({"summary": "", "whiteboard": "", "assigned_to": ""}, ["12", 7], "ctor"))
    cases.append(({"resolution": enums.Resolution.FIXED}, [1], "ctor"))
    cases.append(({"status": enums.Status.RESOLVED}, [1], "ctor"))
    cases.append(({"status": enums.Status.RESOLVED, "resolution": enums.Resolution.DUPLICATE}, [1], "ctor"))
    cases.append(({"status": enums.Status.RESOLVED, "resolution": enums.Resolution.FIXED, "dupe_of": 5}, [1], "ctor"))
    for _ in range(ctx.n(2500, 60000)):
        kw = gen_update(rng)
        ids = [rng.randint(1, 10 ** 6) for _ in range(rng.choice([0, 1, 1, 1, 2, 5]))]
        if ids and rng.random() < 0.1:
            ids[0] = str(ids[0])
        how = "ctor"
        k = rng.random()
        if k < 0.06 and not ({"status", "resolution", "comment"} & set(kw)):
            how = "resolve"
        elif k < 0.12 and not ({"flags", "comment", "status", "resolution", "dupe_of"} & set(kw)):
            how = "sanity_check"
        elif k < 0.18 and not ({"status", "resolution", "see_also", "dupe_of"} & set(kw)):
            how = "obsoleted_by"
        cases.append((kw, ids, how))

    prepared = []
    for kw, ids, how in cases:
        kw = dict(kw)
        # the shorthands are part of the public glue: expand what they are documented to set, then call them
        try:
            if how == "resolve":
                res = rng.choice([r for r in enums.Resolution if r is not enums.Resolution.DUPLICATE])
                comment = rng.choice([None, "done"])
                u = changes.BugUpdate.resolve(res, comment=comment, **kw)
                kw.update(status=enums.Status.RESOLVED, resolution=res)
                if comment is not None:
                    kw["comment"] = changes.NewComment(comment)
            elif how == "sanity_check":
                st = rng.choice([True, False, None])
                comment = rng.choice([None, "broken"])
                u = changes.BugUpdate.sanity_check(st, comment=comment, **kw)
                kw["flags"] = (changes.FlagChange("sanity-check", {True: enums.FlagStatus.GRANTED, False: enums.FlagStatus.DENIED,
                                                                    None: enums.FlagStatus.CLEARED}[st]),)
                if comment is not None:
                    kw["comment"] = changes.NewComment(comment)
            elif how == "obsoleted_by":
                bug = rng.randint(1, 999999)
                u = changes.BugUpdate.obsoleted_by(bug, **kw)
                kw.update(status=enums.Status.RESOLVED, resolution=enums.Resolution.OBSOLETE,
                          see_also=changes.ListChange.adding(f"https://bugs.gentoo.org/{bug}"))
            else:
                u = changes.BugUpdate(**kw)
        except BugzillaUsageError:
            u = None
        prepared.append((kw, ids, how, u))

    reqs = [{"cmd": "c39.update", "u": update_json(kw), "ids": [int(i) for i in ids]} for kw, ids, how, u in prepared]
    explored = 0
    for (kw, ids, how, u), rep in zip(prepared, ctx.model(reqs)):
        case = {"update": update_json(kw), "ids": ids, "via": how}
        if not isinstance(rep, dict):
            ctx.mismatch(case, f"driver answered {rep!r}")
            continue
        if (u is not None) != rep["valid"]:
            ctx.case(case, False)
            detail = None if u is None else update_property(u, ids, field_wire, default)   # accepted by the code: the property speaks about it
            if detail is not None:
                ctx.violation(case, detail + "  [the model's __post_init__ refuses this update, the constructor accepts it]")
            else:
                ctx.mismatch(case, f"BugUpdate constructor {'accepts' if u is not None else 'refuses'}, model says valid={rep['valid']}")
            continue
        if u is None:
            ctx.case(case, False)
            ctx.count("upd_refused_by_constructor")
            continue
        set_fields = [f.name for f in dataclasses.fields(u) if getattr(u, f.name) != getattr(default, f.name)]
        ctx.case(case, len(set_fields) >= 2, key=repr(case))
        ctx.count("upd_fields_set_%d" % min(len(set_fields), 8))
        ctx.count("upd_via_" + how)
        for f in set_fields:
            ctx.count("upd_set_" + f)
        if "resolution" in set_fields:
            ctx.count("upd_resolution_with_status_" + str(u.status))
        # ---- edge C: exactly the set fields, under their wire names, with the right values
        detail = update_property(u, ids, field_wire, default)
        if detail is not None:
            small = shrink_update(kw, ids, field_wire, default)
            if small is not None and (small[0] != kw or small[1] != ids):
                ctx.violation({"update": update_json(small[0]), "ids": small[1], "via": "ctor"},
                              small[2] + f"  [shrunk from {case}: {detail}]")
            else:
                ctx.violation(case, detail)
            continue
        try:
            w = u.to_wire(ids)
        except BugzillaUsageError:
            w = None
        if w is None:
            ctx.count("upd_no_ids")
            if rep["wire"] is not None:
                ctx.mismatch(case, "impl refuses the empty id list, model renders")
            continue
        if bool(u) != bool(set_fields):
            # outside the property (it speaks about the payload only): bool(BugUpdate(whiteboard="")) is False although
            # the payload clears the whiteboard.  Recorded, not alarmed.
            ctx.note("observation outside C39: BugUpdate.__bool__ is False for updates whose only set fields are empty strings")
        # ---- edge A; on a disagreement the property is evaluated on the real code for the neighbouring updates before it is
        # filed as a mere mismatch
        why = None
        if rep["wire"] is None:
            why = "model refuses, impl renders"
        elif canon_wire(w) != rep["wire"]:
            why = f"impl wire {canon_wire(w)} != model wire {rep['wire']}"
        elif rep["wire"] != rep["spec"]:
            why = f"model wire {rep['wire']} != spec wire {rep['spec']} (theorem wire_exactly_set_fields broken?)"
        if why is not None:
            found = None
            explored += 1
            if explored <= 40:
                for cand in update_neighbours(kw):
                    for cand_ids in ([1], [2, 1, 1]):
                        found = found or shrink_update(cand, cand_ids, field_wire, default)
            if found is not None:
                ctx.violation({"update": update_json(found[0]), "ids": found[1], "via": "ctor"}, found[2] + f"  [found next to {case}, where {why}]")
            else:
                ctx.mismatch(case, why)
    # the probing of the field table itself: each failed probe is an update evaluated above (it is in the corpus); should none of
    # them have been reported as a failure of the property, keep the disagreement visible
    for name, kw, w, new in problems:
        if not ctx.violations:
            ctx.mismatch({"update": update_json(kw), "ids": [1], "via": "ctor"},
                         f"setting BugUpdate.{name} adds the payload keys {new} (payload {w}); expected exactly one key, the same next to every companion")


def run(ctx):
    from pkgcore.bugzilla import changes
    run_list_changes(ctx)
    field_wire, problems = _field_wire()
    run_updates(ctx, field_wire, problems)


LEVEL_TEXT = ("Kernel-checked Lean 4 theorems about a model of ListChange (constructor refusals, __or__, to_wire) and BugUpdate.to_wire: for all "
              "valid changes a, b over any value type and all initial lists, a|b is either refused (exactly when a value is added by one and "
              "removed by the other and neither is a set) or a valid change whose wire form, applied by the reference Bugzilla list update, "
              "yields the same set as applying a then b; the payload of any update is `ids` followed by exactly the fields that differ from "
              "their defaults, each under its wire name with its rendered value (field table regenerated from the code and re-proved). "
              "Tied to the code by a differential run (all 2209 ordered pairs of changes over a 3-value alphabet + random cases + random "
              "updates through the public constructors and shorthands), which also evaluates the property directly on the real objects.")
LEVEL_NOTE = ("Trusted: Lean kernel; standard axioms only; the reference Bugzilla semantics (set / remove-then-add on sets) as specification; "
              "opaque renderings date.isoformat, str(PackageList), str(enum); str() injective on the values of one field.")
