"""C14 — USE-configured package views always reflect the current USE set."""
import hashlib
import itertools
import os
import shutil
import tempfile

PID = "C14"
LEAN_MODULES = ["Pkgcore.Props.C14"]
OBLIGATIONS = [
    "Pkgcore.C14.read_is_current",
    "Pkgcore.C14.step_matches_spec_partial",
    "Pkgcore.C14.refused_request_restores_partial",
    "Pkgcore.C14.refused_request_restores_counterexample",
    "Pkgcore.C14.rollback_never_misses",
    "Pkgcore.C14.pinned_stale_after_disable_counterexample",
    "Pkgcore.C14.pinned_stale_after_commit_counterexample",
    "Pkgcore.C14.pinned_disable_keyerror_counterexample",
]
TRUSTED = [
    "a wrapped attribute's value is a function of (raw attribute, USE set): the model represents a cached value by the USE "
    "snapshot it was computed from; checked on every read by comparing the real value with raw.evaluate_depset(that snapshot)",
    "snakeoil.containers.LimitedChangeSet (add/remove/rollback/commit) is modelled as shipped in the venv, not as part of /repo; "
    "tied by the differential run (USE set, changes_count and every return value after every operation)",
    "request_enable/request_disable on a *wrapped* attribute (dependency atoms) go through restriction force_True/force_False; "
    "only their observed effect (refusal + rollback to the entry point) is modelled, as Op.refusedWrapped",
]
ASSUMPTIONS = [
    "histories consist of request_enable/request_disable on the configurable attribute, rollback(point), commit(), reads of wrapped "
    "attributes, and refused requests on wrapped attributes; lock()/freeze() end a history and are not modelled",
    "reads whose raw attribute raises (lazily loaded metadata failing once) are part of a history: Op.readFail, no store and no "
    "generation change; histories are sequences of completed operations on one thread - a second thread reading while a multi-flag "
    "request is half applied is outside the property's quantifier (operation histories)",
]
RULE = ("a history = 4-14 operations on a freshly configured package of a generated on-disk ebuild repository (md5-cache metadata, "
        "conditional *DEPEND/LICENSE/REQUIRED_USE/RESTRICT/SRC_URI over 5 IUSE flags + 2 non-IUSE flags (flag? groups and atoms with "
        "transitive USE deps [x?] [x=] [!x?] [!x=] with (+)/(-) defaults; a quarter of the dependency attributes depend on flags only through such atoms), random forced/masked flags and "
        "initial USE), every operation followed by 1-3 attribute reads; non-trivial = some attribute was read with two different "
        "values in the same history (so a stale cache entry would be visible); about one read in eight is a faulty read (the raw "
        "package's attribute raises if consulted: it must propagate, store nothing, and the following read must be current) ")
LEVEL_TEXT = ("Kernel-checked Lean 4 theorems about a model of PackageWrapper + LimitedChangeSet: for every history (any length, any flags, "
              "any locked set) every wrapped-attribute read returns the value computed from the current USE set (read_is_current, via the "
              "cache invariant 'entry generation <= current generation, equal generation => snapshot = USE set'); a refused request restores "
              "set, pending changes and log (refused_request_restores_partial, under the guard of open finding C14-noop-change-rollback, with "
              "the counterexample proved); rollback never trips over its log. The pinned tree's three defects are refuted as theorems about "
              "the same definitions. Differential run against the real ConfiguredTree/PackageWrapper on generated histories.")
LEVEL_NOTE = ("Trusted: Lean kernel, standard axioms; evaluate_depset being a function of the USE set; snakeoil's LimitedChangeSet modelled "
              "as shipped; correspondence sampled.")

FLAGS = ["a", "b", "c", "d", "e"]
EXTRA = ["x", "y"]            # never in IUSE: always unchangeable
UNIVERSE = FLAGS + EXTRA
READ_ATTRS = ["bdepend", "depend", "rdepend", "pdepend", "idepend", "license", "required_use", "restrict", "fetchables", "distfiles"]
FINDING = "C14-noop-change-rollback"


# ------------------------------------------------------------------ generated repository

def gen_depstr(rng, leaves, flags, depth=0, anyof=True):
    out = []
    for _ in range(rng.randint(1, 4 if depth == 0 else 2)):
        k = rng.random()
        if k < 0.45 or depth >= 2:
            out.append(rng.choice(leaves))
        elif k < 0.9 or not anyof:
            f = rng.choice(flags)
            out.append("%s%s? ( %s )" % ("!" if rng.random() < 0.35 else "", f, gen_depstr(rng, leaves, flags, depth + 1, anyof)))
        else:
            out.append("|| ( %s )" % gen_depstr(rng, leaves, flags, depth + 1, anyof))
    return " ".join(out)


def gen_required_use(rng, flags):
    out = []
    for _ in range(rng.randint(1, 3)):
        k = rng.random()
        if k < 0.5:
            out.append("%s%s? ( %s%s )" % ("!" if rng.random() < 0.3 else "", rng.choice(flags), "!" if rng.random() < 0.3 else "", rng.choice(flags)))
        else:
            out.append("%s ( %s )" % (rng.choice(["||", "^^", "??"]), " ".join(rng.sample(flags, min(len(flags), rng.randint(1, 3))))))
    return " ".join(out)


class Fixture:
    """an on-disk ebuild repository with valid md5-cache entries, wrapped by the real ConfiguredTree"""

    def __init__(self, rng, npkgs, fixed=None):
        from pkgcore.cache.flat_hash import md5_cache
        from pkgcore.ebuild import repository
        self.dir = d = tempfile.mkdtemp(prefix="verif-c14-")
        for sub in ("profiles", "metadata/md5-cache/cat", "eclass"):
            os.makedirs(os.path.join(d, sub))
        open(os.path.join(d, "profiles/repo_name"), "w").write("c14\n")
        open(os.path.join(d, "profiles/categories"), "w").write("cat\n")
        open(os.path.join(d, "metadata/layout.conf"), "w").write("masters =\ncache-formats = md5-dict\n")
        self.meta = {}
        specs = fixed if fixed is not None else [self.gen_pkg(rng, i) for i in range(npkgs)]
        for i, spec in enumerate(specs):
            name = "p%d" % i
            os.makedirs(os.path.join(d, "cat", name))
            eb = 'EAPI=8\nDESCRIPTION="generated %d"\nSLOT=0\n' % i
            open(os.path.join(d, "cat", name, name + "-1.ebuild"), "w").write(eb)
            lines = ["DEFINED_PHASES=-", "DESCRIPTION=generated %d" % i, "EAPI=8", "SLOT=0", "KEYWORDS=amd64",
                     "IUSE=" + " ".join(spec["iuse"])]
            for k in ("BDEPEND", "DEPEND", "RDEPEND", "PDEPEND", "IDEPEND", "LICENSE", "REQUIRED_USE", "RESTRICT", "SRC_URI"):
                if spec.get(k):
                    lines.append("%s=%s" % (k, spec[k]))
            lines.append("_md5_=" + hashlib.md5(eb.encode()).hexdigest())
            open(os.path.join(d, "metadata/md5-cache/cat", name + "-1"), "w").write("\n".join(sorted(lines)) + "\n")
            self.meta["cat/" + name] = spec
        self.repo = repository.UnconfiguredTree(d, cache=(md5_cache(d, readonly=True),), allow_missing_manifests=True)
        fx = self

        class Profile:
            iuse_effective = frozenset(UNIVERSE)

        class Domain:
            """the part of ebuild.domain that ConfiguredTree uses: initial USE state of a package"""
            profile = Profile()

            def get_package_use_unconfigured(self, pkg):
                return fx.current

        self.ctree = repository.ConfiguredTree(self.repo, Domain(), {"USE": [], "CHOST": "x86_64-pc-linux-gnu"})
        self.raw = {p.key: p for p in self.repo}
        self.current = None

    @staticmethod
    def gen_pkg(rng, i):
        iuse = rng.sample(FLAGS, rng.randint(2, 5))
        cond = iuse + rng.sample(EXTRA, rng.randint(0, 1))   # conditionals may also name a non-IUSE (unchangeable) flag
        atoms = ["dep/%s" % c for c in "pqrstu"] + [">=dep/v-2", "!dep/blk"]

        def usedep_atom():
            """an atom whose USE dependency is itself conditional on the package's flags (transitive USE deps: [x?], [x=],
            [!x?], [!x=], with and without (+)/(-) defaults, mixed with plain [x]/[-x])"""
            parts = []
            for f in rng.sample(cond, rng.randint(1, min(2, len(cond)))):
                default = rng.choice(["", "", "(+)", "(-)"])
                form = rng.choice(["%s%s?", "%s%s=", "!%s%s?", "!%s%s=", "%s%s?", "%s%s=", "%s%s", "-%s%s"])
                parts.append(form % (f, default))
            return "%s[%s]" % (rng.choice(["dep/w", "dep/x", ">=dep/y-3", "dep/z:2"]), ",".join(parts))
        spec = {"iuse": [("+" + f if rng.random() < 0.1 else f) for f in iuse]}
        for k in ("BDEPEND", "DEPEND", "RDEPEND", "PDEPEND", "IDEPEND"):
            r = rng.random()
            if r < 0.55:
                spec[k] = gen_depstr(rng, atoms + [usedep_atom() for _ in range(2)], cond)
            elif r < 0.8:
                # flags reach this attribute ONLY through transitive USE deps: no "flag? ( ... )" group at all
                spec[k] = " ".join([usedep_atom() for _ in range(rng.randint(1, 3))] + rng.sample(atoms, rng.randint(0, 2)))
        spec["LICENSE"] = gen_depstr(rng, ["GPL-2", "MIT", "BSD", "Apache-2.0"], cond)
        if rng.random() < 0.8:
            spec["REQUIRED_USE"] = gen_required_use(rng, iuse)
        if rng.random() < 0.7:
            spec["RESTRICT"] = gen_depstr(rng, ["test", "mirror", "strip", "fetch"], cond, anyof=False)
        if rng.random() < 0.8:
            spec["SRC_URI"] = gen_depstr(rng, ["http://h/%s.tar" % c for c in "klmn"] + ["http://h/o.tar -> renamed.tar"], cond, anyof=False)
        return spec

    def configure(self, key, immutable, enabled):
        """a fresh configured view: the public path ConfiguredTree.package_class -> PackageWrapper(...)"""
        self.current = (frozenset(immutable), frozenset(enabled), frozenset())
        return self.ctree.package_class(self.raw[key])

    def close(self):
        shutil.rmtree(self.dir, ignore_errors=True)


def canon(attr, v):
    """address-free rendering of a wrapped attribute value"""
    from snakeoil.sequences import iflatten_instance
    from pkgcore.fetch import fetchable
    if attr == "fetchables":
        return repr(sorted((f.filename, tuple(f.uri)) for f in iflatten_instance(v, fetchable)))
    if attr == "distfiles":
        return repr(tuple(v))
    return str(v)


def raw_value(fx, raw, attr, use):
    from snakeoil.sequences import stable_unique
    use = frozenset(use)
    if attr == "distfiles":
        return canon(attr, tuple(stable_unique(raw.distfiles.evaluate_depset(use))))
    return canon(attr, getattr(raw, attr).evaluate_depset(use))


# ------------------------------------------------------------------ histories

def gen_vals(rng, changeable, locked_present, locked_absent, use):
    n = rng.choice([1, 1, 1, 2, 2, 3])
    vals = []
    for _ in range(n):
        k = rng.random()
        if k < 0.7 and changeable:
            vals.append(rng.choice(changeable))
        elif k < 0.85 and locked_present:
            vals.append(rng.choice(locked_present))
        elif locked_absent:
            vals.append(rng.choice(locked_absent))
        else:
            vals.append(rng.choice(UNIVERSE))
    return vals


def gen_history(rng, changeable, initial, wrapped_atoms):
    locked = [f for f in UNIVERSE if f not in changeable]
    lp = [f for f in locked if f in initial]
    la = [f for f in locked if f not in initial]
    ops = []
    count = 0   # rough upper bound of changes_count for choosing rollback points
    for _ in range(rng.randint(4, 14)):
        k = rng.random()
        if k < 0.3:
            ops.append({"op": "enable", "vals": gen_vals(rng, changeable, lp, la, initial)})
            count += len(ops[-1]["vals"])
        elif k < 0.6:
            ops.append({"op": "disable", "vals": gen_vals(rng, changeable, lp, la, initial)})
            count += len(ops[-1]["vals"])
        elif k < 0.78:
            ops.append({"op": "rollback", "point": rng.choice([0, 0, 0, 1, 1, 1, 2, 2, 3, -1, count + 1, count // 2])})
        elif k < 0.9:
            ops.append({"op": "commit"})
            count = 0
        elif wrapped_atoms:
            ops.append({"op": "wrapped", "attr": "rdepend", "atom": rng.choice(wrapped_atoms), "enable": rng.random() < 0.5})
        else:
            ops.append({"op": "commit"})
            count = 0
        for a in rng.sample(READ_ATTRS, rng.choice([1, 1, 2, 3])):
            # a fault: the raw package's (lazily loaded) attribute raises if this read consults it; the caller survives and
            # usually reads the same attribute again
            if rng.random() < 0.12:
                ops.append({"op": "readfault", "attr": a})
                if rng.random() < 0.8:
                    ops.append({"op": "read", "attr": a})
            else:
                ops.append({"op": "read", "attr": a})
    return ops


class RawLoadError(Exception):
    """what the faulty raw attribute raises"""


class FaultyRaw:
    """the raw package with one attribute whose loading fails"""

    def __init__(self, raw, attr):
        self.__dict__["_c14_raw"] = raw
        self.__dict__["_c14_attr"] = attr

    def __getattr__(self, name):
        if name == self.__dict__["_c14_attr"]:
            raise RawLoadError("loading %s failed" % name)
        return getattr(self.__dict__["_c14_raw"], name)


def faulty_read(pkg, attr):
    """read `attr` while the raw package's `attr` is unreadable; ('raised', None) or ('value', canonical value)"""
    real = pkg._raw_pkg
    object.__setattr__(pkg, "_raw_pkg", FaultyRaw(real, attr))
    try:
        return "value", canon(attr, getattr(pkg, attr))
    except RawLoadError:
        return "raised", None
    finally:
        object.__setattr__(pkg, "_raw_pkg", real)


def apply_impl(pkg, op):
    """run one operation on the real PackageWrapper; returns the canonical outcome"""
    from pkgcore.ebuild.atom import atom
    try:
        k = op["op"]
        if k == "enable":
            return bool(pkg.request_enable("use", *op["vals"]))
        if k == "disable":
            return bool(pkg.request_disable("use", *op["vals"]))
        if k == "rollback":
            pkg.rollback(op["point"])
            return "ok"
        if k == "commit":
            pkg.commit()
            return "ok"
        if k == "wrapped":
            f = pkg.request_enable if op["enable"] else pkg.request_disable
            return bool(f(op["attr"], atom(op["atom"])))
        raise AssertionError(k)
    except (KeyError, TypeError) as e:
        return type(e).__name__
    except Exception as e:          # anything else is reported verbatim by the caller
        return "exc:" + type(e).__name__


def run_history(ctx, fx, key, immutable, enabled, ops, tag):
    raw = fx.raw[key]
    pkg = fx.configure(key, immutable, enabled)
    spec = fx.meta[key]
    changeable_expected = set(spec["iuse"]) - set(immutable)
    for f in UNIVERSE:
        if (f in pkg._unchangable) != (f not in changeable_expected):
            ctx.mismatch({"pkg": spec, "flag": f}, "unchangeable-flag glue differs from InvertedContains(IUSE - immutable)")
            return
    changeable = sorted(f for f in UNIVERSE if f in changeable_expected)
    init = sorted(enabled)
    mreq = {"cmd": "c14.run", "variant": "fixed", "init": init, "changeable": changeable, "ops": ops}
    return pkg, raw, mreq


def check_history(ctx, fx, case, pkg, raw, ops, rep, tag):
    """edges A and C for one history, given the model's trace"""
    if rep == "bad-op" or len(rep) != len(ops):
        ctx.mismatch(case, "driver rejected the history")
        return
    seen_values = {}
    nontrivial = False
    any_change = False
    for i, (op, m) in enumerate(zip(ops, rep)):
        before = frozenset(pkg.use)
        step_case = dict(case, failing_step=i, op=op)
        if op["op"] == "readfault":
            try:
                kind, got = faulty_read(pkg, op["attr"])
            except Exception as e:
                ctx.violation(step_case, f"reading {op['attr']} with a failing raw attribute raised {type(e).__name__}: {e}")
                return
            now = frozenset(pkg.use)
            ctx.count("readfault_" + kind)
            if now != before:
                ctx.violation(step_case, f"a read changed the USE set {sorted(before)} -> {sorted(now)}")
                return
            # ---- the property on the real code: a value, if any, is the raw attribute under the current USE set
            if kind == "value" and got != raw_value(fx, raw, op["attr"], now):
                ctx.violation(step_case, f"{op['attr']} reads {got!r} (raw attribute not consulted) but the raw attribute under the "
                                         f"current USE {sorted(now)} is {raw_value(fx, raw, op['attr'], now)!r}")
                return
            mkind = "value" if isinstance(m["out"], dict) else m["out"]
            if mkind != kind or m["spec_out"] != m["out"] and mkind == "raised":
                ctx.mismatch(step_case, f"faulty read: implementation {kind}, model {m['out']!r}, reference {m['spec_out']!r}")
                return
            continue
        if op["op"] == "read":
            try:
                got = canon(op["attr"], getattr(pkg, op["attr"]))
            except Exception as e:
                ctx.violation(step_case, f"reading {op['attr']} raised {type(e).__name__}: {e}")
                return
            now = frozenset(pkg.use)
            want = raw_value(fx, raw, op["attr"], now)
            if got != want:
                ctx.violation(step_case, f"{op['attr']} reads {got!r} but the raw attribute under the current USE {sorted(now)} is {want!r}")
                return
            snap = m["out"].get("value") if isinstance(m["out"], dict) else None
            if snap is None or raw_value(fx, raw, op["attr"], snap) != got or set(snap) != set(now):
                ctx.mismatch(step_case, f"model read computed from {snap}, implementation USE {sorted(now)}")
                return
            so = m["spec_out"]
            if not isinstance(so, dict) or set(so.get("value", ())) != set(now):
                ctx.mismatch(step_case, "reference object read differs from the current USE set")
                return
            vals = seen_values.setdefault(op["attr"], set())
            vals.add(got)
            if len(vals) > 1:
                nontrivial = True
            ctx.count("read_" + op["attr"])
            continue
        out = apply_impl(pkg, op)
        after = frozenset(pkg.use)
        ctx.count("op_%s_%s" % (op["op"], out))
        if after != before:
            any_change = True
        if isinstance(out, str) and out.startswith("exc:"):
            ctx.violation(step_case, f"operation raised {out[4:]}")
            return
        mout = m["out"]
        if op["op"] == "wrapped" and out == "TypeError":
            # ContainmentMatch/AndRestriction.force_* arity problem inside pkgcore.restrictions (outside this property):
            # the request escapes before touching the USE set; nothing to compare but the set must be intact
            ctx.count("wrapped_request_TypeError")
            if after != before:
                ctx.violation(step_case, "a request that raised changed the USE set")
            return
        # ---- the property on the real code (edge C)
        if op["op"] in ("enable", "disable", "wrapped") and out is False and after != before:
            in_class = set(m["use"]) != set(m["spec_use"])
            detail = (f"refused {op['op']} {op.get('vals')} changed the USE set from {sorted(before)} to {sorted(after)}")
            ctx.violation(step_case, detail, finding=FINDING if in_class else None)
            if not in_class:
                return
            ctx.count("finding_class_hit")
        if out == "KeyError" and op["op"] in ("enable", "disable") and after != before:
            ctx.violation(step_case, f"request escaped with KeyError after changing the USE set {sorted(before)} -> {sorted(after)}")
            return
        # ---- model vs implementation (edge A)
        if mout != out or set(m["use"]) != set(after) or m["count"] != pkg.changes_count():
            ctx.mismatch(step_case, f"implementation: {out!r} USE {sorted(after)} count {pkg.changes_count()}; "
                                    f"model: {mout!r} USE {sorted(m['use'])} count {m['count']}")
            return
        # ---- reference object vs implementation, outside the finding class
        if set(m["use"]) == set(m["spec_use"]) and (m["spec_out"] != out or m["spec_count"] != m["count"]):
            ctx.mismatch(step_case, f"reference object: {m['spec_out']!r} count {m['spec_count']}; implementation {out!r}")
            return
    ctx.count("history_len_%d" % min(40, len(ops) // 5 * 5))
    ctx.case(case, nontrivial and any_change, key=tag)


CORPUS_PKG = {"iuse": ["a", "b", "c"], "RDEPEND": "a? ( dep/a ) !b? ( dep/nb ) c? ( a? ( dep/ca ) ) dep/always",
              "LICENSE": "a? ( GPL-2 ) MIT", "REQUIRED_USE": "a? ( b )", "RESTRICT": "c? ( test )",
              "SRC_URI": "a? ( http://h/a.tar ) http://h/b.tar", "DEPEND": "x? ( dep/x ) !a? ( dep/na )",
              "BDEPEND": "dep/w[a(+)?] dep/x[c(-)=,!a?] dep/always", "PDEPEND": "dep/y[!c(+)=] dep/z[a?]", "IDEPEND": "dep/w[c=]"}


def R(*attrs):
    return [{"op": "read", "attr": a} for a in (attrs or ("rdepend", "license", "fetchables"))]


def F(*attrs):
    return [{"op": "readfault", "attr": a} for a in attrs]


def corpus():
    """boundary cases from why_tests_cant and from every defect found; (immutable, enabled, ops)"""
    E = lambda *v: [{"op": "enable", "vals": list(v)}]
    D = lambda *v: [{"op": "disable", "vals": list(v)}]
    RB = lambda p: [{"op": "rollback", "point": p}]
    C = [{"op": "commit"}]
    W = lambda a, en=True: [{"op": "wrapped", "attr": "rdepend", "atom": a, "enable": en}]
    return [
        # read, disable, read  (defect: disable did not invalidate the cache)
        (["b"], ["a", "b", "x"], R() + D("a") + R()),
        # read, enable, commit, read (defect: commit reset the generation to 0)
        (["b"], ["b", "x"], R() + E("a") + C + R()),
        # enable, read, commit, disable, read; generation 1 revived
        (["b"], ["b"], E("a") + R() + C + E("c") + R() + C + D("a") + R()),
        # disable of an absent locked flag after a real removal (defect: KeyError after partial application)
        (["b"], ["a", "b"], R() + D("a", "y") + R() + D("y") + R()),
        # refused requests with real changes before the refusing flag
        (["b"], ["b"], R() + E("a", "y") + R() + D("a", "b") + R()),
        # open finding: refused request after a no-op change
        (["b"], ["a", "b"], R() + E("a", "y") + R()),
        (["b"], ["b"], R() + D("c", "b") + R()),
        # rollback to every point, invalid points, reads in between
        ([], ["x"], E("a") + R() + E("b") + R() + D("c") + R() + RB(5) + RB(-1) + RB(2) + R() + RB(1) + R() + RB(0) + R()),
        # flip-flop inside one transaction is refused, allowed after commit
        ([], [], E("a") + D("a") + R() + C + D("a") + R() + E("a") + R()),
        # requests on a wrapped attribute
        (["b"], ["b"], R() + W("dep/a") + R() + W("dep/always", False) + R() + W("dep/nb") + W("dep/ca") + R()),
        # duplicates inside one request
        ([], ["b"], E("a", "a") + R() + D("b", "b") + R() + RB(1) + R()),
        # attributes that depend on a flag only through transitive USE deps ([a(+)?], [c(-)=], [!c(+)=], [a?], [c=]):
        # read, toggle one flag with a granted request, read again -- no rollback/commit in between
        (["b"], ["b"], R("bdepend", "pdepend", "idepend") + E("a") + R("bdepend", "pdepend", "idepend") + E("c")
         + R("bdepend", "pdepend", "idepend")),
        (["b"], ["a", "b", "c"], R("bdepend", "pdepend", "idepend") + D("c") + R("bdepend", "pdepend", "idepend") + D("a")
         + R("bdepend", "pdepend", "idepend")),
        # the raw attribute raises once (lazily loaded metadata) and the caller reads again: on the very first read, after
        # an enable / disable / rollback / commit, and while the cached value is still current (raw attribute not consulted)
        (["b"], ["b"], F("rdepend") + R("rdepend") + F("rdepend") + E("a") + F("rdepend") + R("rdepend") + D("a") + F("rdepend", "license")
         + R("rdepend", "license") + E("c") + R("rdepend") + RB(0) + F("rdepend") + R("rdepend") + E("a") + C + F("rdepend", "fetchables")
         + R("rdepend", "fetchables")),
    ]


def run(ctx):
    from pkgcore.ebuild.atom import atom  # noqa: F401  (import check)
    rng = ctx.rng
    batch = []   # (case, pkg, raw, ops, request)

    def flush(fx):
        reps = ctx.model([b[4] for b in batch])
        for (case, pkg, raw, ops, _, tag), rep in zip(batch, reps):
            check_history(ctx, fx, case, pkg, raw, ops, rep, tag)
        batch.clear()

    def enqueue(fx, key, immutable, enabled, ops, tag):
        r = run_history(ctx, fx, key, immutable, enabled, ops, tag)
        if r is None:
            return
        pkg, raw, mreq = r
        case = {"package": fx.meta[key], "immutable": sorted(immutable), "enabled": sorted(enabled), "ops": ops}
        batch.append((case, pkg, raw, ops, mreq, tag))

    # ---- corpus (and replayed cases) on a fixed package
    fx = Fixture(rng, 0, fixed=[CORPUS_PKG])
    try:
        if ctx.replay_cases:
            for c in ctx.replay_cases:
                if c.get("package") == CORPUS_PKG:
                    enqueue(fx, "cat/p0", c["immutable"], c["enabled"], c["ops"], "replay")
        for n, (imm, en, ops) in enumerate(corpus()):
            enqueue(fx, "cat/p0", imm, en, ops, "corpus%d" % n)
        flush(fx)
        if not ctx.quick():
            # bounded-exhaustive: every history of length <= 4 over a 10-operation alphabet, two initial states,
            # three reads after every operation
            alpha = [{"op": "enable", "vals": ["a"]}, {"op": "enable", "vals": ["c"]}, {"op": "enable", "vals": ["a", "y"]},
                     {"op": "disable", "vals": ["a"]}, {"op": "disable", "vals": ["c"]}, {"op": "disable", "vals": ["a", "b"]},
                     {"op": "disable", "vals": ["y", "c"]}, {"op": "rollback", "point": 0}, {"op": "rollback", "point": 1},
                     {"op": "commit"}]
            n = 0
            for init in (["b"], ["a", "b", "x"]):
                for L in range(1, 5):
                    for seq in itertools.product(alpha, repeat=L):
                        ops = R("rdepend")
                        for o in seq:
                            ops = ops + [o] + R("rdepend", "license", "depend")
                        enqueue(fx, "cat/p0", ["b"], init, ops, "exh%d" % n)
                        n += 1
                        if len(batch) >= 2000:
                            flush(fx)
            flush(fx)
            ctx.extra["exhaustive_histories"] = n
    finally:
        fx.close()

    # ---- generated repositories and histories
    nrepos = ctx.n(3, 30)
    per_repo = ctx.n(800, 1500)
    for r in range(nrepos):
        fx = Fixture(rng, 8)
        try:
            keys = sorted(fx.meta)
            for h in range(per_repo):
                key = rng.choice(keys)
                spec = fx.meta[key]
                iuse = spec["iuse"]
                immutable = [f for f in UNIVERSE if rng.random() < 0.15]
                enabled = [f for f in UNIVERSE if rng.random() < 0.4]
                changeable = sorted((set(iuse) - set(immutable)) & set(UNIVERSE))
                rd = spec.get("RDEPEND", "")
                watoms = [t for t in rd.split() if "/" in t and not t.startswith("!")][:4] + ["dep/none"]
                ops = gen_history(rng, changeable, enabled, watoms)
                ctx.count("changeable_%d" % len(changeable))
                enqueue(fx, key, immutable, enabled, ops, f"{ctx.seed}:{r}:{h}")
            flush(fx)
        finally:
            fx.close()
    ctx.traces = ctx.evaluations
