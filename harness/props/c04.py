"""C04 — atom.match is PMS dependency semantics."""
import copy
import itertools

from props.c02 import SLOT_POOL, gen_slot_name, gen_ver, mutate_ver, near_slot_name, parse_ver, render_ver, respell

PID = "C04"
LEAN_MODULES = ["Pkgcore.Props.C04"]
OBLIGATIONS = [
    "Pkgcore.C04.match_eq_spec",
    "Pkgcore.C04.match_negate_vers",
    "Pkgcore.C04.glob_is_component_prefix",
    "Pkgcore.C04.glob_examples",
    "Pkgcore.C04.useDeps_eq_spec",
    "Pkgcore.C04.usedep_default_correct",
    "Pkgcore.C04.usedep_all_disabled",
    "Pkgcore.C04.blocker_matches_same",
    "Pkgcore.C04.match_respects_version_equality",
]
TRUSTED = [
    "atom.__init__ parsing and FakePkg construction are exercised, not modelled: each generated atom/package is rendered to text, built through the "
    "public constructors and its attributes (category, package, op, version, revision, slot, subslot, repo_id, use tuple; package slot/subslot/"
    "repo.repo_id/iuse_stripped/use) are compared with the model input before matching",
    "USE dep tokens are modelled lexed (flag, sign, default); the lexing in _parse_nontransitive_use (token[-1]==')', token[-2]=='+', token[:-3], "
    "token[0]=='-') is covered by the correspondence run",
    "Python sets are lists used through membership only; PackageRestriction's missing-attribute path (returns negate) is not modelled: packages have every attribute",
    "C01's theorem verCmp = pmsCmp and C02's ver_hash_key model are imported",
]
ASSUMPTIONS = [
    "USE deps are non-transitive (flag, -flag, with optional (+)/(-)); conditional deps (x?, !x?, x=, !x=) make a transitive_use_atom whose restrictions are "
    "Conditionals over the parent's USE and are resolved by evaluate_conditionals before matching (C09)",
    "negate_vers (a pkgcore extension outside the property) is covered by match_negate_vers for the six comparison operators and ~; VersionGlobMatch "
    "ignores it, as the code before the fix did",
    "for a USE dep without a default on a flag outside IUSE (a PMS error) the flag's state is read from USE",
    "=* compares components the PMS way (so =1.0* and =1.00* match the same packages, like the equal atoms they are after C02), not textually",
]
RULE = ("(atom, package) pairs over 2 categories x 2 names; versions from a pool closed under respelling/extension (1, 01, 1.0, 1.00, 1.0.0, 1.1, 1.10, "
        "1.01, 10, 1a, 1_p, 1_p0, 1_p1, 1_pre, ...) plus random ones; the package is usually derived from the atom (same key, version = atom's version, a "
        "respelling, an extension by a component/letter/suffix/revision, or a mutation; slot/sub-slot/repo/USE chosen to satisfy or to break exactly one "
        "constraint); non-trivial = category and package name agree, so the verdict depends on version/slot/repo/USE")

CATS = ["a", "b"]
PKGS = ["b", "bb"]
OPS = ["", "<", "<=", "=", "=*", ">=", ">", "~"]
FLAGS = ["x", "y", "z", "w"]
REPOS = ["", "gentoo", "other", "Gentoo"]
REVS = ["", "", "", "0", "1", "01", "2", "10"]
VPOOL = ["1", "01", "1.0", "1.00", "1.0.0", "1.1", "1.10", "1.01", "1.010", "10", "1a", "1b", "1.0a", "1_p", "1_p0", "1_p1", "1_pre", "1_pre1",
         "1_rc1_p", "1_p_p", "1_alpha", "2", "0.9", "1.2.3", "1.2.30", "1.2.3.4"]


def gen_version(rng):
    return parse_ver(rng.choice(VPOOL)) if rng.random() < 0.7 else gen_ver(rng)


def extend_ver(rng, v):
    """a version that has v's written components as a prefix (when possible)"""
    v = copy.deepcopy(v)
    k = rng.randrange(4)
    if k == 0 and v["letter"] is None and not v["sufs"]:
        v["comps"].append(rng.choice(["0", "1", "00", "10"]))
    elif k == 1 and v["letter"] is None and not v["sufs"]:
        v["letter"] = rng.choice(["a", "b"])
    elif k == 2:
        v["sufs"].append([rng.choice(["alpha", "beta", "pre", "rc", "p"]), rng.choice(["", "0", "1"])])
    elif v["letter"] is None and not v["sufs"]:
        v["comps"][-1] = v["comps"][-1] + rng.choice(["0", "1"])      # 1 -> 10: NOT an extension on a component boundary
    return v


def gen_usedeps(rng):
    if rng.random() < 0.45:
        return None
    out = []
    for f in rng.sample(FLAGS, rng.randint(1, 4)):
        out.append({"flag": f, "on": rng.random() < 0.5, "dflt": rng.choice([None, None, True, False])})
    if rng.random() < 0.1:
        out.append(dict(out[0]))
    return out


def usedep_text(u):
    return ("" if u["on"] else "-") + u["flag"] + {None: "", True: "(+)", False: "(-)"}[u["dflt"]]


def gen_atom(rng):
    a = {"cat": rng.choice(CATS), "pkg": rng.choice(PKGS), "op": rng.choice(OPS), "ver": None, "rev": None, "negate": False,
         "blocks": False, "strong": False, "slot": None, "subslot": None, "slotop": None, "repo": None, "use": None}
    if a["op"]:
        a["ver"] = gen_version(rng)
        a["rev"] = "" if a["op"] == "~" else rng.choice(REVS)
    k = rng.random()
    if k < 0.15:
        a["blocks"] = True
    elif k < 0.25:
        a["blocks"] = a["strong"] = True
    k = rng.random()
    if k < 0.4:
        a["slot"] = gen_slot_name(rng)
        if rng.random() < 0.5:
            a["subslot"] = gen_slot_name(rng)
        if rng.random() < 0.2:
            a["slotop"] = "="
    elif k < 0.5:
        a["slotop"] = rng.choice(["=", "*"])
    a["use"] = gen_usedeps(rng)
    if rng.random() < 0.3:
        a["repo"] = rng.choice(REPOS[1:])
    if a["op"] and rng.random() < 0.06:
        a["negate"] = True
    return a


def atom_text(a):
    cpv = f"{a['cat']}/{a['pkg']}"
    if a["op"]:
        cpv += "-" + render_ver(a["ver"]) + ("-r" + a["rev"] if a["rev"] != "" else "")
    s = ("=" + cpv + "*") if a["op"] == "=*" else a["op"] + cpv
    s = ("!!" if a["strong"] else "!" if a["blocks"] else "") + s
    if a["slot"]:
        s += ":" + a["slot"] + ("/" + a["subslot"] if a["subslot"] else "") + ("=" if a["slotop"] == "=" else "")
    elif a["slotop"]:
        s += ":" + a["slotop"]
    if a["repo"]:
        s += "::" + a["repo"]
    if a["use"] is not None:
        s += "[" + ",".join(usedep_text(u) for u in a["use"]) + "]"
    return s


def gen_pkg(rng):
    iuse = rng.sample(FLAGS, rng.randint(0, 4))
    use = [f for f in iuse if rng.random() < 0.5]
    if rng.random() < 0.08:
        use.append(rng.choice(FLAGS))          # pathological: enabled flag outside IUSE
        use = sorted(set(use))
    slot = gen_slot_name(rng)
    return {"cat": rng.choice(CATS), "pkg": rng.choice(PKGS), "ver": gen_version(rng), "rev": rng.choice(REVS), "slot": slot,
            "subslot": slot if rng.random() < 0.3 else gen_slot_name(rng), "repo": rng.choice(REPOS), "iuse": iuse, "use": use}


def pkg_for(rng, a):
    """a package chosen with the atom in view"""
    p = gen_pkg(rng)
    if rng.random() < 0.92:
        p["cat"], p["pkg"] = a["cat"], a["pkg"]
    if a["op"]:
        k = rng.random()
        if k < 0.2:
            p["ver"], p["rev"] = copy.deepcopy(a["ver"]), a["rev"]
        elif k < 0.4:
            p["ver"], p["rev"] = respell(rng, a["ver"], a["rev"])
        elif k < 0.65:
            p["ver"], p["rev"] = extend_ver(rng, a["ver"]), rng.choice([a["rev"], a["rev"], ""] + REVS)
        elif k < 0.8:
            p["ver"], p["rev"] = mutate_ver(rng, a["ver"]), rng.choice([a["rev"]] + REVS)
        elif k < 0.9:
            p["ver"], p["rev"] = copy.deepcopy(a["ver"]), rng.choice(REVS + ["3", "11"])
    # slot / sub-slot: the atom's own name, a name close to it (other letter case, numeric neighbour, one component more or less, ...), or unrelated
    for f in ("slot", "subslot"):
        if a[f]:
            k = rng.random()
            if k < 0.7:
                p[f] = a[f]
            elif k < 0.9:
                p[f] = near_slot_name(rng, a[f])
    if a["repo"] and rng.random() < 0.75:
        p["repo"] = a["repo"]
    if a["use"] and rng.random() < 0.7:
        # satisfy every dep, then maybe break one
        iuse, use = set(p["iuse"]), set(p["use"])
        for u in a["use"]:
            if u["dflt"] is None or rng.random() < 0.5:
                iuse.add(u["flag"])
            else:
                iuse.discard(u["flag"])
                use.discard(u["flag"])
            if u["flag"] in iuse:
                (use.add if u["on"] else use.discard)(u["flag"])
        if rng.random() < 0.5:
            u = rng.choice(a["use"])
            k = rng.random()
            if k < 0.5 and u["flag"] in iuse:
                (use.discard if u["flag"] in use else use.add)(u["flag"])
            elif k < 0.8:
                (iuse.discard if u["flag"] in iuse else iuse.add)(u["flag"])
                if u["flag"] not in iuse:
                    use.discard(u["flag"])
        p["iuse"], p["use"] = sorted(iuse), sorted(use)
    return p


def pkg_text(p):
    return f"{p['cat']}/{p['pkg']}-{render_ver(p['ver'])}" + ("-r" + p["rev"] if p["rev"] != "" else "")


def A(op="", ver=None, rev=None, use=None, **k):
    a = {"cat": "a", "pkg": "b", "op": op, "ver": parse_ver(ver) if ver else None, "rev": ("" if rev is None else rev) if op else None, "negate": False,
         "blocks": False, "strong": False, "slot": None, "subslot": None, "slotop": None, "repo": None, "use": None}
    a.update(k)
    if use is not None:
        a["use"] = [U(t) for t in use]
    return a


def U(t):
    on = not t.startswith("-")
    t = t.lstrip("-")
    dflt = None
    if t.endswith(")"):
        dflt = t[-2] == "+"
        t = t[:-3]
    return {"flag": t, "on": on, "dflt": dflt}


def P(ver="1", rev="", slot="0", subslot=None, repo="", iuse=(), use=(), cat="a", pkg="b"):
    return {"cat": cat, "pkg": pkg, "ver": parse_ver(ver), "rev": rev, "slot": slot, "subslot": slot if subslot is None else subslot, "repo": repo,
            "iuse": list(iuse), "use": list(use)}


CORPUS = [
    # the glob defect (fixed): string prefix on fullver
    (A("=*", "1"), P("10")), (A("=*", "1"), P("1")), (A("=*", "1"), P("1.0")), (A("=*", "1"), P("1a")), (A("=*", "1"), P("1_p1")),
    (A("=*", "1"), P("1", rev="2")), (A("=*", "1.0"), P("1.00")), (A("=*", "1.00"), P("1.0")), (A("=*", "1.0"), P("1.00.5")),
    (A("=*", "1", rev="1"), P("1", rev="10")), (A("=*", "1", rev="1"), P("1", rev="1")), (A("=*", "1", rev="1"), P("1", rev="01")),
    (A("=*", "1", rev="0"), P("1", rev="3")), (A("=*", "1_p"), P("1_p1")), (A("=*", "1_p"), P("1_p0")), (A("=*", "1_p"), P("1_p_p")),
    (A("=*", "1_p"), P("1_pre")), (A("=*", "1a"), P("1a_p")), (A("=*", "1a"), P("1b")), (A("=*", "1a"), P("1.0a")), (A("=*", "01"), P("1.2")),
    (A("=*", "1.2"), P("1")), (A("=*", "1.2"), P("1.2.0")), (A("=*", "1.2"), P("1.2_alpha")), (A("=*", "1.2"), P("1.20")),
    (A("=*", "1.2.3"), P("1.2.30")), (A("=*", "1_p1"), P("1_p10")),
    # USE deps: several disabled flags (fixed: was "not all enabled")
    (A(use=["-x", "-y"]), P(iuse="xy", use="x")), (A(use=["-x", "-y"]), P(iuse="xy", use="")), (A(use=["-x", "-y"]), P(iuse="xy", use="xy")),
    (A(use=["-x(-)", "-y(-)"]), P(iuse="xy", use="x")), (A(use=["-x(+)", "-y(+)"]), P(iuse="x", use="x")), (A(use=["-x(-)", "-y(-)"]), P(iuse="x", use="x")),
    (A(use=["-x(-)", "-y(-)", "-z(-)"]), P(iuse="xy", use="y")), (A(use=["x", "y"]), P(iuse="xy", use="x")),
    # defaults: sign x default x presence
    (A(use=["x(+)"]), P()), (A(use=["x(-)"]), P()), (A(use=["-x(+)"]), P()), (A(use=["-x(-)"]), P()),
    (A(use=["x(+)"]), P(iuse="x")), (A(use=["x(-)"]), P(iuse="x", use="x")), (A(use=["-x(+)"]), P(iuse="x", use="x")), (A(use=["-x(-)"]), P(iuse="x")),
    (A(use=["x(+)", "y(-)"]), P(iuse="y")), (A(use=["x(+)", "y(-)"]), P(iuse="y", use="y")), (A(use=["x"]), P(use="x")), (A(use=["-x"]), P()),
    # instance-cache aliasing between USE restrictions (fixed): the first atom of each pair stays alive while the second one is matched
    (A(use=["x(+)", "-y(+)"]), P(iuse="y")), (A(use=["x(-)", "-y(-)"]), P(iuse="y")), (A(use=["x", "-y"]), P(iuse="y")),
    (A(use=["z(+)", "-w(+)"]), P(iuse="zw", use="z")), (A(use=["z", "-w"]), P(iuse="zw", use="z")), (A(use=["z(-)", "-w(-)"]), P(iuse="z", use="z")),
    # operators, ~, revisions
    (A("~", "1"), P("1", rev="3")), (A("~", "1.0"), P("1.00", rev="1")), (A("~", "1"), P("1.0")), (A("=", "1"), P("1", rev="0")), (A("=", "1"), P("1", rev="1")),
    (A(">=", "2.1.0_pre3", rev="5"), P("2.1_pre3", rev="5")), (A("=", "0.7"), P("0.7.0")), (A("<", "1", rev="1"), P("1")), (A(">", "1"), P("1", rev="1")),
    (A("<=", "1.0"), P("1.00")), (A("=", "1", negate=True), P("1")), (A("=", "1", negate=True), P("2")), (A("=*", "1", negate=True), P("1")),
    # slots, sub-slots, operators, repos, blockers
    (A(slot="0"), P(slot="0")), (A(slot="0", subslot="1"), P(slot="0", subslot="1")), (A(slot="0", subslot="1"), P(slot="0")), (A(slot="0", slotop="="), P(slot="0")),
    (A(slotop="="), P(slot="3")), (A(slotop="*"), P(slot="3")), (A(slot="1"), P(slot="0")), (A(repo="gentoo"), P(repo="gentoo")), (A(repo="other"), P(repo="gentoo")),
    (A(slot="stable"), P(slot="Stable")), (A(slot="0", subslot="2a"), P(slot="0", subslot="2A")), (A(slot="1"), P(slot="01")), (A(slot="1.2"), P(slot="1")),
    (A(slot="1"), P(slot="1.2")), (A(slot="0", slotop="="), P(slot="00")),
    (A(repo="gentoo"), P(repo="Gentoo")), (A(slot="5.1-LTS", blocks=True), P(slot="5.1-lts")),
    (A(repo="gentoo"), P()), (A(blocks=True), P()), (A(blocks=True, strong=True), P()), (A("=*", "1", blocks=True), P("10")), (A(), P(pkg="bb")), (A(), P(cat="b")),
]


SLOT_SHAPES = [dict(), dict(blocks=True), dict(blocks=True, strong=True), dict(slotop="="), dict(repo="gentoo"), dict(op="=", ver="1"),
               dict(op=">=", ver="0.9", rev="1", use=["-x(-)"])]


def run(ctx):
    from pkgcore.ebuild.atom import atom
    from pkgcore.test.misc import FakePkg, FakeRepo

    rng = ctx.rng
    cases = [(a, p, "corpus") for a, p in CORPUS]
    if ctx.replay_cases:
        cases = [(c["atom"], c["pkg"], "replay") for c in ctx.replay_cases if "atom" in c and "pkg" in c] + cases
    for _ in range(ctx.n(9000, 150000)):
        a = gen_atom(rng)
        if rng.random() < 0.85:
            cases.append((a, pkg_for(rng, a), "derived"))
        else:
            cases.append((a, gen_pkg(rng), "random"))
    if not ctx.quick():
        vers = ["1", "01", "1.0", "1.00", "1.0.1", "1.1", "1.10", "10", "1a", "1_p", "1_p1", "1_pre"]
        atoms = [A()]
        for op in OPS[1:]:
            for v in vers:
                for r in ([""] if op == "~" else ["", "0", "1"]):
                    atoms.append(A(op, v, r))
        uses = [None, ["x"], ["-x", "-y"], ["x(+)", "-y(-)"], ["-x(+)", "y(-)"]]
        slots = [(None, None), ("0", None), ("0", "1")]
        atoms = [dict(a, slot=s, subslot=ss, use=None if u is None else [U(t) for t in u]) for a in atoms for s, ss in slots for u in uses]
        pkgs = [P(v, rev=r, slot=s, subslot=ss, iuse=iu, use=us) for v in vers + ["1.0.0", "1_p_p", "2"] for r in ["", "1", "10"]
                for s, ss in [("0", "0"), ("0", "1"), ("1", "1")] for iu, us in [("", ""), ("xy", ""), ("xy", "x"), ("xy", "xy"), ("x", "x"), ("y", "")]]
        for a in atoms:
            for p in rng.sample(pkgs, 40):
                cases.append((a, p, "exhaustive"))
        ctx.extra["bounded_universe"] = {"atoms": len(atoms), "packages": len(pkgs), "pairs_sampled_per_atom": 40}
        glob_atoms = [a for a in atoms if a["op"] == "=*" and a["slot"] is None and a["use"] is None]
        plain = [p for p in pkgs if p["slot"] == "0" and p["subslot"] == "0" and not p["iuse"]]
        for a, p in itertools.product(glob_atoms, plain):
            cases.append((a, p, "exhaustive-glob"))
        ctx.extra["exhaustive_glob_pairs"] = len(glob_atoms) * len(plain)

    # bounded universe of slot / sub-slot names: every (atom name, package name) pair, everything else satisfied
    shapes = SLOT_SHAPES if not ctx.quick() else [SLOT_SHAPES[rng.randrange(len(SLOT_SHAPES))]]
    for shape in shapes:
        for n, m in itertools.product(SLOT_POOL, SLOT_POOL):
            cases.append((A(slot=n, **shape), P(slot=m, subslot=rng.choice([m, n, "0"]), repo="gentoo"), "slot-universe"))
            cases.append((A(slot="0", subslot=n, **shape), P(slot="0", subslot=m, repo="gentoo"), "slot-universe"))
            if not ctx.quick():
                cases.append((A(slot=n, subslot=n, **shape), P(slot=m, subslot=n, repo="gentoo"), "slot-universe"))
                cases.append((A(slot=n, subslot=n, **shape), P(slot=n, subslot=m, repo="gentoo"), "slot-universe"))
    reqs = [{"cmd": "c04.match", "atom": a, "pkg": p} for a, p, _ in cases]
    repos = {r: FakeRepo(repo_id=r) for r in REPOS}
    # atoms are kept alive for a while: restrictions are instance-cached by argument equality, so what an atom matches must not depend on which other
    # atoms exist (defect fixed in the repo: a/b[x(+),-y(+)] alive made a/b[x(-),-y(-)] reuse its USE restriction)
    alive = []
    for (a, p, rel), rep in zip(cases, ctx.model(reqs)):
        ta, tp = atom_text(a), pkg_text(p)
        case = {"atom": a, "pkg": p, "atom_text": ta, "negate_vers": a["negate"], "pkg_text": tp,
                "pkg_attrs": {k: p[k] for k in ("slot", "subslot", "repo", "iuse", "use")}, "relation": rel}
        if rep == "bad-op":
            ctx.mismatch(case, "driver rejected the request")
            continue
        try:
            oa = atom(ta, negate_vers=a["negate"])
            eapi = rng.choice(["5", "7", "8"])
            iuse = [rng.choice(["", "", "+", "-"]) + f for f in p["iuse"]]
            op = FakePkg(tp, eapi=eapi, slot=p["slot"], subslot=p["subslot"], iuse=frozenset(iuse), use=frozenset(p["use"]),
                         repo=repos.get(p["repo"]) or FakeRepo(repo_id=p["repo"]))
        except Exception as e:
            ctx.mismatch(case, f"generated atom/package rejected by the constructor: {type(e).__name__}: {e}")
            continue
        alive.append(oa)
        if len(alive) > 4000:
            del alive[:1500]
        # glue: what the constructors produced is what the model was given
        want_a = (a["cat"], a["pkg"], a["op"], None if a["ver"] is None else render_ver(a["ver"]), None if a["ver"] is None else int(a["rev"] or 0),
                  a["slot"], a["subslot"], a["repo"], None if a["use"] is None else tuple(sorted(usedep_text(u) for u in a["use"])), a["negate"])
        got_a = (oa.category, oa.package, oa.op, oa.version, None if oa.revision is None else int(oa.revision or 0), oa.slot, oa.subslot, oa.repo_id, oa.use,
                 oa.negate_vers)
        want_p = (p["cat"], p["pkg"], render_ver(p["ver"]), int(p["rev"] or 0), p["slot"], p["subslot"], p["repo"], frozenset(p["iuse"]), frozenset(p["use"]))
        got_p = (op.category, op.package, op.version, int(op.revision or 0), op.slot, op.subslot, op.repo.repo_id, frozenset(op.iuse_stripped), frozenset(op.use))
        if want_a != got_a or want_p != got_p:
            ctx.mismatch(case, f"constructors produced atom {got_a} / package {got_p}; model input {want_a} / {want_p}")
            continue
        try:
            impl = bool(oa.match(op))
        except Exception as e:
            ctx.violation(case, f"atom.match raised {type(e).__name__}: {e}")
            continue
        nontriv = a["cat"] == p["cat"] and a["pkg"] == p["pkg"]
        ctx.case(case, nontriv, key=f"{ta}|{a['negate']}|{tp}|{p['slot']}|{p['subslot']}|{p['repo']}|{','.join(p['iuse'])}|{','.join(p['use'])}")
        ctx.count("rel_" + rel)
        ctx.count("op_" + (a["op"] or "none"))
        ctx.count("match_%s" % impl)
        if nontriv:
            ctx.count("samekey_match_%s" % impl)
        if a["use"] is not None:
            ctx.count("usedeps_%d" % len(a["use"]))
            if any(u["dflt"] is not None and u["flag"] not in p["iuse"] for u in a["use"]):
                ctx.count("usedep_default_applies")
        if a["slot"]:
            ctx.count("with_slot")
        if a["subslot"]:
            ctx.count("with_subslot")
        if a["repo"]:
            ctx.count("with_repo")
        if a["blocks"]:
            ctx.count("blocker")
        if a["negate"]:
            ctx.count("negate_vers")
        # (C) the property on the real code; negate_vers lies outside the property: there the model is the reference
        if not a["negate"]:
            if impl != rep["spec"]:
                ctx.violation(case, f"atom.match gives {impl}; PMS dependency semantics give {rep['spec']}")
                continue
        if impl != rep["model"]:
            ctx.mismatch(case, f"atom.match gives {impl}; the Lean model of atom.restrictions gives {rep['model']}")
            continue
        # a blocker matches the same packages as its non-blocking form
        if a["blocks"] and ctx.evaluations % 3 == 0:
            plain = dict(a, blocks=False, strong=False)
            other = bool(atom(atom_text(plain), negate_vers=a["negate"]).match(op))
            if other != impl:
                ctx.violation(case, f"the blocker matches={impl} but its non-blocking form {atom_text(plain)} matches={other}")


LEVEL_TEXT = ("Kernel-checked Lean 4 theorems over all well-formed atoms and packages: the model of atom.match (the conjunction of atom.restrictions: "
              "category, package, repository, VersionMatch / VersionGlobMatch, slot, sub-slot, the StaticUseDep/UseDepDefault grouping of USE deps) equals "
              "the PMS dependency semantics written from the property text (operators on the PMS order, ~ ignoring revisions, =* as a prefix on version "
              "components compared the PMS way, per-dep USE state with (+)/(-) defaults for flags outside IUSE); blockers and slot operators do not "
              "influence matching; matching is invariant under PMS-equal respelling of the package version. Tied to the code by a differential run on "
              "generated (atom, package) pairs through atom() and FakePkg, which also evaluates the PMS spec directly against the real atom.match.")
LEVEL_NOTE = ("Trusted: Lean kernel; standard axioms only; parsing/lexing glue (attributes compared on every case); C01's ver_cmp = PMS theorem. "
              "Conditional USE deps and the missing-attribute path are out of scope (see assumptions).")
