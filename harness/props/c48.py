"""C48 — cached metadata is used only while it is still valid."""
import hashlib
import itertools
import os
import shutil
import tempfile

PID = "C48"
LEAN_MODULES = ["Pkgcore.Props.C48"]
OBLIGATIONS = [
    "Pkgcore.C48.validate_iff_valid",
    "Pkgcore.C48.cache_used_iff_valid",
    "Pkgcore.C48.regenerated_iff_none_valid",
    "Pkgcore.C48.stale_entry_replaced",
    "Pkgcore.C48.stale_before_used_dropped",
    "Pkgcore.C48.second_read_uses_cache",
]
TRUSTED = [
    "sourcing an ebuild (the bash daemon) is a parameter of the model (fails / succeeds with a list of inherited eclasses); most "
    "correspondence cases inject a small Python stand-in through the documented `ebp=` argument, a few per run use the real daemon and "
    "also compare the stand-in's keys with the daemon's",
    "serialisation of cache entries (flat_hash files, reconstruct/deconstruct_eclasses, checksum (de)serialisers) is glue: entries are "
    "modelled after parsing; the harness parses the files independently and compares before/after states",
    "checksums, mtimes and directories are opaque values compared for equality",
]
ASSUMPTIONS = [
    "every cache format records at least one attribute per eclass (true of md5-dict: md5; flat: eclassdir+mtime)",
    "files are also replaced by different content with an older, equal or newer timestamp; an mtime-keyed (flat) entry whose recorded "
    "mtime equals the current one is valid by the property even if the content changed (the format cannot see it): such hits are "
    "counted and exempt from the contents-vs-scratch comparison only",
    "an entry listing eclasses but lacking INHERIT counts as not recording its inherits (the code's upgrade rule)",
]
RULE = ("a case = a master + overlay repository pair on disk (4 eclasses living in either/both, nested inherits, 3 ebuilds), 1-3 stacked caches "
        "(md5-dict / flat mtime format, read-only or not), populated through the real write path at two different moments, with tree "
        "edits in between and after (ebuild edit/touch, eclass edit/touch/removal/move between the repositories/shadowing) and entry "
        "tampering (INHERIT, checksum or _eclasses_ line dropped, garbled or altered); then every package's metadata is read; a few "
        "scenarios per run use the real bash daemon, including long-lived-process histories (the repository's regen operation with "
        "eclass preloading over a tree containing ebuilds that fail to source, then eclass edits, then reads through fresh repository "
        "objects with the pooled processors); "
        "non-trivial = some configured cache held an entry for the package at read time")
LEVEL_TEXT = ("Kernel-checked Lean 4 theorems about a model of validate_entry / rebuild_cache_entry / _get_metadata: validate_entry decides "
              "exactly 'records the current ebuild checksum and every recorded eclass still exists with every recorded attribute'; the cache "
              "walk uses the first valid entry of any stack of caches, regenerates iff none is valid, drops the stale entries it meets in "
              "writable caches, stores a fresh entry that is valid for the current tree in the first writable cache and uses it on the next "
              "read. Differential run on real repositories, caches and eclass stacks with real edits.")
LEVEL_NOTE = "Trusted: Lean kernel, standard axioms; the bash daemon (parameter), entry (de)serialisation; correspondence sampled."

ECLASSES = ["e1", "e2", "e3", "e4"]
PKGS = ["p", "q", "r"]


# ------------------------------------------------------------------ the tree on disk

def write(path, text, mtime):
    os.makedirs(os.path.dirname(path), exist_ok=True)
    with open(path, "w") as f:
        f.write(text)
    os.utime(path, (mtime, mtime))


class Tree:
    def __init__(self, rng):
        self.rng = rng
        self.top = tempfile.mkdtemp(prefix="verif-c48-")
        self.M, self.O = os.path.join(self.top, "m"), os.path.join(self.top, "o")
        for d, name, masters in ((self.M, "m", ""), (self.O, "o", "m")):
            for sub in ("profiles", "metadata", "eclass"):
                os.makedirs(os.path.join(d, sub))
            open(os.path.join(d, "profiles/repo_name"), "w").write(name + "\n")
            open(os.path.join(d, "profiles/categories"), "w").write("cat\n")
            open(os.path.join(d, "metadata/layout.conf"), "w").write(f"masters = {masters}\ncache-formats = md5-dict\n")
        self.clock = 1000
        self.old_clock = 900     # timestamps older than anything written so far
        self.serial = 0
        # eclasses: later names may inherit earlier ones (no cycles)
        for i, e in enumerate(ECLASSES):
            if rng.random() < 0.9:
                inh = [x for x in ECLASSES[:i] if rng.random() < 0.3]
                where = rng.choice([self.M, self.M, self.O, "both"])
                for d in ([self.M, self.O] if where == "both" else [where]):
                    self.write_eclass(d, e, inh)
        for p in PKGS:
            self.write_ebuild(p, [e for e in ECLASSES if rng.random() < 0.4], eapi_clash=rng.random() < 0.08)

    def tick(self):
        self.clock += 10
        return self.clock

    def eclass_path(self, d, e):
        return os.path.join(d, "eclass", e + ".eclass")

    def ebuild_path(self, p):
        return os.path.join(self.O, "cat", p, p + "-1.ebuild")

    def write_eclass(self, d, e, inh):
        self.serial += 1
        text = ("inherit %s\n" % " ".join(inh) if inh else "") + 'RDEPEND+=" cat/from-%s-x%d"\n' % (e, self.serial)
        write(self.eclass_path(d, e), text, self.tick())

    def write_ebuild(self, p, inh, eapi_clash=False):
        self.serial += 1
        text = ('EAPI=7\n' + ("inherit %s\n" % " ".join(inh) if inh else "") +
                'DESCRIPTION="package %s"\nSLOT=0\nKEYWORDS="amd64"\nRDEPEND+=" cat/own-%s-x%d"\n' % (p, p, self.serial))
        if eapi_clash:
            # metadata cannot be generated (EAPI set while sourcing != EAPI parsed from the file); the daemon survives this
            text += "EAPI=6\n"
        write(self.ebuild_path(p), text, self.tick())

    # --- the state as the harness sees it (independent of pkgcore)
    def eclass_lookup(self, e):
        for d in (self.O, self.M):        # overlay first, then master (StackedCaches order built by _sort_eclasses)
            path = self.eclass_path(d, e)
            if os.path.exists(path):
                return path
        return None

    @staticmethod
    def info(path):
        data = open(path, "rb").read()
        return {"md5": str(int(hashlib.md5(data).hexdigest(), 16)), "mtime": str(int(os.stat(path).st_mtime)),
                "dir": os.path.dirname(path)}

    def world(self, p):
        ecl = []
        for e in ECLASSES:
            path = self.eclass_lookup(e)
            if path:
                ecl.append(dict(self.info(path), name=e))
        return {"ebuild": self.info(self.ebuild_path(p)), "eclasses": ecl}

    def resolve(self, p):
        """what sourcing the ebuild yields now: (inherited names in completion order, direct inherits, RDEPEND) or None"""
        inherited, rdep = [], []

        def src(text):
            for line in text.split("\n"):
                if line.startswith("inherit "):
                    for e in line.split()[1:]:
                        if e in inherited:
                            continue
                        path = self.eclass_lookup(e)
                        if path is None:
                            raise LookupError(e)
                        src(open(path).read())
                        if e not in inherited:
                            inherited.append(e)
                elif line.startswith('RDEPEND+=" '):
                    rdep.append(line[len('RDEPEND+=" '):-1])
        text = open(self.ebuild_path(p)).read()
        try:
            src(text)
        except LookupError:
            return None
        if len({l for l in text.split("\n") if l.startswith("EAPI=")}) > 1:
            return None
        direct = [l.split()[1:] for l in text.split("\n") if l.startswith("inherit ")]
        return inherited, (direct[0] if direct else []), " ".join(rdep)

    # --- edits
    def edit(self):
        rng = self.rng
        kind = rng.choice(["ebuild_edit", "ebuild_touch", "ebuild_inherit", "eclass_edit", "eclass_touch", "eclass_rm",
                           "eclass_move", "eclass_shadow_diff", "eclass_shadow_same", "eclass_unshadow", "eclass_add",
                           "ebuild_replace_older", "ebuild_replace_same_mtime", "ebuild_replace_newer",
                           "ebuild_replace_older", "ebuild_replace_same_mtime",
                           "eclass_replace_older", "eclass_replace_same_mtime"])
        p, e = rng.choice(PKGS), rng.choice(ECLASSES)
        inO, inM = os.path.exists(self.eclass_path(self.O, e)), os.path.exists(self.eclass_path(self.M, e))
        if kind == "ebuild_edit":
            path = self.ebuild_path(p)
            write(path, open(path).read() + 'RDEPEND+=" cat/edit-x%d"\n' % self.tick(), self.tick())
        elif kind == "ebuild_touch":
            t = self.tick()
            os.utime(self.ebuild_path(p), (t, t))
        elif kind.startswith("ebuild_replace_"):
            # the file is replaced by different content carrying an older / the same / a newer timestamp
            # (cp -p, rsync -t, restoring a backup)
            path = self.ebuild_path(p)
            old = int(os.stat(path).st_mtime)
            self.old_clock -= 7
            mtime = {"older": self.old_clock, "same_mtime": old, "newer": self.tick()}[kind[len("ebuild_replace_"):]]
            self.serial += 1
            write(path, open(path).read() + 'RDEPEND+=" cat/replaced-x%d"\n' % self.serial, mtime)
        elif kind.startswith("eclass_replace_") and (inO or inM):
            path = self.eclass_lookup(e)
            old = int(os.stat(path).st_mtime)
            self.old_clock -= 7
            mtime = {"older": self.old_clock, "same_mtime": old}[kind[len("eclass_replace_"):]]
            self.serial += 1
            write(path, open(path).read() + 'RDEPEND+=" cat/ecl-replaced-x%d"\n' % self.serial, mtime)
        elif kind == "ebuild_inherit":
            self.write_ebuild(p, [x for x in ECLASSES if rng.random() < 0.4], eapi_clash=rng.random() < 0.1)
        elif kind == "eclass_edit" and (inO or inM):
            path = self.eclass_lookup(e)
            write(path, open(path).read() + 'RDEPEND+=" cat/ecl-edit-x%d"\n' % self.tick(), self.tick())
        elif kind == "eclass_touch" and (inO or inM):
            t = self.tick()
            os.utime(self.eclass_lookup(e), (t, t))
        elif kind == "eclass_rm" and (inO or inM):
            os.unlink(self.eclass_lookup(e))
        elif kind == "eclass_move" and inO != inM:
            src, dst = (self.O, self.M) if inO else (self.M, self.O)
            st = os.stat(self.eclass_path(src, e))
            shutil.move(self.eclass_path(src, e), self.eclass_path(dst, e))
            os.utime(self.eclass_path(dst, e), (st.st_mtime, st.st_mtime))
        elif kind == "eclass_shadow_diff" and inM and not inO:
            self.write_eclass(self.O, e, [])
        elif kind == "eclass_shadow_same" and inM and not inO:
            st = os.stat(self.eclass_path(self.M, e))
            shutil.copy(self.eclass_path(self.M, e), self.eclass_path(self.O, e))
            os.utime(self.eclass_path(self.O, e), (st.st_mtime, st.st_mtime))
        elif kind == "eclass_unshadow" and inM and inO:
            os.unlink(self.eclass_path(self.O, e))
        elif kind == "eclass_add" and not (inO or inM):
            self.write_eclass(rng.choice([self.M, self.O]), e, [])
        else:
            return None
        return kind

    def close(self):
        shutil.rmtree(self.top, ignore_errors=True)


# ------------------------------------------------------------------ pkgcore objects

class StandInProcessor:
    """stands in for the bash daemon (`ebp=`): sources the generated ebuild/eclass dialect through the eclass cache it is handed"""

    def get_keys(self, pkg, ecache):
        from pkgcore.ebuild import processor
        inherited, rdep = [], []

        def src(text):
            for line in text.split("\n"):
                if line.startswith("inherit "):
                    for e in line.split()[1:]:
                        if e in inherited:
                            continue
                        s = ecache.get_eclass(e)
                        if s is None:
                            raise processor.ProcessorError(f"unknown eclass {e}")
                        src(s.text_fileobj().read())
                        if e not in inherited:
                            inherited.append(e)
                elif line.startswith('RDEPEND+=" '):
                    rdep.append(line[len('RDEPEND+=" '):-1])
        text = open(pkg.path).read()
        src(text)
        keys = {"EAPI": "7", "SLOT": "0", "KEYWORDS": "amd64", "DEFINED_PHASES": "-", "RDEPEND": " ".join(rdep)}
        for line in text.split("\n"):
            if line.startswith("EAPI="):
                keys["EAPI"] = line[5:]
            if line.startswith("DESCRIPTION="):
                keys["DESCRIPTION"] = line.split('"')[1]
            if line.startswith("inherit "):
                keys["INHERIT"] = " ".join(line.split()[1:])
        if inherited:
            keys["INHERITED"] = " ".join(inherited)
        return keys


def make_cache(spec, readonly):
    from pkgcore.cache.flat_hash import database, md5_cache
    if spec["fmt"] == "md5":
        return md5_cache(spec["root"], readonly=readonly)
    return database(spec["root"], readonly=readonly)


def cache_dir(spec):
    return os.path.join(spec["root"], "metadata", "md5-cache") if spec["fmt"] == "md5" else spec["root"]


def open_repo(tree, caches):
    from pkgcore.ebuild import eclass_cache as ecm, repository
    m = repository.UnconfiguredTree(tree.M, cache=())
    ec = ecm.StackedCaches([ecm.cache(os.path.join(tree.O, "eclass"), location=tree.O),
                            ecm.cache(os.path.join(tree.M, "eclass"), location=tree.O)], location=tree.O, eclassdir=tree.O)
    return repository.UnconfiguredTree(tree.O, eclass_cache=ec, masters=(m,), cache=tuple(caches))


# ------------------------------------------------------------------ cache files, parsed independently

def entry_path(spec, p):
    return os.path.join(cache_dir(spec), "cat", p + "-1")


def parse_slot(spec, p):
    path = entry_path(spec, p)
    if not os.path.exists(path):
        return None
    d = {}
    for line in open(path).read().split("\n"):
        if line == "":
            continue
        if "=" not in line:
            return "unreadable"
        k, v = line.split("=", 1)
        d[k] = v
    chfkey = "_md5_" if spec["fmt"] == "md5" else "_mtime_"
    n = 2 if spec["fmt"] == "md5" else 3
    try:
        if chfkey not in d:
            return "unreadable"
        chf = str(int(d[chfkey], 16)) if spec["fmt"] == "md5" else str(int(float(d[chfkey]) // 1))
        ecl = None
        if "_eclasses_" in d:
            toks = d["_eclasses_"].strip().split("\t")
            if toks == [""]:
                ecl = []
            elif len(toks) % n:
                return "unreadable"
            else:
                ecl = []
                for i in range(0, len(toks), n):
                    if spec["fmt"] == "md5":
                        ecl.append([toks[i], [str(int(toks[i + 1], 16))]])
                    else:
                        ecl.append([toks[i], [toks[i + 1], str(int(float(toks[i + 2]) // 1))]])
    except ValueError:
        return "unreadable"
    desc = d.get("DESCRIPTION", "")
    return {"chf": chf, "eclasses": ecl, "inherit": "INHERIT" in d,
            "payload": int(desc[6:]) if desc.startswith("CACHED") else 0, "_rdepend": d.get("RDEPEND", ""), "_marked": desc.startswith("CACHED")}


def entry_sig(spec, p):
    try:
        st = os.stat(entry_path(spec, p))
    except OSError:
        return None
    return (st.st_ino, st.st_mtime_ns, st.st_size)


def model_slot(s):
    if s is None or s == "unreadable":
        return s
    return {k: v for k, v in s.items() if not k.startswith("_")}


def canon_slot(s):
    if isinstance(s, dict):
        return {"chf": s["chf"], "eclasses": None if s["eclasses"] is None else sorted(map(lambda r: (r[0], tuple(r[1])), s["eclasses"])),
                "inherit": s["inherit"], "payload": s["payload"]}
    return s


def tamper(rng, spec, p, marker):
    """mark the entry (DESCRIPTION=CACHED<n>) and maybe damage it the way old or foreign tools do"""
    path = entry_path(spec, p)
    if not os.path.exists(path):
        return "absent"
    lines = open(path).read().split("\n")
    lines = [("DESCRIPTION=CACHED%d" % marker if l.startswith("DESCRIPTION=") else l) for l in lines]
    k = rng.random()
    what = "marked"
    chfkey = "_md5_=" if spec["fmt"] == "md5" else "_mtime_="
    if k < 0.10:
        lines = [l for l in lines if not l.startswith("INHERIT=")]
        what = "no_INHERIT"
    elif k < 0.15:
        lines = [l for l in lines if not l.startswith(chfkey)]
        what = "no_chf"
    elif k < 0.20:
        lines = [l for l in lines if not l.startswith("_eclasses_=")]
        what = "no_eclasses_key"
    elif k < 0.25:
        lines = [(l + "\textra" if l.startswith("_eclasses_=") else l) for l in lines]
        what = "garbled_eclasses"
    elif k < 0.29:
        lines = [("_eclasses_=" if l.startswith("_eclasses_=") else l) for l in lines]
        what = "empty_eclasses"
    elif k < 0.34:
        out = []
        for l in lines:
            if l.startswith("_eclasses_=") and "\t" in l:
                toks = l[len("_eclasses_="):].split("\t")
                toks[-1] = "1" + toks[-1][1:] if toks[-1][:1] != "1" else "2" + toks[-1][1:]
                l = "_eclasses_=" + "\t".join(toks)
                what = "altered_eclass_record"
            out.append(l)
        lines = out
    elif k < 0.38:
        lines = [(chfkey + "zz" if l.startswith(chfkey) else l) for l in lines]
        what = "unparsable_chf"
    open(path, "w").write("\n".join(lines))
    return what


# ------------------------------------------------------------------ one case

def gen_stack(rng, tree):
    roots = {"md5": [tree.O, os.path.join(tree.top, "alt-md5")], "flat": [os.path.join(tree.top, "flat-a"), os.path.join(tree.top, "flat-b")]}
    n = rng.choice([1, 1, 2, 2, 3])
    stack = []
    for _ in range(n):
        fmt = rng.choice(["md5", "flat"])
        cand = [r for r in roots[fmt] if not any(s["root"] == r for s in stack)]
        if not cand:
            continue
        stack.append({"fmt": fmt, "root": cand[0], "readonly": rng.random() < 0.35})
    return stack or [{"fmt": "md5", "root": tree.O, "readonly": False}]


def populate(tree, spec, pkgs, ebp):
    repo = open_repo(tree, [make_cache(spec, False)])
    for p in pkgs:
        try:
            repo.package_class("cat", p, "1")._fetch_metadata(ebp=ebp)
        except Exception:
            pass            # sourcing may legitimately fail (missing eclass); nothing is stored then


PENDING = []     # (request, record) pairs waiting for the model's verdict


def read_all(ctx, tree, stack, ebp, label, edits, real_daemon=False):
    """read every package through the configured stack and record what happened; judged later by `judge`"""
    from pkgcore.package import errors as pkg_errors
    before = {p: [parse_slot(s, p) for s in stack] for p in PKGS}
    worlds = {p: tree.world(p) for p in PKGS}
    fresh = {p: tree.resolve(p) for p in PKGS}
    repo = open_repo(tree, [make_cache(s, s["readonly"]) for s in stack])
    for p in PKGS:
        req = {"cmd": "c48.get", "ebuild": worlds[p]["ebuild"], "eclasses": worlds[p]["eclasses"],
               "caches": [{"fmt": s["fmt"], "readonly": s["readonly"], "slot": model_slot(b)} for s, b in zip(stack, before[p])],
               "regen": None if fresh[p] is None else fresh[p][0]}
        case = {"label": label, "package": p, "stack": [{k: (os.path.basename(v) if k == "root" else v) for k, v in s.items()} for s in stack],
                "before": [canon_slot(model_slot(b)) for b in before[p]], "world": worlds[p], "sourcing": fresh[p], "edits": edits}
        pkg = repo.package_class("cat", p, "1")
        sig_before = [entry_sig(s, p) for s in stack]
        try:
            if real_daemon:
                data = {"DESCRIPTION": pkg.description, "RDEPEND": str(pkg.rdepend), "_inherited": sorted(pkg.inherited)}
            else:
                raw = pkg._fetch_metadata(ebp=ebp)
                data = {"DESCRIPTION": raw.get("DESCRIPTION"), "RDEPEND": raw.get("RDEPEND", ""),
                        "_inherited": sorted(raw.get("_eclasses_", {}) or {})}
            if data["DESCRIPTION"].startswith("CACHED"):
                n = int(data["DESCRIPTION"][6:])
                idx = [i for i, b in enumerate(before[p]) if isinstance(b, dict) and b["payload"] == n]
                impl = ["used", idx[0] if idx else -1, n]
            else:
                impl = "regenerated"
                if real_daemon:
                    # entries written by the real regen operation carry no CACHED marker: whether such an entry was served is read off the
                    # entry file instead -- a regeneration replaces the entry of a writable cache (new file), a hit leaves it untouched
                    for i, (s_, b) in enumerate(zip(stack, before[p])):
                        if (isinstance(b, dict) and not b["_marked"] and not s_["readonly"] and sig_before[i] is not None
                                and entry_sig(s_, p) == sig_before[i] and b["_rdepend"] == data["RDEPEND"]):
                            impl = ["used", i, b["payload"]]
                            break
        except pkg_errors.MetadataException:
            impl, data = "failed", None
        except Exception as e:
            ctx.violation(case, f"reading metadata raised {type(e).__name__}: {e}")
            continue
        after = [parse_slot(s, p) for s in stack]
        again = None
        if impl != "failed" and any(not s["readonly"] for s in stack) and len(PENDING) % 3 == 0 and not real_daemon:
            # read again: the replacement (or the hit) must be used, nothing may change
            repo2 = open_repo(tree, [make_cache(s, s["readonly"]) for s in stack])
            try:
                repo2.package_class("cat", p, "1")._fetch_metadata(ebp=_Refuse())
                asked = False
            except _Asked:
                asked = True
            again = (asked, [parse_slot(s, p) for s in stack] == after)
        PENDING.append((req, {"case": case, "p": p, "stack": [dict(s) for s in stack], "before": before[p], "world": worlds[p],
                              "fresh": fresh[p], "impl": impl, "data": data, "after": after, "again": again}))


def judge(ctx):
    """edges A and C for everything recorded so far"""
    if not PENDING:
        return
    reps = ctx.model([r for r, _ in PENDING])
    for (_, rec), rep in zip(PENDING, reps):
        case, p, stack, before, world, fresh, impl, data, after = (rec[k] for k in
                                                                     ("case", "p", "stack", "before", "world", "fresh", "impl", "data", "after"))
        if rep == "bad-op":
            ctx.mismatch(case, "driver rejected the request")
            continue
        valid = rep["valid"]
        nontriv = any(isinstance(b, dict) for b in before)
        ctx.case(case, nontriv, key=None)
        ctx.count("result_" + (impl if isinstance(impl, str) else "used"))
        ctx.count("stack_" + "+".join(s["fmt"] + ("-ro" if s["readonly"] else "") for s in stack))
        for b, v in zip(before, valid):
            ctx.count("slot_" + ("absent" if b is None else b if isinstance(b, str) else ("valid" if v else "stale")))
        # ---- the property on the real code (edge C)
        first_valid = next((i for i, v in enumerate(valid) if v), None)
        if first_valid is not None:
            if impl != ["used", first_valid, before[first_valid]["payload"]]:
                ctx.violation(case, f"cache {first_valid} holds a valid entry (validity per cache {valid}) but the outcome was {impl}")
                continue
        else:
            if isinstance(impl, list):
                ctx.violation(case, f"no cache holds a valid entry (validity per cache {valid}) but cached metadata was used: {impl}")
                continue
            if (impl == "failed") != (fresh is None):
                ctx.violation(case, f"nothing valid cached; sourcing {'fails' if fresh is None else 'works'} but outcome is {impl}")
                continue
        unrecorded = (isinstance(impl, list) and impl[1] >= 0 and not before[impl[1]]["eclasses"] and fresh is not None and fresh[0])
        if unrecorded:
            # a (tampered) entry that records no eclasses although the ebuild inherits some: valid by the property's wording
            # ("every inherited eclass it records"), but nothing ties its contents to the eclasses -- no staleness claim possible
            ctx.count("used_entry_without_eclass_records")
        blind = (isinstance(impl, list) and impl[1] >= 0 and stack[impl[1]]["fmt"] == "flat"
                 and any(isinstance(e, str) and e.endswith("replace_same_mtime") for e in case["edits"]))
        if blind:
            # content replaced under an unchanged timestamp: an mtime-keyed entry still records the current mtime, so it is
            # valid by the property's wording; what it holds may be outdated (the format cannot see it) -- no staleness claim
            ctx.count("used_mtime_entry_after_same_mtime_replacement")
        if data is not None and fresh is not None and not unrecorded and not blind:
            # as sets: the daemon's eclass-variable accumulation repeats tokens of eclasses inherited along several paths
            want_rdep = " ".join(sorted(set(fresh[2].split())))
            got_rdep = " ".join(sorted(set(data["RDEPEND"].split())))
            if got_rdep != want_rdep or data["_inherited"] != sorted(fresh[0]):
                ctx.violation(case, f"metadata returned ({impl}): RDEPEND {got_rdep!r} inherited {data['_inherited']}; "
                                    f"regenerating from scratch gives {want_rdep!r} {sorted(fresh[0])}")
                continue
        if impl == "regenerated":
            w = next((i for i, s in enumerate(stack) if not s["readonly"]), None)
            if w is not None:
                a = after[w]
                ok = isinstance(a, dict) and a["payload"] == 0 and a["chf"] == world["ebuild"]["md5" if stack[w]["fmt"] == "md5" else "mtime"] \
                    and set(a["_rdepend"].split()) == set(fresh[2].split())
                if not ok:
                    ctx.violation(case, f"after regeneration the first writable cache ({w}) does not hold the fresh entry: {a}")
                    continue
        if rec["again"] is not None and (rec["again"][0] or not rec["again"][1]):
            ctx.violation(case, "a second read of unchanged files regenerated or rewrote the cache")
            continue
        # ---- model vs implementation (edge A): outcome and every cache's slot afterwards
        if rep["result"] != impl:
            ctx.mismatch(case, f"implementation outcome {impl}, model {rep['result']}")
            continue
        if [canon_slot(model_slot(a)) for a in after] != [canon_slot(m) for m in rep["caches"]]:
            ctx.mismatch(case, f"cache slots afterwards {[canon_slot(model_slot(a)) for a in after]}, model {[canon_slot(m) for m in rep['caches']]}")
    PENDING.clear()


class _Asked(Exception):
    pass


class _Refuse:
    """a processor that must not be asked: a second read of unchanged files has to be served by a cache"""

    def get_keys(self, pkg, ecache):
        raise _Asked()


def scenario(ctx, rng, label, real_daemon=False):
    tree = Tree(rng)
    ebp = StandInProcessor()
    edits = []
    try:
        stack = gen_stack(rng, tree)
        order = list(range(len(stack)))
        rng.shuffle(order)
        first, second = order[: len(order) // 2 + 1], order[len(order) // 2 + 1:]
        for i in first:
            populate(tree, stack[i], [p for p in PKGS if rng.random() < 0.85], ebp)
        for _ in range(rng.choice([0, 1, 1, 2])):
            edits.append(tree.edit())
        for i in second:
            populate(tree, stack[i], [p for p in PKGS if rng.random() < 0.85], ebp)
        for _ in range(rng.choice([0, 0, 1, 1, 2, 3])):
            edits.append(tree.edit())
        for i, s in enumerate(stack):
            for j, p in enumerate(PKGS):
                edits.append("%s:%s" % (p, tamper(rng, s, p, 100 * (i + 1) + j)))
        for e in edits:
            if e:
                ctx.count("edit_" + (e.split(":")[1] if ":" in e else e))
        read_all(ctx, tree, stack, ebp, label, edits, real_daemon=real_daemon)
    finally:
        tree.close()


def corpus(ctx, rng):
    """every edit of the property text, one at a time, against each format, plus the stacking cases"""
    ebp = StandInProcessor()

    def fixed_tree():
        t = Tree.__new__(Tree)
        Tree.__init__(t, __import__("random").Random(7))
        for d in (t.M, t.O):
            for e in ECLASSES:
                if os.path.exists(t.eclass_path(d, e)):
                    os.unlink(t.eclass_path(d, e))
        t.write_eclass(t.M, "e1", [])
        t.write_eclass(t.O, "e2", ["e1"])
        t.write_eclass(t.M, "e3", [])
        t.write_ebuild("p", ["e2"])
        t.write_ebuild("q", [])
        t.write_ebuild("r", ["e1", "e3"])
        return t

    def touch(path, t):
        tt = t.tick()
        os.utime(path, (tt, tt))

    def move(t, e, src, dst):
        st = os.stat(t.eclass_path(src, e))
        shutil.move(t.eclass_path(src, e), t.eclass_path(dst, e))
        os.utime(t.eclass_path(dst, e), (st.st_mtime, st.st_mtime))

    def drop_line(t, spec, p, prefix):
        path = entry_path(spec, p)
        old_lines = open(path).read().split("\n")
        open(path, "w").write("\n".join(l for l in old_lines if not l.startswith(prefix)))

    edits = {
        "none": lambda t, s: None,
        "ebuild_edit": lambda t, s: write(t.ebuild_path("p"), open(t.ebuild_path("p")).read() + 'RDEPEND+=" cat/x"\n', t.tick()),
        "ebuild_touch": lambda t, s: touch(t.ebuild_path("p"), t),
        "ebuild_replace_older": lambda t, s: write(t.ebuild_path("p"), open(t.ebuild_path("p")).read() + 'RDEPEND+=" cat/older"\n', 400),
        "ebuild_replace_same_mtime": lambda t, s: write(t.ebuild_path("p"), open(t.ebuild_path("p")).read() + 'RDEPEND+=" cat/same"\n',
                                                        int(os.stat(t.ebuild_path("p")).st_mtime)),
        "eclass_replace_older": lambda t, s: write(t.eclass_path(t.M, "e1"), 'RDEPEND+=" cat/e1-older"\n', 300),
        "eclass_edit": lambda t, s: write(t.eclass_path(t.M, "e1"), 'RDEPEND+=" cat/e1-new"\n', t.tick()),
        "nested_eclass_touch": lambda t, s: touch(t.eclass_path(t.M, "e1"), t),
        "eclass_rm": lambda t, s: os.unlink(t.eclass_path(t.M, "e3")),
        "eclass_move_to_overlay": lambda t, s: move(t, "e1", t.M, t.O),
        "eclass_move_to_master": lambda t, s: move(t, "e2", t.O, t.M),
        "eclass_shadowed": lambda t, s: t.write_eclass(t.O, "e3", []),
        "no_INHERIT": lambda t, s: drop_line(t, s, "p", "INHERIT="),
        "no_INHERIT_no_eclasses": lambda t, s: drop_line(t, s, "q", "INHERIT="),
        "no_eclasses_key": lambda t, s: drop_line(t, s, "r", "_eclasses_="),
    }
    for fmt in ("md5", "flat"):
        for name, fn in edits.items():
            t = fixed_tree()
            try:
                spec = {"fmt": fmt, "root": t.O if fmt == "md5" else os.path.join(t.top, "flat-a"), "readonly": False}
                populate(t, spec, PKGS, ebp)
                for j, p in enumerate(PKGS):
                    path = entry_path(spec, p)
                    old_lines = open(path).read().split("\n")
                    open(path, "w").write("\n".join(("DESCRIPTION=CACHED%d" % (100 + j) if l.startswith("DESCRIPTION=") else l)
                                                    for l in old_lines))
                fn(t, spec)
                read_all(ctx, t, [spec], ebp, f"corpus:{fmt}:{name}", [name])
            finally:
                t.close()
    # stacking: read-only stale first, writable stale second, valid third / nothing valid anywhere
    for variant in ("valid_last", "none_valid", "readonly_only"):
        t = fixed_tree()
        try:
            s0 = {"fmt": "md5", "root": t.O, "readonly": True}
            s1 = {"fmt": "flat", "root": os.path.join(t.top, "flat-a"), "readonly": variant == "readonly_only"}
            s2 = {"fmt": "md5", "root": os.path.join(t.top, "alt-md5"), "readonly": variant == "readonly_only"}
            populate(t, s0, PKGS, ebp)
            populate(t, s1, PKGS, ebp)
            write(t.eclass_path(t.M, "e1"), 'RDEPEND+=" cat/e1-new"\n', t.tick())
            if variant == "valid_last":
                populate(t, s2, PKGS, ebp)
            for i, s in enumerate((s0, s1, s2)):
                for j, p in enumerate(PKGS):
                    path = entry_path(s, p)
                    if os.path.exists(path):
                        old_lines = open(path).read().split("\n")
                        open(path, "w").write("\n".join(("DESCRIPTION=CACHED%d" % (100 * (i + 1) + j) if l.startswith("DESCRIPTION=") else l)
                                                        for l in old_lines))
            read_all(ctx, t, [s0, s1, s2], ebp, f"corpus:stack:{variant}", [variant])
        finally:
            t.close()


def daemon_layer(ctx, rng, n, regen_histories=1):
    """the same flow with the real bash daemon doing the sourcing, through the public package attributes"""
    from pkgcore.ebuild import processor
    try:
        ebp = processor.request_ebuild_processor()
    except Exception as e:
        ctx.note(f"ebuild daemon unavailable ({type(e).__name__}); daemon layer skipped")
        return
    try:
        # the stand-in must agree with the daemon on the keys this property is about
        t = Tree(rng)
        try:
            repo = open_repo(t, [])
            for p in PKGS:
                pkg = repo.package_class("cat", p, "1")
                want = t.resolve(p)
                try:
                    real = ebp.get_keys(pkg, repo.eclass_cache)
                except processor.ProcessorError:
                    real = None
                    ebp = processor.request_ebuild_processor()
                try:
                    fake = StandInProcessor().get_keys(pkg, repo.eclass_cache)
                except processor.ProcessorError:
                    fake = None
                ctx.traces += 1
                if (real is None) != (fake is None) or (real is not None and any(
                        set(real.get(k, "").split()) != set(fake.get(k, "").split()) for k in ("RDEPEND", "INHERITED", "INHERIT", "DESCRIPTION"))):
                    ctx.mismatch({"package": p, "tree": want}, f"stand-in processor {fake} differs from the daemon {real}")
        finally:
            t.close()
    finally:
        try:
            processor.release_ebuild_processor(ebp)
        except Exception:
            pass
    try:
        for i in range(n):
            scenario(ctx, rng, f"daemon:{ctx.seed}:{i}", real_daemon=True)
        for i in range(regen_histories):
            regen_history(ctx, rng, f"regen:{ctx.seed}:{i}")
    finally:
        kill_pooled_processors()


def kill_pooled_processors():
    """do not leave bash daemons (possibly wedged ones) to the interpreter's exit handlers"""
    from pkgcore.ebuild import processor
    for lst in (processor.inactive_ebp_list, processor.active_ebp_list):
        while lst:
            try:
                lst.pop().shutdown_processor(force=True)
            except Exception:
                pass


class _Quiet:
    """observer for the regen operation"""
    verbosity = 0

    def __getattr__(self, name):
        return lambda *a, **kw: None


def regen_history(ctx, rng, label):
    """one long-lived process: the repository's regen operation fills the cache (eclass preloading on, some ebuilds fail to
    source -- some fatally for the daemon, some not), then the tree is edited, then every package is read through fresh
    repository objects, with whatever ebuild processors the process has pooled by then"""
    import gc
    tree = Tree(rng)
    try:
        # make sure the interesting ingredients are present: an eclass everybody can inherit, a non-fatal sourcing failure
        base = rng.choice(ECLASSES)
        tree.write_eclass(tree.M, base, [])
        for e in ECLASSES:
            if e != base and tree.eclass_lookup(e) is None and rng.random() < 0.7:
                tree.write_eclass(rng.choice([tree.M, tree.O]), e, [base] if rng.random() < 0.5 else [])
        order = list(PKGS)
        rng.shuffle(order)
        tree.write_ebuild(order[0], [base], eapi_clash=True)
        for p in order[1:]:
            tree.write_ebuild(p, uniq_list([base] + [e for e in ECLASSES if rng.random() < 0.3 and tree.eclass_lookup(e)]))
        spec = {"fmt": "md5", "root": tree.O, "readonly": False}
        edits = ["regen_operation"]
        repo = open_repo(tree, [make_cache(spec, False)])
        try:
            repo.operations.regen_cache(observer=_Quiet())
        except Exception as e:
            ctx.violation({"label": label, "edits": edits, "ebuilds": {p: open(tree.ebuild_path(p)).read() for p in PKGS},
                           "eclasses": {e_: (open(tree.eclass_lookup(e_)).read() if tree.eclass_lookup(e_) else None) for e_ in ECLASSES}},
                          f"the regen operation over this tree raised {type(e).__name__}: {e} -- metadata could not be regenerated "
                          "(ebuilds that fail to source must only be reported)")
            return
        del repo
        gc.collect()
        for rnd in range(2):
            # an edit of the shared eclass (so every cached entry goes stale), plus whatever else
            path = tree.eclass_lookup(base)
            write(path, open(path).read() + 'RDEPEND+=" cat/regen-edit-x%d"\n' % tree.tick(), tree.tick())
            edits = edits + ["eclass_edit"]
            if rng.random() < 0.5:
                edits.append(tree.edit())
            read_all(ctx, tree, [spec], None, f"{label}:round{rnd}", list(edits), real_daemon=True)
    finally:
        tree.close()


def uniq_list(seq):
    out = []
    for x in seq:
        if x not in out:
            out.append(x)
    return out


def run(ctx):
    rng = ctx.rng
    PENDING.clear()
    corpus(ctx, rng)
    judge(ctx)
    for i in range(ctx.n(70, 6000)):
        scenario(ctx, rng, f"{ctx.seed}:{i}")
        if len(PENDING) >= 3000:
            judge(ctx)
    judge(ctx)
    daemon_layer(ctx, rng, ctx.n(0, 30), regen_histories=ctx.n(1, 8))
    judge(ctx)
