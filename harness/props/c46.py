"""C46 — distfile cleaning never deletes a distfile that must be kept."""
import io
import math
import os
import shutil
import sys
import tempfile
import time
import types
import zlib

PID = "C46"
LEAN_MODULES = ["Pkgcore.Props.C46"]
OBLIGATIONS = [
    "Pkgcore.C46.removed_subset_targets",
    "Pkgcore.C46.never_removes_needed",
    "Pkgcore.C46.needed_files_left",
    "Pkgcore.C46.left_exactly",
    "Pkgcore.C46.removed_exactly",
    "Pkgcore.C46.no_targeted_package_removes_nothing",
    "Pkgcore.C46.needed_files_survive",
    "Pkgcore.C46.run_removes_only_selected",
    "Pkgcore.C46.unreadable_metadata_removes_nothing",
    "Pkgcore.C46.unreadable_distfiles_never_read",
]
TRUSTED = [
    "which packages a single target / exclusion pattern matches (parserestrict.parse_match(pattern).match on the real packages, one pattern at a time) and "
    "which files the file-name pattern guessed from ONE targeted package name selects (Python re, the harness' own per-name reference) are parameters of the "
    "model; how the real code combines them (restrictions built by the option parsing, one alternation over all targeted names) is compared with that on every run",
    "os.stat / os.remove / listdir_files (a real scratch distdir is used); the pkgcore configuration: the real pclean argument parser runs on a configuration "
    "whose default domain is a stand-in object carrying distdir, source_repos and all_installed_repos",
]
ASSUMPTIONS = [
    "every os.remove succeeds (the distdir is writable); installed packages are given by their distfiles attribute",
    "what a package with unreadable metadata would need is unknowable: 'needed' counts the readable packages (the model shows the run stops whenever such a "
    "package is looked at, and never reads its distfiles otherwise)",
]
RULE = ("real scratch ebuild repositories (6-9 packages over related names foo / foo-bar / libfoo / baz, SRC_URI with shared and per-version files written as "
        "plain URIs, mirror:// URIs, bare names, `uri -> name` renames and nested USE-conditional groups, ebuilds that fetch nothing, "
        "RESTRICT=fetch on some; every third repository holds one or two ebuilds whose SRC_URI cannot be parsed — unbalanced parenthesis, dangling `->`, "
        "`||` group — so that `.distfiles` raises MetadataException), a random installed set, a real scratch distdir holding current, stale, shared and unrelated files with random sizes "
        "and ages, and random option combinations: targets (names, globs, versioned atoms, targets matching no package, targets excluded again), --installed/--exists/--fetch-restricted, exclusion patterns, "
        "--modified, --size; non-trivial = at least one file removed while at least one selected file is kept because it is needed")

NAMES = ["foo", "foo-bar", "libfoo", "baz", "qux", "bazaar"]
# files of no package at all; several merely START with the letters of a package name (no name boundary after them)
STRANGERS = ["unrelated.zip", "notes.txt", "Foo-3.TAR.GZ", "foo_1.tar.gz", "foobar-1.tar.gz", "bazooka-2.zip", "quxotic-1.1.tar.xz", "libfoo2-2.tar.gz"]
# the file-name patterns pclean guesses from ONE targeted package name (pclean builds one alternation out of all of them)
PKG_TAIL = r"(\W\w+)+([\W?(0-9)+])*(\W\w+)*(\.\w+)*"
EXTRA_TAIL = r"([\W?(0-9)+])+(\W\w+)*(\.\w+)+"


def ref_selected(targeted, present):
    """reference for "selected by the cleaning targets", one targeted package name at a time: a file is selected when, for SOME single targeted
    name, it matches that name's pattern `name<sep>word…` (or the pattern of an alternate upstream prefix learned from that package's own
    distfiles).  `targeted`: [(package name, distfiles)] in repository order."""
    import re
    names, extra = [], {}
    for name, files in targeted:
        pn = r"\W".join(re.split(r"\W", name))
        if pn not in names:
            names.append(pn)
        mine = extra.setdefault(name, [])
        for f in sorted(set(files)):
            if re.match(f"({pn}){PKG_TAIL}", f, re.IGNORECASE) or any(re.match(f"({x}){EXTRA_TAIL}", f) for x in mine):
                continue
            pieces = re.split(EXTRA_TAIL, f)
            if pieces[-1] == "":
                pieces.pop()
            if len(pieces) > 1 and pieces[0] not in mine:
                mine.append(pieces[0])
    pats = [f"({pn}){PKG_TAIL}" for pn in names] + [f"({x}){EXTRA_TAIL}" for v in extra.values() for x in v]
    return sorted(f for f in present if any(re.match(pat, f) for pat in pats))

EXT = [".tar.gz", ".tar.xz", ".zip"]


def gen_repo(rng, broken=0):
    """packages with their intended distfiles; `broken` of them get a SRC_URI that cannot be parsed"""
    pkgs = []
    for name in rng.sample(NAMES, rng.choice([3, 4, 5])):
        ext = rng.choice(EXT)
        shared = f"{name}-data{ext}" if rng.random() < 0.4 else None
        for ver in rng.sample(["0.9", "1", "1.1", "2"], rng.choice([1, 2, 2, 3])):
            files = [f"{name}-{ver}{ext}"]
            if shared:
                files.append(shared)
            if rng.random() < 0.25:
                files.append(f"{name}-{ver}-patches.tar.xz")
            if rng.random() < 0.15:
                files.append("common-icons.zip")
            if rng.random() < 0.06:
                files = []                                   # an ebuild that fetches nothing
            pkgs.append({"cpv": f"cat/{name}-{ver}", "name": name, "files": files, "fetch": rng.random() < 0.2, "broken": None})
    for p in rng.sample(pkgs, min(broken, len(pkgs))):
        p["broken"] = rng.choice(["unbalanced", "dangling-arrow", "any-of"])
        if not p["files"]:
            p["files"] = [f"{p['name']}-x.tar.gz"]
    for p in pkgs:
        p["src_uri"] = render_src_uri(rng, p)
    return pkgs


def render_src_uri(rng, p):
    """SRC_URI text for the intended files: plain URIs, bare file names (fetch-restricted style), `uri -> name` renames,
    USE-conditional groups (the raw package's distfiles ignore USE); or one of the unparsable forms"""
    def one(f):
        k = rng.random()
        if k < 0.6:
            return "http://example.org/" + f
        if k < 0.75:
            return f"http://example.org/dl/{zlib.crc32(f.encode()) % 9973}.bin -> {f}"
        if k < 0.85 and p["fetch"]:
            return f
        return "mirror://gentoo/" + f
    toks = [one(f) for f in p["files"]]
    if len(toks) > 1 and rng.random() < 0.35:
        cut = rng.randint(1, len(toks) - 1)
        inner = toks[cut:]
        if len(inner) > 1 and rng.random() < 0.4:
            inner = inner[:1] + ["!doc? ( " + " ".join(inner[1:]) + " )"]
        toks = toks[:cut] + ["ssl? ( " + " ".join(inner) + " )"]
    text = " ".join(toks)
    if p["broken"] == "unbalanced":
        text = "ssl? ( " + text
    elif p["broken"] == "dangling-arrow":
        text = text + " http://example.org/dl/latest.bin ->"
    elif p["broken"] == "any-of":
        text = "|| ( " + text + " )"
    return text


def run(ctx):
    from pkgcore.pytest.plugin import EbuildRepo
    from pkgcore.scripts import pclean
    from pkgcore.package.errors import MetadataException
    from snakeoil.sequences import iflatten_instance
    from snakeoil.cli import arghparse
    from pkgcore.config import basics, central
    from pkgcore.config.hint import ConfigHint
    from pkgcore.util import parserestrict

    class StandInDomain:
        """the default domain of the scratch configuration: just the attributes pclean dist reads"""
        pkgcore_config_type = ConfigHint(typename="domain")
        setup = {}

        def __init__(self):
            self.__dict__.update(self.setup)

    domain_section = basics.HardCodedConfigSection({"class": StandInDomain, "default": True})

    rng = ctx.rng
    scratch = tempfile.mkdtemp(prefix="verif-c46-")
    now = int(time.time())

    class FakeOut:
        def write(self, *a, **k):
            pass

    class TtyStdout:
        def __init__(self, real):
            self._real = real

        def isatty(self):
            return True

        def __getattr__(self, n):
            return getattr(self._real, n)

    try:
        for ri in range(ctx.n(3, 30)):
            # every third repository has one or two packages whose SRC_URI cannot be parsed
            pkgs = gen_repo(rng, broken=rng.choice([1, 1, 2]) if ri % 3 == 1 else 0)
            tree = EbuildRepo(os.path.join(scratch, f"repo{ri}"), repo_id="test", arches=("x86",))
            for p in pkgs:
                extra = {"restrict": "fetch"} if p["fetch"] else {}
                tree.create_ebuild(p["cpv"], src_uri=p["src_uri"], iuse="ssl doc", **extra)
            tree.sync()
            repo = tree._repo
            real = {x.cpvstr: x for x in repo}
            for p in pkgs:
                rp = real[p["cpv"]]
                try:
                    got = sorted(iflatten_instance(getattr(rp, "_raw_pkg", rp).distfiles))
                except MetadataException:
                    got = "MetadataException"
                want = "MetadataException" if p["broken"] else sorted(set(p["files"]))
                if got != want or ("fetch" in rp.restrict) != p["fetch"]:
                    ctx.mismatch({"pkg": p["cpv"], "src_uri": p["src_uri"]}, f"scratch repo does not show the generated metadata: {got}, {rp.restrict}")
                    return
            ctx.count("repo_with_unreadable_metadata" if any(p["broken"] for p in pkgs) else "repo_healthy")
            allfiles = sorted({f for p in pkgs for f in p["files"]})
            names = sorted({p["name"] for p in pkgs})

            cases, reqs = [], []
            for ci in range(ctx.n(160, 300) if ri % 3 == 1 else ctx.n(300, 500)):
                # ---- the scenario
                installed = []
                for _ in range(rng.choice([0, 1, 2, 3])):
                    p = rng.choice(pkgs)
                    fs = list(p["files"]) if rng.random() < 0.7 else [f"{p['name']}-0.8{rng.choice(EXT)}"]
                    installed.append([fs[0], fs[1:]] if len(fs) > 1 and rng.random() < 0.5 else fs)      # nested, as a DepSet may be
                inst_flat = [list(iflatten_instance(x)) for x in installed]
                present = set(rng.sample(allfiles, rng.randint(1, len(allfiles))))
                for n in names:
                    if rng.random() < 0.6:
                        present.add(f"{n}-0.{rng.randint(1, 8)}{rng.choice(EXT)}")          # stale versions
                present.update(f for fs in inst_flat for f in fs if rng.random() < 0.7)
                present.update(rng.sample(STRANGERS, rng.randint(0, 4)))
                files = [{"name": f, "age_days": rng.choice([0, 1, 10, 40, 400]), "size": rng.choice([0, 10, 1023, 1024, 5000])} for f in sorted(present)]
                k = rng.random()
                if k < 0.25:
                    targets = []
                elif k < 0.36:
                    # targets that may match no package at all: unknown names, versions nobody provides, foreign categories
                    p = rng.choice(pkgs)
                    targets = rng.sample(["cat/nonexistent", "=cat/" + p["name"] + "-9.9", "other/" + p["name"], "zz*", ">cat/" + p["name"] + "-50",
                                          "cat/" + p["name"] + ":7"], rng.choice([1, 1, 2]))
                elif k < 0.58:
                    targets = [rng.choice(["cat/" + rng.choice(names), rng.choice(names), rng.choice(names)[:2] + "*", "cat/*"])]
                elif k < 0.8:
                    # several package names targeted at once
                    targets = [rng.choice(["cat/", "", "*/"]) + n for n in rng.sample(names, rng.choice([2, 2, 3]))]
                else:
                    p = rng.choice(pkgs)
                    targets = rng.sample(["=" + p["cpv"], "cat/" + rng.choice(names), "*/" + rng.choice(names)], 2)

                def pattern():
                    return rng.choice(["cat/" + rng.choice(names), rng.choice(names)[:3] + "*", "=" + rng.choice(pkgs)["cpv"]])
                # exclusion patterns come from -x/--exclude (comma separated, may be repeated) and/or the lines of a -X/--exclude-file
                excludes, xfile = None, None
                k = rng.random()
                if k < 0.2:
                    excludes = [pattern() for _ in range(rng.choice([1, 1, 2]))]
                elif k < 0.3:
                    xfile = [pattern() for _ in range(rng.choice([1, 2, 3]))]
                elif k < 0.45:
                    excludes = [pattern() for _ in range(rng.choice([1, 1, 2]))]
                    xfile = [pattern() for _ in range(rng.choice([1, 2]))]
                if targets and rng.random() < 0.08:
                    excludes = list(targets)              # the targets are excluded again: nothing is left to clean
                o = {"installed": rng.random() < 0.35, "exists": rng.random() < 0.4, "fetch_restricted": rng.random() < 0.25,
                     "modified": rng.choice([None, None, None, None, "5d", "30d", "1y"]), "size": rng.choice([None, None, None, None, "1K", "11B", "4K"]),
                     "pretend": rng.random() < 0.05}
                # ---- the command line
                argv = ["dist"]
                opt = [[rng.choice(["-I", "--installed"])] if o["installed"] else [], [rng.choice(["-E", "--exists"])] if o["exists"] else [],
                       [rng.choice(["-f", "--fetch-restricted"])] if o["fetch_restricted"] else [], ["-p"] if o["pretend"] else [],
                       [rng.choice(["-m", "--modified"]), o["modified"]] if o["modified"] else [], [rng.choice(["-s", "--size"]), o["size"]] if o["size"] else []]
                xpath = os.path.join(scratch, f"exclude{ri}_{ci}")
                if xfile is not None:
                    with open(xpath, "w") as fh:
                        fh.write("\n".join(xfile))
                    opt.append([rng.choice(["-X", "--exclude-file"]), xpath])
                if excludes is not None:
                    # (given once: the option is snakeoil's "csv" action, for which a repeated option deliberately overrides the earlier one)
                    opt.append([rng.choice(["-x", "--exclude"]), ",".join(excludes)])
                rng.shuffle(opt)
                front = rng.random() < 0.5
                argv += ([] if front else targets) + [a for part in opt for a in part] + (targets if front else [])
                scen = {"repo": [(p["cpv"], p["files"], p["fetch"]) + ((("unparsable SRC_URI: " + p["src_uri"]),) if p["broken"] else ()) for p in pkgs], "installed": installed, "files": files, "targets": targets,
                        "excludes": excludes, "exclude_file_lines": xfile, "argv": ["<exclude file>" if a == xpath else a for a in argv], "opts": o}

                # ---- the real run: the real command line parser (option wiring, bound parse functions, final check) on a configuration whose
                # default domain is a stand-in holding the scratch distdir, the scratch repository and the installed packages
                distdir = os.path.join(scratch, f"dist{ri}_{ci}")
                os.mkdir(distdir)
                for f in files:
                    path = os.path.join(distdir, f["name"])
                    with open(path, "wb") as fh:
                        fh.truncate(f["size"])
                    t = now - f["age_days"] * 86400 - 3600
                    os.utime(path, (t, t))
                    f["mtime"] = t
                StandInDomain.setup = {"distdir": distdir, "source_repos": repo, "all_source_repos_raw": (),
                                       "all_installed_repos": [types.SimpleNamespace(distfiles=x) for x in installed]}

                def make_ns():
                    ns = types.SimpleNamespace()
                    ns.domain = types.SimpleNamespace(**StandInDomain.setup)
                    ns.repo = None
                    ns.file_filters = pclean.Filters()
                    ns.exclude_installed = ns.exclude_exists = ns.exclude_fetch_restricted = False
                    ns.exclude_restrict = None
                    return ns
                try:
                    # what the patterns mean, one pattern at a time (the parser combines them into restrictions)
                    t_r = [parserestrict.parse_match(t) for t in targets]
                    x_r = [parserestrict.parse_match(t) for t in (excludes or []) + (xfile or [])]
                    has_restrict, has_exclude = bool(t_r or x_r), bool(x_r)
                    excluded = {p["cpv"]: any(r.match(real[p["cpv"]]) for r in x_r) for p in pkgs}
                    targeted = {p["cpv"]: has_restrict and not excluded[p["cpv"]] and (not t_r or any(r.match(real[p["cpv"]]) for r in t_r)) for p in pkgs}
                    selected = ref_selected([(p["name"], [] if p["broken"] else p["files"]) for p in sorted(pkgs, key=lambda p: real[p["cpv"]]) if targeted[p["cpv"]]],
                                            [f["name"] for f in files])
                    if any(p["broken"] and targeted[p["cpv"]] for p in pkgs):
                        selected = []           # a targeted package cannot be read: the run cannot get past it
                    aborted, refused, ret, ns = False, False, 0, arghparse.Namespace()
                    ns.config = central.CompatConfigManager(central.ConfigManager([{"default_domain": domain_section}], debug=True))
                    old_stdout, old_stderr = sys.stdout, sys.stderr
                    sys.stderr = io.StringIO()
                    try:
                        ns = pclean.argparser.parse_args(list(argv), namespace=ns)
                    except MetadataException:
                        aborted = True          # an unreadable package ends the command before _remove
                    except SystemExit as e:
                        refused = sys.stderr.getvalue().strip() or str(e.code)
                    finally:
                        sys.stderr = old_stderr
                    if refused:
                        ctx.mismatch(scen, f"pclean refused the command line: {refused}")
                        continue
                    thr_m, thr_s = getattr(ns, "modified", None), getattr(ns, "size", None)
                    glue = None
                    if not aborted:
                        r_t = {p["cpv"]: bool(ns.restrict and ns.restrict.match(real[p["cpv"]])) for p in pkgs}
                        r_x = {p["cpv"]: bool(ns.exclude_restrict and ns.exclude_restrict.match(real[p["cpv"]])) for p in pkgs}
                        if (bool(ns.restrict), bool(ns.exclude_restrict), r_t, r_x) != (has_restrict, has_exclude, targeted, excluded):
                            glue = (f"the restrictions built from the command line target {sorted(k for k, v in r_t.items() if v)} and exclude "
                                    f"{sorted(k for k, v in r_x.items() if v)}; pattern by pattern the targets match {sorted(k for k, v in targeted.items() if v)} "
                                    f"and the exclusions {sorted(k for k, v in excluded.items() if v)}")
                        # cross-check of the reference selection: the real final check on the same restriction, every exclusion and filter off
                        if ns.restrict and any(targeted.values()):
                            ns0 = make_ns()
                            ns0.restrict = ns.restrict
                            try:
                                pclean._dist_validate_args(None, ns0)
                                sel0 = sorted(os.path.basename(t) for _, t in ns0.remove)
                                if sel0 != selected and glue is None:
                                    glue = (f"the file-name patterns built from all targeted packages together select {sel0}; one targeted package name "
                                            f"at a time they select {selected}")
                            except MetadataException:
                                pass
                        sys.stdout = TtyStdout(old_stdout)
                        try:
                            ret = ns.main_func(ns, FakeOut(), FakeOut())
                        finally:
                            sys.stdout = old_stdout
                    left = sorted(os.listdir(distdir))
                except Exception as e:
                    ctx.violation(scen, f"pclean dist raised {type(e).__name__}: {e}")
                    continue
                finally:
                    shutil.rmtree(distdir, ignore_errors=True)
                    if xfile is not None:
                        os.unlink(xpath)
                removed = sorted(set(f["name"] for f in files) - set(left))
                cases.append((scen, selected, has_restrict, removed, left, ret, aborted, glue))
                reqs.append({"cmd": "c46.clean",
                             "files": [{"name": f["name"], "mtime": f["mtime"], "size": f["size"]} for f in files],
                             "selected": selected, "installed": inst_flat,
                             "repo": [{"distfiles": p["files"], "fetch": p["fetch"], "targeted": targeted[p["cpv"]], "excluded": excluded[p["cpv"]],
                                       "broken": bool(p["broken"])} for p in pkgs],
                             "opts": {"installed": o["installed"], "exists": o["exists"], "fetch_restricted": o["fetch_restricted"],
                                      "has_restrict": has_restrict, "has_exclude": has_exclude,
                                      "modified": None if thr_m is None else math.ceil(thr_m),
                                      "size": thr_s}})
            for (scen, selected, has_restrict, removed, left, ret, aborted, glue), req, m in zip(cases, reqs, ctx.model(reqs)):
                o = scen["opts"]
                if m == "bad-op":
                    ctx.mismatch(scen, "driver rejected the request")
                    continue
                fileinfo = {f["name"]: f for f in scen["files"]}
                needed = set()
                if o["installed"]:
                    needed |= {f for fs in req["installed"] for f in fs}
                # (what a package with unreadable metadata needs is unknowable: only the readable ones count)
                readable = [p for p in req["repo"] if not p["broken"]]
                if o["exists"]:
                    needed |= {f for p in readable for f in p["distfiles"]}
                if o["fetch_restricted"]:
                    needed |= {f for p in readable if p["fetch"] for f in p["distfiles"]}
                if req["opts"]["has_exclude"]:
                    needed |= {f for p in readable if p["excluded"] for f in p["distfiles"]}
                # with a target restriction only the files its patterns select may go, and none when it matches no package
                any_targeted = any(p["targeted"] for p in req["repo"])
                sel = (set(selected) if any_targeted else set()) if has_restrict else set(fileinfo)
                ctx.count("targets_" + ("none" if not has_restrict else "match_some" if any_targeted else "match_nothing"))
                kept_needed = sel & needed & set(fileinfo)
                ctx.case(scen, bool(removed) and bool(kept_needed), key=str(scen))
                ctx.count("opts_" + "".join(c for c, f in zip("IEfTxXms", [o["installed"], o["exists"], o["fetch_restricted"], scen["targets"], scen["excludes"],
                                                                               scen["exclude_file_lines"], o["modified"], o["size"]]) if f))
                ctx.count("targeted_names_%d" % min(3, len({c.rsplit("-", 1)[0] for c, p in zip((x[0] for x in scen["repo"]), req["repo"]) if p["targeted"]})))
                ctx.count("removed_%d" % min(len(removed), 5))
                if aborted:
                    ctx.count("stopped_by_unreadable_metadata")
                    if removed:
                        ctx.violation(scen, f"the command failed with MetadataException and yet removed {removed}")
                elif any(p["broken"] for p in req["repo"]):
                    ctx.count("unreadable_package_not_looked_at")
                if o["pretend"]:
                    ctx.count("pretend")
                    if removed:
                        ctx.violation(scen, f"--pretend removed {removed}")
                    continue
                if ret != 0:
                    ctx.violation(scen, f"_remove returned {ret}")
                bad = [f for f in removed if f in needed]
                if bad:
                    ctx.violation(scen, f"removed distfiles that had to be kept: {bad}")
                stray = [f for f in removed if f not in sel]
                if stray:
                    ctx.violation(scen, f"removed files not selected by the targets: {stray}")
                thr_m, thr_s = req["opts"]["modified"], req["opts"]["size"]
                unf = [f for f in removed if (thr_m is not None and not fileinfo[f]["mtime"] < thr_m) or (thr_s is not None and not fileinfo[f]["size"] < thr_s)]
                if unf:
                    ctx.violation(scen, f"removed files that do not pass the file filters: {unf}")
                if glue:
                    ctx.mismatch(scen, glue)
                if aborted != m["aborted"] or removed != m["removed"] or left != sorted(m["left"]):
                    ctx.mismatch(scen, f"pclean {'stopped with MetadataException' if aborted else 'ran'}, removed {removed} (left {left}); the Lean model "
                                       f"{'stops' if m['aborted'] else 'runs'}, removes {m['removed']} (left {sorted(m['left'])})")
    finally:
        shutil.rmtree(scratch, ignore_errors=True)


LEVEL_TEXT = ("Kernel-checked Lean 4 theorems about a model of the set algebra of pclean dist (_dist_validate_args, the file filters, _remove): for every "
              "distdir, repository, installed set and option combination, only files selected by the targets that pass the filters are removed, and no file "
              "needed by an installed package (--installed), by any package in the repositories (--exists, with or without targets), by a fetch-restricted "
              "package (--fetch-restricted) or by an excluded package is removed; what is left is exactly the rest; a repository package whose metadata cannot be read stops the command before anything is removed whenever one "
              "of its loops looks at it, and is never read otherwise, so needed files survive in every repository (needed_files_survive). Target selection and restriction "
              "matching are parameters, instantiated from the real code; the real functions run on real scratch repositories and a real scratch distdir.")
LEVEL_NOTE = ("Trusted: Lean kernel; per-pattern restriction matching and the per-name file pattern as parameters (the real code's combination of them is "
              "compared with a pattern-by-pattern / name-by-name reference on every run); a stand-in domain object under the real argument parser; os primitives.")
