"""C18 — merging places exactly the package contents on the live filesystem.

Also hosts the machinery shared with C19/C20: scratch roots, snapshots, os-level interposition (recording of
every mutating call with its errno, crash / EIO injection), the generators of pre-existing roots and contents
sets, and the JSON encoding of file systems / entries for the Lean driver.
"""
import builtins
import errno
import os
import shutil
import stat
import tempfile
import time

PID = "C18"
LEAN_MODULES = ["Pkgcore.Props.C18"]
OBLIGATIONS = [
    "Pkgcore.C18.merge_places_contents_partial",
    "Pkgcore.C18.merge_places_contents_counterexample_tmpclash",
    "Pkgcore.C18.merge_places_contents_counterexample_symoverdir",
    "Pkgcore.C18.merge_frame",
    "Pkgcore.C18.hardlink_groups",
    "Pkgcore.C18.sgid_dir_group_inherited",
    "Pkgcore.C18.merge_log_consistent",
    "Pkgcore.C18.frame_bounded_iff",
]
TRUSTED = [
    "the abstract file system of Model/C18.lean (literal paths, inode-sharing hard links, POSIX error cases) stands for the kernel; "
    "tied to it by comparing, call by call, the os-level trace (operation, arguments, errno) and the final snapshot of real merges with the model's",
    "snakeoil data_source.transfer_to_path / ensure_dirs / unlink_if_exists are modelled as the system calls they were observed to make",
    "os-function interposition (os.*, builtins.open) sees every mutating call pkgcore makes in-process; `cp -Rp` (fsDev fallback) is never reached by the generated entry types",
]
ASSUMPTIONS = [
    "literal paths in the Lean model: cases with a symlinked *ancestor* directory are checked on the real code against the property directly (python oracle + Lean spec on realpath-resolved locations), not against the model",
    "directory mtimes are outside the observable (POSIX updates them whenever an entry is created in the directory); checked only for directories that receive no entry",
    "single device (no EXDEV), no device nodes, file data below the 32 KiB transfer window, no concurrent writers; set-group-ID "
    "directories are modelled (group and bit inheritance of what is created inside, snakeoil's re-chmod of the last directory it makes "
    "below one); chown(2) clearing set-uid/set-gid of a non-directory is not in the model — the modelled code only ever chowns objects "
    "it has just created (mode 0644/0666 & ~umask) or directories, which the call-by-call comparison would show otherwise",
    "contents entries carry all of mode/uid/gid/mtime (as a package image does)",
]
RULE = ("random contents trees (directories, regular files incl. hard-link groups with equal/unequal attributes, symlinks to files/dirs/dangling, "
        "fifos, odd names such as 'x#new', ' ', unicode) merged into random pre-existing roots (same-type, different-type, dangling and "
        "directory symlinks, stale '#new' files, unrelated files, live set-uid/set-gid files, set-group-ID and sticky directories owned by "
        "groups other than the merging process') through merge_contents with and without offset; shared directories in the style of "
        "/var/games (set-group-ID, foreign group; live, shipped or both) with entries recorded for the process' own identity, the "
        "directory's group or a third party; when model and code disagree on a case, the property is evaluated on the inputs next to it "
        "(other offset mode, re-rooted below a set-group-ID directory, owners = / != process identity, fresh install, re-merge, single "
        "entries); non-trivial = the merge succeeds, has at least 3 entries and at least one entry lands on a pre-existing path")

T_CUT = 1_200_000_000      # mtimes above this are 'now' (never set by the code under test) -> canonical 0
NAMES = ["a", "b", "c", "d", "lib", "lib64", "bin", "f.txt", "x y", "ü", "a#new", "b#new", "-", ".h"]


# ---------------------------------------------------------------------------------------------- interposition

class Crash(BaseException):
    """simulated process death: propagates through every `except Exception/OSError`"""


def _dangling_root():
    """an absolute path (directly below /) that does not exist when the run starts — and cannot come into existence while it
    runs: the Recorder refuses every mutating call outside the scratch area.  Absolute symlink targets of the generators
    live below it (for the model an absolute target is an opaque dangling string).  Chosen per run; a fixed name would
    make every later run depend on what an earlier run of broken code may have left there."""
    n = 0
    while True:
        p = "/nonexistent-verif-%d-%d" % (os.getpid(), n)
        if not os.path.lexists(p):
            return p
        n += 1


DANGLING = _dangling_root()


def redangle(obj):
    """replayed cases were recorded with another run's dangling root: re-point their absolute targets to this run's"""
    if isinstance(obj, str):
        if obj.startswith("/nonexistent-verif"):
            return DANGLING + obj[len(obj.split("/")[1]) + 1:]
        return obj
    if isinstance(obj, list):
        return [redangle(x) for x in obj]
    if isinstance(obj, dict):
        return {k: redangle(v) for k, v in obj.items()}
    return obj


MUTATORS = ["mkdir", "rmdir", "unlink", "remove", "symlink", "mkfifo", "mknod", "link", "rename", "replace",
            "lchown", "chown", "chmod", "utime", "truncate", "makedirs", "removedirs"]


class Recorder:
    """Context manager: every mutating os.* call / write-mode open / write under `root` is logged as a model-level
    operation with its errno.  crash_at=k: the k-th mutating call (0-based) is not performed and the process
    'dies' (all later mutating calls raise Crash too; a crashing write stores half its data).  eio_at=k: the
    k-th call fails with EIO instead (the code's own error handling then runs)."""

    def __init__(self, root, crash_at=None, eio_at=None, aliases=()):
        self.root = root
        self.aliases = tuple(aliases)     # other spellings of the root (e.g. a symlink leading to it)
        self.ops = []
        self.crash_at, self.eio_at = crash_at, eio_at
        self.crashed = False
        self.n = 0
        self.saved = {}
        self.outside = []
        self.half_write = False     # a crashing write(2) stores the first half of its data

    def rel(self, p):
        p = os.fspath(p)
        if isinstance(p, bytes):
            p = os.fsdecode(p)
        p = os.path.normpath(p)
        for r in (self.root,) + self.aliases:
            if p == r:
                return []
            if p.startswith(r + "/"):
                return p[len(r) + 1:].split("/")
        self.outside.append(p)
        return ["!outside", p]

    def inside(self, p):
        p = os.path.normpath(p) + "/"
        return any(p.startswith(r + "/") for r in (self.root,) + self.aliases)

    def refuse_escape(self, p):
        """a mutating call on a path outside the scratch area (the directory holding the root, its aliases, the system's
        temporary directory) is NOT performed: it is recorded in `outside` (the harnesses report that as a violation) and
        fails with EACCES.  Code under test that resolves a location through an absolute symlink target must not be able to
        litter the machine (and thereby change what later runs of the generators mean by a dangling target)."""
        p = os.fspath(p)
        if isinstance(p, bytes):
            p = os.fsdecode(p)
        p = os.path.normpath(os.path.join(os.getcwd(), p)) + "/"
        allowed = (os.path.dirname(self.root), tempfile.gettempdir()) + tuple(os.path.dirname(a) for a in self.aliases)
        if any(p.startswith(r.rstrip("/") + "/") for r in allowed):
            return
        self.outside.append(p.rstrip("/"))
        raise PermissionError(errno.EACCES, "verification harness: mutating call outside the scratch area refused", p.rstrip("/"))

    def umask(self):
        um = os.umask(0)
        os.umask(um)
        return um

    def gate(self, rec):
        if self.crashed:
            raise Crash()
        k = self.n
        self.n += 1
        if self.crash_at == k:
            self.crashed = True
            raise Crash()
        self.ops.append(rec)
        if self.eio_at == k:
            rec.append("EIO")
            raise OSError(errno.EIO, "injected EIO")

    def _wrap(self, name):
        real = getattr(os, name)
        self.saved[name] = real
        R = self

        def f(*a, **kw):
            for i_ in ((1,) if name == "symlink" else (0, 1) if name in ("link", "rename", "replace") else (0,)):
                if not isinstance(a[i_], int):
                    R.refuse_escape(a[i_])
            if name == "symlink":
                rec = ["symlink", a[0], R.rel(a[1])]
            elif name in ("link", "rename", "replace"):
                rec = ["rename" if name == "replace" else name, R.rel(a[0]), R.rel(a[1])]
            elif name in ("lchown", "chown"):
                rec = ["lchown", R.rel(a[0]), a[1], a[2]]
                if name == "chown" and kw.get("follow_symlinks", True) and os.path.islink(a[0]):
                    rec[0] = "chown-follow"
            elif name == "chmod":
                rec = ["chmod", R.rel(a[0]), a[1] if len(a) > 1 else kw["mode"]]
            elif name == "mkdir":
                m = a[1] if len(a) > 1 else kw.get("mode", 0o777)
                rec = ["mkdir", R.rel(a[0]), m & ~R.umask() & 0o7777]
            elif name == "mkfifo":
                m = a[1] if len(a) > 1 else kw.get("mode", 0o666)
                rec = ["mkfifo", R.rel(a[0]), m & ~R.umask() & 0o7777]
            elif name == "utime":
                times = a[1] if len(a) > 1 else kw.get("times")
                follow = kw.get("follow_symlinks", True)
                try:
                    isdir = stat.S_ISDIR((os.stat if follow else os.lstat)(a[0]).st_mode)
                except OSError:
                    isdir = False
                rec = ["utime-dir" if isdir else "utime", R.rel(a[0]), int(times[1]) if times else -1, bool(follow)]
            elif name in ("unlink", "remove"):
                rec = ["unlink", R.rel(a[0])]
            else:
                rec = [name, R.rel(a[0])]
            R.gate(rec)
            try:
                r = real(*a, **kw)
            except OSError as e:
                rec.append(errno.errorcode.get(e.errno, str(e.errno)))
                raise
            rec.append(None)
            return r
        f.__name__ = name
        return f

    def __enter__(self):
        for n in MUTATORS:
            w = self._wrap(n)
            setattr(os, n, w)
            if self.saved[n] in os.supports_follow_symlinks:
                os.supports_follow_symlinks.add(w)
        self.real_open = builtins.open
        R = self

        def open_(file, mode="r", *a, **kw):
            if isinstance(file, int) or not any(c in mode for c in "wax+"):
                return R.real_open(file, mode, *a, **kw)
            path = os.fspath(file)
            if not R.inside(path):
                R.refuse_escape(path)
                return R.real_open(file, mode, *a, **kw)      # e.g. the engine's own tempdir
            if "b" not in mode:
                raise RuntimeError("text-mode write under the scratch root is not modelled: %r %r" % (path, mode))
            if mode in ("rb+", "r+b"):
                # no creation: only a mutation if it succeeds (the later writes are)
                try:
                    fh = R.real_open(file, mode, 0)
                except OSError as e:
                    if e.errno != errno.ENOENT:
                        # the open-for-writing attempt itself fails (no retry with "wb+" follows)
                        R.gate(["creat", R.rel(path), 0o666 & ~R.umask(), errno.errorcode.get(e.errno, str(e.errno))])
                    raise
                rec = ["openrw", R.rel(path)]
                R.gate(rec)
                rec.append(None)
                return _WFile(R, fh, R.rel(path))
            rec = ["creat", R.rel(path), 0o666 & ~R.umask()]
            R.gate(rec)
            try:
                fh = R.real_open(file, mode, 0)
            except OSError as e:
                rec.append(errno.errorcode.get(e.errno, str(e.errno)))
                raise
            rec.append(None)
            return _WFile(R, fh, R.rel(path))
        builtins.open = open_
        return self

    def __exit__(self, *a):
        for n, f in self.saved.items():
            os.supports_follow_symlinks.discard(getattr(os, n))
            setattr(os, n, f)
        builtins.open = self.real_open
        return False


class _WFile:
    """unbuffered file wrapper: each write() is one recorded system call"""

    def __init__(self, R, fh, rel):
        object.__setattr__(self, "_R", R)
        object.__setattr__(self, "_fh", fh)
        object.__setattr__(self, "_rel", rel)

    def write(self, data):
        data = bytes(data)
        R = self._R
        if R.crashed:
            raise Crash()
        k = R.n
        R.n += 1
        if R.crash_at == k:
            if R.half_write:
                self._fh.write(data[: len(data) // 2])
            R.crashed = True
            raise Crash()
        rec = ["write", self._rel, data.hex()]
        R.ops.append(rec)
        if R.eio_at == k:
            self._fh.write(data[: len(data) // 2])
            rec.append("EIO")
            raise OSError(errno.EIO, "injected EIO")
        r = self._fh.write(data)
        rec.append(None)
        return r

    def close(self):
        self._fh.close()

    def __enter__(self):
        return self

    def __exit__(self, *a):
        self.close()

    def __getattr__(self, n):
        return getattr(self._fh, n)

    def __setattr__(self, n, v):
        if n == "exceptions":
            object.__setattr__(self, n, v)
        else:
            setattr(self._fh, n, v)


def model_trace(ops):
    """recorded real calls -> the model's vocabulary (utime on directories is outside the model)"""
    out = []
    for r in ops:
        if r[0] == "utime-dir":
            continue
        out.append(list(r))
    return out


# ---------------------------------------------------------------------------------------------- scratch roots

class Sandbox:
    """base/root = the scratch root; base/keep = hard links keeping every pre-existing inode alive, so that the
    kernel cannot hand a freed inode number to a new file (inode identity is part of the observable);
    base/img = source files of local_source entries; base/tmp = engine tempdir."""

    def __init__(self):
        self.base = os.path.realpath(tempfile.mkdtemp(prefix="verif-fs-"))
        self.root = os.path.join(self.base, "root")
        self.keep = os.path.join(self.base, "keep")
        self.img = os.path.join(self.base, "img")
        self.tmp = os.path.join(self.base, "tmp")
        for d in (self.keep, self.img, self.tmp):
            os.mkdir(d)
        self.nkeep = 0

    def path(self, comps):
        return os.path.join(self.root, *comps) if comps else self.root

    def build(self, tree, mkroot=True):
        """tree: list of node dicts {p, k, data, target, mode, uid, gid, mtime, link_to} in creation order"""
        if mkroot:
            os.mkdir(self.root, 0o755)
        for nd in tree:
            p = self.path(nd["p"])
            k = nd["k"]
            if k == "file" and nd.get("link_to") is not None:
                os.link(self.path(nd["link_to"]), p)
                continue
            # create; owner FIRST, then permissions and mtime: chown(2) clears set-uid/set-gid on non-directories (for
            # root as well), so the other order silently turns a pre-existing 04711 file into a 0711 one; and what is
            # made inside a set-group-ID directory starts with the directory's group
            if k == "dir":
                os.mkdir(p)
            elif k == "file":
                with open(p, "wb") as f:
                    f.write(bytes.fromhex(nd["data"]))
            elif k == "sym":
                os.symlink(nd["target"], p)
            elif k == "fifo":
                os.mkfifo(p)
            if CAN_CHOWN:
                os.lchown(p, nd["uid"], nd["gid"])
            elif k != "sym" and os.lstat(p).st_gid != MY_GID:
                os.lchown(p, -1, MY_GID)
            if k != "sym":
                os.chmod(p, nd["mode"])
            if k == "sym":
                os.utime(p, (nd["mtime"], nd["mtime"]), follow_symlinks=False)
            elif k != "dir":
                os.utime(p, (nd["mtime"], nd["mtime"]))
        # keep-alive links
        for dp, dns, fns in os.walk(self.root):
            for n in fns + [d for d in dns if os.path.islink(os.path.join(dp, d))]:
                try:
                    os.link(os.path.join(dp, n), os.path.join(self.keep, "k%d" % self.nkeep), follow_symlinks=False)
                    self.nkeep += 1
                except OSError:
                    pass

    def cleanup(self):
        shutil.rmtree(self.base, ignore_errors=True)


CAN_CHOWN = os.geteuid() == 0
MY_UID, MY_GID = os.geteuid(), os.getegid()


def snapshot(root):
    """{path tuple: node} with real (dev, ino); directories carry mtime too (used only by the leaf-dir check)"""
    out = {}
    if not os.path.lexists(root):
        return out

    def add(p, comps):
        st = os.lstat(p)
        m = st.st_mode
        nd = {"mode": stat.S_IMODE(m), "uid": st.st_uid, "gid": st.st_gid, "mtime": int(st.st_mtime),
              "id": (st.st_dev, st.st_ino)}
        if stat.S_ISDIR(m):
            nd["k"] = "dir"
        elif stat.S_ISLNK(m):
            nd["k"] = "sym"
            nd["target"] = os.readlink(p)
            nd["mode"] = 0o777
        elif stat.S_ISREG(m):
            nd["k"] = "file"
            with open(p, "rb") as f:
                nd["data"] = f.read().hex()
        elif stat.S_ISFIFO(m):
            nd["k"] = "fifo"
        else:
            nd["k"] = "other"
        out[comps] = nd
        if nd["k"] == "dir":
            for n in sorted(os.listdir(p)):
                add(os.path.join(p, n), comps + (n,))
    add(root, ())
    return out


class Ids:
    """canonical inode numbers: pre-existing inodes keep the number given in the pre snapshot"""

    def __init__(self):
        self.real = {}
        self.n = 0

    def of_real(self, key):
        if key not in self.real:
            self.n += 1
            self.real[key] = self.n
        return self.real[key]


def fs_json(snap, ids):
    """snapshot -> driver encoding; ids assigned in sorted path order"""
    out = []
    for comps in sorted(snap):
        nd = snap[comps]
        d = {"p": list(comps), "ino": ids.of_real(nd["id"]), "k": nd["k"], "mode": nd["mode"], "uid": nd["uid"], "gid": nd["gid"],
             "mtime": 0 if (nd["k"] == "dir" or nd["mtime"] > T_CUT) else nd["mtime"]}
        if nd["k"] == "file":
            d["data"] = nd["data"]
        if nd["k"] == "sym":
            d["target"] = nd["target"]
        out.append(d)
    return out


def canon_fs(fsj, npre):
    """driver-encoded fs -> {path: node} with inode numbers above `npre` (fresh ones) renumbered in sorted path order"""
    ren = {}
    out = {}
    for d in sorted(fsj, key=lambda d: d["p"]):
        i = d["ino"]
        if i > npre:
            if i not in ren:
                ren[i] = "new%d" % len(ren)
            i = ren[i]
        nd = {k: v for k, v in d.items() if k not in ("p", "ino")}
        nd["ino"] = i
        out[tuple(d["p"])] = nd
    return out


# ---------------------------------------------------------------------------------------------- generators

def gen_data(rng):
    k = rng.random()
    if k < 0.12:
        return ""
    if k < 0.9:
        return bytes(rng.randrange(256) for _ in range(rng.randint(1, 12))).hex()
    return bytes(rng.randrange(256) for _ in range(rng.randint(200, 3000))).hex()


def gen_owner(rng):
    if not CAN_CHOWN:
        return MY_UID, MY_GID
    return rng.choice([0, 0, 0, 1000, 1234]), rng.choice([0, 0, 0, 100, 1234])


def gen_pre(rng, size=None):
    """random pre-existing root: list of nodes in creation order (parents first)"""
    tree, dirs, used = [], [()], {()}
    files = []
    n = rng.randint(0, 9) if size is None else size
    for _ in range(n):
        parent = rng.choice(dirs)
        if len(parent) >= 3:
            parent = parent[:2]
        name = rng.choice(NAMES)
        p = parent + (name,)
        if p in used:
            continue
        used.add(p)
        uid, gid = gen_owner(rng)
        k = rng.random()
        nd = {"p": list(p), "uid": uid, "gid": gid, "mtime": rng.choice([5, 1000, 77777, 1000000000])}
        if k < 0.4:
            nd.update(k="dir", mode=rng.choice([0o755, 0o755, 0o700, 0o775, 0o711, 0o2775, 0o2755, 0o3777]))
            dirs.append(p)
        elif k < 0.7:
            nd.update(k="file", data=gen_data(rng), mode=rng.choice([0o644, 0o600, 0o755, 0o444, 0o4755, 0o2755]))
            if files and rng.random() < 0.2:
                nd["link_to"] = list(rng.choice(files))
            files.append(p)
        elif k < 0.92:
            tk = rng.random()
            if tk < 0.35 and len(dirs) > 1:
                t = rng.choice(dirs[1:])
                target = os.path.relpath("/" + "/".join(t), "/" + "/".join(parent)) if rng.random() < 0.8 else t[-1]
            elif tk < 0.6 and files:
                t = rng.choice(files)
                target = os.path.relpath("/" + "/".join(t), "/" + "/".join(parent))
            elif tk < 0.9:
                target = rng.choice(["nowhere", "../nope", "a/b/c", DANGLING + "/x"])
            else:
                target = rng.choice(NAMES)
            nd.update(k="sym", target=target, mode=0o777)
        else:
            nd.update(k="fifo", mode=rng.choice([0o644, 0o600]))
        tree.append(nd)
    return tree


def gen_entries(rng, pre, wellformed=True):
    """random contents: list of entry dicts in contents (dict) order"""
    pre_paths = [tuple(nd["p"]) for nd in pre]
    pre_kind = {tuple(nd["p"]): nd["k"] for nd in pre}
    ents = {}
    dirs = [()]
    n = rng.randint(1, 9)
    groups = []
    for _ in range(n * 3):
        if len(ents) >= n:
            break
        r = rng.random()
        if r < 0.35 and pre_paths:
            p = rng.choice(pre_paths)
        else:
            parent = rng.choice(dirs + [tuple(q) for q in pre_paths if pre_kind[q] == "dir"][:4])
            if rng.random() < 0.15:
                parent = parent + (rng.choice(NAMES),)          # missing parent (not an entry itself)
            p = parent + (rng.choice(NAMES),)
        if p in ents or p == () or len(p) > 5:
            continue
        uid, gid = gen_owner(rng)
        e = {"p": list(p), "mode": rng.choice([0o644, 0o755, 0o600, 0o4711, 0o664, 0o750, 0o2755]), "uid": uid, "gid": gid,
             "mtime": rng.choice([7, 1234, 1000, 999999999, 31337])}
        k = rng.random()
        have = pre_kind.get(p)
        if wellformed and have == "dir" and rng.random() < 0.9:
            k = 0.0
        elif wellformed and have in ("file", "fifo") and k < 0.3 and rng.random() < 0.9:
            k = 0.5
        if k < 0.3:
            e.update(k="dir", mode=rng.choice([0o755, 0o755, 0o700, 0o775, 0, 0o2775, 0o1777]))
            dirs.append(p)
        elif k < 0.72:
            e.update(k="reg", data=gen_data(rng), key=None, src=rng.choice(["mem", "file"]))
            if rng.random() < 0.6:
                if groups and rng.random() < 0.6:
                    g = rng.choice(groups)
                    e.update(key=g["key"], data=g["data"])
                    if rng.random() < 0.8:
                        e.update(mode=g["mode"], uid=g["uid"], gid=g["gid"], mtime=g["mtime"])
                else:
                    e["key"] = [rng.choice([1, 2]), rng.randint(2, 6)]
                    groups.append(dict(e))
        elif k < 0.92:
            e.update(k="sym", target=rng.choice(["a", "../b", "lib64", "nowhere", DANGLING + "/t", "./c/../d"]), mode=0o777)
        else:
            e.update(k="fifo")
        ents[p] = e
    out = list(ents.values())
    if wellformed:
        # tree-shaped: drop entries below a non-directory entry
        nondirs = {tuple(e["p"]) for e in out if e["k"] != "dir"}
        out = [e for e in out if not any(tuple(e["p"][:i]) in nondirs for i in range(1, len(e["p"])))]
    rng.shuffle(out)
    return out


# ---- packages, builds and re-merges -------------------------------------------------------------------------
# sibling names that are string prefixes of each other (python3.1 / python3.11, man1 / man1p), a name sorting
# between "x" and "x/" ("a-b"), odd names
PKG_NAMES = ["bin", "lib", "lib64", "man1", "man1p", "foo", "foo2", "a", "a2", "a-b", "conf", ".keep", "x y", "ü", "doc"]


def gen_package(rng, top=(), nmax=7, src_file=0.7, twins=0.0):
    """a package image: a tree-shaped contents set with every parent directory recorded, sibling names sharing
    prefixes, empty directories, files (mostly with an on-disk source, as ${D} has), symlinks, fifos"""
    ents = {}
    dirs = [tuple(top)]
    for i in range(1, len(top) + 1):
        uid, gid = gen_owner(rng)
        ents[tuple(top[:i])] = {"p": list(top[:i]), "k": "dir", "mode": 0o755, "uid": uid, "gid": gid, "mtime": 1111}
    for _ in range(rng.randint(2, nmax)):
        parent = rng.choice(dirs)
        if len(parent) - len(top) >= 3:
            continue
        p = parent + (rng.choice(PKG_NAMES),)
        if p in ents:
            continue
        uid, gid = gen_owner(rng)
        e = {"p": list(p), "mode": rng.choice([0o644, 0o755, 0o600, 0o4711]), "uid": uid, "gid": gid,
             "mtime": rng.choice([7, 1234, 31337, 999999999])}
        k = rng.random()
        if k < 0.38:
            e.update(k="dir", mode=rng.choice([0o755, 0o700, 0o775, 0o2775]))
            dirs.append(p)
            if rng.random() < twins:
                # a sibling whose name extends this one (man1 / man1p, python3.1 / python3.11), both populated
                q = parent + (p[-1] + rng.choice(["p", "2", "1", "-b", ".d", " x"]),)
                if q not in ents:
                    ents[q] = dict(e, p=list(q))
                    dirs.append(q)
                    for d_ in (p, q):
                        for nm in rng.sample(PKG_NAMES, rng.randint(1, 2)):
                            f = d_ + (nm,)
                            if f not in ents:
                                ents[f] = {"p": list(f), "k": "reg", "data": gen_data(rng), "key": None, "src": "mem", "mode": 0o644,
                                           "uid": uid, "gid": gid, "mtime": 1234}
        elif k < 0.82:
            e.update(k="reg", data=gen_data(rng), key=None, src="file" if rng.random() < src_file else "mem")
        elif k < 0.95:
            e.update(k="sym", target=rng.choice(["a", "../b", "nowhere", "foo"]), mode=0o777)
        else:
            e.update(k="fifo")
        ents[p] = e
    out = list(ents.values())
    rng.shuffle(out)
    return out


def nodes_of(entries):
    """the live nodes a completed merge of `entries` leaves behind (parents first)"""
    out = []
    for e in sorted(entries, key=lambda e: len(e["p"])):
        nd = {"p": list(e["p"]), "uid": e["uid"], "gid": e["gid"], "mtime": e["mtime"], "mode": e["mode"]}
        nd.update({"dir": dict(k="dir"), "reg": dict(k="file", data=e.get("data", "")),
                   "sym": dict(k="sym", target=e.get("target", "x"), mode=0o777), "fifo": dict(k="fifo")}[e["k"]])
        out.append(nd)
    return out


def next_build(rng, entries, top=()):
    """the next build of the same package: most entries come back — unchanged, or with the same data and mtime but
    other ownership and/or permissions, or new data of the same / another size, or another mtime, or another type —
    some are dropped, some are new"""
    out = []
    dropped = set()
    for e in entries:
        e = dict(e)
        p = tuple(e["p"])
        if any(p[:i] in dropped for i in range(1, len(p))):
            continue
        if e["k"] == "dir":
            r = rng.random()
            if r < 0.08 and len(p) > len(top):
                dropped.add(p)
                continue
            if r < 0.3:
                e["uid"], e["gid"] = gen_owner(rng)
                e["mode"] = rng.choice([0o755, 0o700, 0o775, 0o2755])
            out.append(e)
            continue
        r = rng.random()
        if r < 0.2:
            pass
        elif r < 0.45:
            e["uid"], e["gid"] = gen_owner(rng)
            e["mode"] = rng.choice([m for m in (0o644, 0o755, 0o600, 0o4711, 0o700) if m != e["mode"]])
        elif r < 0.52:
            e["uid"], e["gid"] = gen_owner(rng)
        elif r < 0.59:
            e["mode"] = rng.choice([0o644, 0o755, 0o600, 0o700])
        elif r < 0.66:
            e["mtime"] = e["mtime"] + 1
        elif r < 0.74 and e["k"] == "reg" and e["data"]:
            e["data"] = bytes((b + 1) % 256 for b in bytes.fromhex(e["data"])).hex()      # same size, same mtime
        elif r < 0.84 and e["k"] == "reg":
            e["data"] = gen_data(rng)
            e["mtime"] = rng.choice([e["mtime"], 4242])
        elif r < 0.9:
            e.update(k=rng.choice(["sym", "fifo", "reg"]))
            if e["k"] == "sym":
                e.update(target="nowhere", mode=0o777)
            if e["k"] == "reg":
                e.update(data=gen_data(rng), key=None, src="file")
                e["mode"] = e["mode"] if e["mode"] != 0o777 else 0o644
        else:
            dropped.add(p)
            continue
        out.append(e)
    have = {tuple(e["p"]) for e in out}
    dirs = [tuple(e["p"]) for e in out if e["k"] == "dir"] or [tuple(top)]
    for _ in range(rng.randint(0, 2)):
        p = rng.choice(dirs) + (rng.choice(PKG_NAMES),)
        if p in have or p in dropped:
            continue
        uid, gid = gen_owner(rng)
        have.add(p)
        out.append({"p": list(p), "k": "reg", "data": gen_data(rng), "key": None, "src": "file", "mode": 0o644,
                    "uid": uid, "gid": gid, "mtime": 31337})
    rng.shuffle(out)
    return out


def gen_remerge(rng, nmax=5):
    """(pre tree, entries): the root already holds an earlier build of the package (plus unrelated paths)"""
    b1 = gen_package(rng, nmax=nmax)
    pre = nodes_of(b1)
    have = {tuple(n["p"]) for n in pre}
    for nd in gen_pre(rng, size=rng.randint(0, 3)):
        p = tuple(nd["p"])
        if p in have or any(p[:i] in have and next(n for n in pre if tuple(n["p"]) == p[:i])["k"] != "dir" for i in range(1, len(p))) \
                or any(p[:i] not in have for i in range(1, len(p))):
            continue
        if nd.get("link_to") is not None:
            continue
        have.add(p)
        pre.append(nd)
    return pre, next_build(rng, b1)


FOREIGN_GIDS = [35, 100, 1234]


def gen_sgid(rng):
    """(pre tree, entries): a shared directory in the style of /var/games (root:games 02775), /var/mail, /usr/local/share/<site>:
    a set-group-ID directory of a group that is not the merging process' — already on the live root (with or without files
    of an earlier build), shipped by the package, or both — and entries below it recorded for the process' own identity, for
    the directory's group, or for somebody else: files (hard-link groups too), symlinks, fifos, sub-directories, files
    below parents that are not recorded.  What is *created* in such a directory starts with the directory's group."""
    g = rng.choice(FOREIGN_GIDS) if CAN_CHOWN else MY_GID
    top = rng.choice([["games"], ["var", "games"], ["srv", "x y"], ["a"]])
    dmode = rng.choice([0o2775, 0o2775, 0o2755, 0o3777, 0o2770])
    pre, ents = [], []
    live = rng.random() < 0.75
    shipped = (not live) or rng.random() < 0.6
    for i in range(1, len(top)):
        pre.append(_d(top[:i]))
        if rng.random() < 0.7:
            ents.append(_e(top[:i], "dir", mtime=1111))
    if live:
        pre.append(_d(top, mode=dmode, uid=MY_UID, gid=g))
    else:
        pre = pre if rng.random() < 0.7 else []
    if shipped:
        ents.append(_e(top, "dir", mode=dmode if rng.random() < 0.8 else 0o755, uid=MY_UID, gid=g if rng.random() < 0.8 else MY_GID, mtime=1111))
    owners = [(MY_UID, MY_GID), (MY_UID, MY_GID), (MY_UID, g)] + ([gen_owner(rng)] if CAN_CHOWN else [])
    names = rng.sample(["score", "record", "new", "l", "p", "sub", "x y", "save#new", "ü"], rng.randint(2, 6))
    group = None
    for nm in names:
        uid, gid = rng.choice(owners)
        k = rng.random()
        loc = top + [nm]
        if k < 0.12:
            loc = top + [rng.choice(["auto", "auto2"])] + ([rng.choice(["deep", "d2"])] if rng.random() < 0.5 else []) + [nm]     # unrecorded parents
        if k < 0.5:
            e = _e(loc, "reg", data=gen_data(rng), src=rng.choice(["mem", "file"]), mode=rng.choice([0o644, 0o664, 0o2755, 0o4711, 0o600]),
                   uid=uid, gid=gid, mtime=rng.choice([7, 1234, 31337]))
            if rng.random() < 0.35:
                if group is None:
                    group = dict(e, key=[1, rng.randint(2, 6)])
                e = dict(group, p=loc) if rng.random() < 0.8 else dict(e, key=group["key"], data=group["data"])
        elif k < 0.65:
            e = _e(loc, "sym", target=rng.choice(["score", "../x", "nowhere"]), uid=uid, gid=gid)
        elif k < 0.75:
            e = _e(loc, "fifo", mode=rng.choice([0o660, 0o600]), uid=uid, gid=gid)
        else:
            e = _e(loc, "dir", mode=rng.choice([0o755, 0o2775, 0o775, 0o700]), uid=uid, gid=gid)
            if rng.random() < 0.7:
                u2, g2 = rng.choice(owners)
                ents.append(_e(loc + [rng.choice(["in", "f.txt"])], "reg", data=gen_data(rng), uid=u2, gid=g2))
        ents.append(e)
        if live and e["k"] != "dir" and len(loc) == len(top) + 1 and rng.random() < 0.45:
            # an earlier build left something there (same or other type, the directory's group)
            pre.append(rng.choice([_f(loc, "6f6c64", mode=0o664, uid=MY_UID, gid=g), _f(loc, "6f6c64", mode=0o2755, uid=MY_UID, gid=g),
                                   _s(loc, "nowhere", uid=MY_UID, gid=g), dict(_f(loc, uid=MY_UID, gid=g), k="fifo")]))
        elif live and e["k"] == "dir" and rng.random() < 0.3:
            pre.append(_d(loc, mode=rng.choice([0o2775, 0o755]), uid=MY_UID, gid=g))
    seen, out = set(), []
    for e in ents:
        if tuple(e["p"]) not in seen:
            seen.add(tuple(e["p"]))
            out.append(e)
    nondirs = {tuple(e["p"]) for e in out if e["k"] != "dir"}
    out = [e for e in out if not any(tuple(e["p"][:i]) in nondirs for i in range(1, len(e["p"])))]
    rng.shuffle(out)
    return pre, out


def entry_json(e):
    d = {"p": e["p"], "k": e["k"], "mode": 0o777 if e["k"] == "sym" else e["mode"], "uid": e["uid"], "gid": e["gid"], "mtime": e["mtime"]}
    if e["k"] == "reg":
        d["data"] = e["data"]
        d["key"] = e["key"]
    if e["k"] == "sym":
        d["target"] = e["target"]
    return d


def make_cset(sb, entries, prefix=""):
    """real contentsSet for the entries (locations = prefix + '/' + path); regular files get their data from an
    in-memory data source or from a file in the image directory (the two transfer paths of snakeoil)"""
    from pkgcore.fs import contents, fs
    from snakeoil.data_source import data_source, local_source
    objs = []
    for n, e in enumerate(entries):
        loc = prefix + "/" + "/".join(e["p"])
        kw = dict(mode=e["mode"], uid=e["uid"], gid=e["gid"], mtime=e["mtime"])
        if e["k"] == "dir":
            o = fs.fsDir(loc, **kw)
        elif e["k"] == "reg":
            raw = bytes.fromhex(e["data"])
            if e.get("src") == "file":
                ip = os.path.join(sb.img, "f%d" % n)
                with open(ip, "wb") as f:
                    f.write(raw)
                src = local_source(ip)
            else:
                src = data_source(raw)
            dev, ino = e["key"] if e["key"] else (None, None)
            o = fs.fsFile(loc, data=src, dev=dev, inode=ino, chksums={}, **kw)
        elif e["k"] == "sym":
            o = fs.fsSymlink(loc, e["target"], **kw)
        else:
            o = fs.fsFifo(loc, **kw)
        objs.append(o)
    return contents.contentsSet(objs)


# ---------------------------------------------------------------------------------------------- oracles

def _literal_link(pre_snap, symlocs, p, fuel=8):
    """the symlink at path tuple `p` resolves the same way for the kernel and for the literal walk of the model:
    its (relative) target never passes *through* a symlink, and neither do the links it may lead to"""
    if fuel == 0:
        return False
    nd = pre_snap.get(p)
    if nd is None or nd["k"] != "sym":
        return True
    t = nd["target"]
    if t.startswith("/"):
        return t.startswith(DANGLING + "/")
    cur = p[:-1]
    comps = t.split("/")
    for n, c in enumerate(comps):
        here = pre_snap.get(cur)
        if cur in symlocs or (here is not None and here["k"] == "sym"):
            return False                      # walks through a link
        if here is None or here["k"] != "dir":
            return True                       # the walk stops here for both: dangling
        if c in ("", "."):
            continue
        if c == "..":
            if not cur:
                return True                   # leaves the tree: dangling for both (the parent holds nothing of that name)
            cur = cur[:-1]
        else:
            cur = cur + (c,)
    if cur in symlocs:
        return False
    return _literal_link(pre_snap, symlocs, cur, fuel - 1)


def has_symlinked_ancestor(pre_snap, entries):
    """literal-path scope of the Lean model: no entry location runs *through* a symlink; a directory entry may sit
    on a symlink only if that link resolves identically for the kernel and for the model's literal walk"""
    symlocs = {tuple(e["p"]) for e in entries if e["k"] == "sym"}
    for e in entries:
        p = tuple(e["p"])
        for i in range(1, len(p)):
            nd = pre_snap.get(p[:i])
            if nd is not None and nd["k"] == "sym":
                return True
            if p[:i] in symlocs:
                return True                # (ill-formed contents) an entry below a symlink entry of the same set
        # `os.path.exists(dirname)` / `os.stat(location)` follow a link at the final component
        for q in ([p] if e["k"] == "dir" else []) + ([p[:-1]] if len(p) > 1 else []):
            if not _literal_link(pre_snap, symlocs, q):
                return True
    return False


def simple_links(pre_snap, entries):
    """every symlink met on the way to an entry (or under a directory entry) leads, without passing another link, to a
    directory that is neither above nor below the link itself: the plain `usr/lib -> lib64` situation.  The direct
    oracles for symlinked-ancestor cases only judge those; self-referential or chained links alias entries with each
    other (or with the link) in ways for which "its location" has no stable meaning."""
    for e in entries:
        p = tuple(e["p"])
        for i in range(1, len(p) + 1):
            link = p[:i]
            nd = pre_snap.get(link)
            if nd is None or nd["k"] != "sym":
                continue
            if i == len(p) and e["k"] != "dir":
                continue                      # the entry replaces the link itself
            t = nd["target"]
            if t.startswith("/"):
                return False
            cur = link[:-1]
            for c in t.split("/"):
                here = pre_snap.get(cur)
                if here is None or here["k"] != "dir":
                    return False
                if c in ("", "."):
                    continue
                cur = cur[:-1] if c == ".." else cur + (c,)
                if c == ".." and not cur and link[:-1] == ():
                    return False
            tgt = pre_snap.get(cur)
            if tgt is None or tgt["k"] != "dir":
                return False
            if link[: len(cur)] == cur or cur[: len(link)] == link:
                return False                  # points at itself, above itself or below itself
    return True


def classify_exc(e):
    from pkgcore.fs import ops
    if e is None:
        return "ok"
    if isinstance(e, ops.CannotOverwrite):
        return "CannotOverwrite"
    if isinstance(e, ops.FailedCopy):
        return "FailedCopy"
    if isinstance(e, OSError):
        return "OSError:" + errno.errorcode.get(e.errno, str(e.errno))
    return "other:" + type(e).__name__


def resolve_entries(sb, entries):
    """entry path -> path with the directory part resolved by the kernel in the *current* (pre-merge) state;
    None when that leaves the tree or two entries alias one file through a symlinked directory"""
    root = sb.root
    rels = {}
    for e in entries:
        cur = root
        for comp in e["p"][:-1]:
            nxt = os.path.join(cur, comp)
            # only a symlink that leads to a directory redirects what is merged below it (a dangling one is replaced)
            cur = os.path.realpath(nxt) if (os.path.islink(nxt) and os.path.isdir(nxt)) else nxt
        rp = os.path.join(cur, e["p"][-1]) if e["p"] else root
        if rp != root and not rp.startswith(root + "/"):
            return None
        rels[tuple(e["p"])] = tuple(rp[len(root) + 1:].split("/")) if rp != root else ()
    if len(set(rels.values())) != len(rels):
        return None
    return rels


def python_oracle(sb, pre_snap, post_snap, entries, rels):
    """the property, evaluated directly on the real before/after snapshots with the kernel's own path resolution
    (covers symlinked ancestor directories).  Returns a list of failure strings."""
    if rels is None:
        return None
    bad = []
    touched = set()
    for e in entries:
        loc = sb.path(e["p"])
        rel = rels[tuple(e["p"])]
        touched.add(tuple(e["p"]))
        touched.add(rel)
        for i in range(0, len(rel)):
            if rel[:i] not in pre_snap:
                touched.add(rel[:i])           # missing parent
        if e["k"] != "dir" and rel in pre_snap:
            touched.add(rel[:-1] + (rel[-1] + "#new",))
        nd = post_snap.get(rel)
        if e["k"] == "dir":
            if not os.path.isdir(loc):
                bad.append("dir entry %r is not a directory afterwards" % (e["p"],))
            elif nd is not None and nd["k"] == "dir":
                old = pre_snap.get(rel)
                if old is not None and old["k"] == "dir":
                    if nd["mode"] != old["mode"]:
                        bad.append("pre-existing directory %r lost its permissions: %o -> %o" % (e["p"], old["mode"], nd["mode"]))
                elif (nd["mode"], nd["uid"], nd["gid"]) != (e["mode"], e["uid"], e["gid"]):
                    bad.append("created directory %r has %o %d:%d, recorded %o %d:%d" % (e["p"], nd["mode"], nd["uid"], nd["gid"], e["mode"], e["uid"], e["gid"]))
            continue
        if nd is None:
            bad.append("entry %r missing afterwards" % (e["p"],))
            continue
        want = {"reg": "file", "sym": "sym", "fifo": "fifo"}[e["k"]]
        if nd["k"] != want:
            bad.append("entry %r has type %s, recorded %s" % (e["p"], nd["k"], want))
            continue
        if want == "file" and nd["data"] != e["data"]:
            bad.append("entry %r has wrong data" % (e["p"],))
        if want == "sym" and nd["target"] != e["target"]:
            bad.append("entry %r has target %r" % (e["p"], nd["target"]))
        if nd["mtime"] != e["mtime"]:
            bad.append("entry %r has mtime %d, recorded %d" % (e["p"], nd["mtime"], e["mtime"]))
        if (nd["uid"], nd["gid"]) != (e["uid"], e["gid"]):
            bad.append("entry %r has owner %d:%d" % (e["p"], nd["uid"], nd["gid"]))
        if want != "sym" and nd["mode"] != e["mode"]:
            bad.append("entry %r has mode %o, recorded %o" % (e["p"], nd["mode"], e["mode"]))
    for p in set(pre_snap) | set(post_snap):
        if p in touched:
            continue
        a, b = pre_snap.get(p), post_snap.get(p)
        if a is None:
            bad.append("path %r outside the contents was created" % (p,))
        elif b is None:
            bad.append("path %r outside the contents was removed" % (p,))
        else:
            ka = {k: v for k, v in a.items() if not (k == "mtime" and a["k"] == "dir")}
            kb = {k: v for k, v in b.items() if not (k == "mtime" and b["k"] == "dir")}
            if ka != kb:
                bad.append("path %r outside the contents was changed" % (p,))
    return bad


# a group that is not the merging process' (needs the privilege to give files away; otherwise the cases degenerate)
FG = 35 if CAN_CHOWN else MY_GID


# hand-written boundary cases: (pre tree, entries, with_offset)
def _f(p, data="aa", **kw):
    d = {"p": p, "k": "file", "data": data, "mode": 0o644, "uid": MY_UID, "gid": MY_GID, "mtime": 1000}
    d.update(kw)
    return d


def _d(p, **kw):
    d = {"p": p, "k": "dir", "mode": 0o755, "uid": MY_UID, "gid": MY_GID, "mtime": 1000}
    d.update(kw)
    return d


def _s(p, target, **kw):
    d = {"p": p, "k": "sym", "target": target, "mode": 0o777, "uid": MY_UID, "gid": MY_GID, "mtime": 1000}
    d.update(kw)
    return d


def _e(p, k, **kw):
    d = {"p": p, "k": k, "mode": 0o644 if k != "dir" else 0o755, "uid": MY_UID, "gid": MY_GID, "mtime": 4242}
    if k == "reg":
        d.update(data="6e6577", key=None, src="mem")
    d.update(kw)
    return d


CORPUS = [
    # stale '#new' longer than the new data (fixed: used to leak its tail into the merged file)
    ([_f(["f"], "78"), _f(["f#new"], "5354414c455354414c45")], [_e(["f"], "reg")], True),
    # stale '#new' and a symlink / fifo entry (fixed: used to fail with EEXIST)
    ([_f(["f"], "78"), _f(["f#new"], "00")], [_e(["f"], "sym", target="t")], True),
    ([_f(["f"], "78"), _f(["f#new"], "00")], [_e(["f"], "fifo")], False),
    # stale '#new' hard-linked to an unrelated file: the unrelated file must not change
    ([_f(["f"], "78"), _f(["keep"], "6b6565706b656570"), _f(["f#new"], link_to=["keep"])], [_e(["f"], "reg")], True),
    # dangling symlink where a directory goes; symlink to a file where a directory goes
    ([_s(["d"], "nowhere")], [_e(["d"], "dir"), _e(["d", "x"], "reg")], True),
    ([_f(["t"]), _s(["d"], "t")], [_e(["d"], "dir")], True),
    # directory over file, file over directory, symlink over directory (skipped / refused)
    ([_f(["d"])], [_e(["d"], "dir")], True),
    ([_d(["d"])], [_e(["d"], "reg")], True),
    ([_d(["d"]), _d(["d", "t"])], [_e(["d"], "sym", target="t")], True),          # open finding: skipped
    ([_d(["d"])], [_e(["d"], "sym", target="t")], True),
    # pre-existing directory keeps its own permissions, ownership follows the entry
    ([_d(["d"], mode=0o700)], [_e(["d"], "dir", mode=0o755), _e(["d", "f"], "reg", mode=0o4711)], False),
    # hard-link group over a mix of existing / missing targets, with one member of different mode
    ([_d(["d"]), _f(["d", "b"], "6f6c64")],
     [_e(["d"], "dir"), _e(["d", "a"], "reg", key=[1, 5]), _e(["d", "b"], "reg", key=[1, 5]), _e(["c"], "reg", key=[1, 5]),
      _e(["z"], "reg", key=[1, 5], mode=0o600)], True),
    # missing parents are created (0750), also for the first member of a link group
    ([], [_e(["n", "m", "o"], "reg", key=[1, 9]), _e(["n", "p"], "reg", key=[1, 9])], True),
    # 'x' and 'x#new' both entries (open finding when x exists and x#new comes first)
    ([_f(["f"], "78")], [_e(["f#new"], "reg", data="656e747279"), _e(["f"], "reg")], True),
    ([_f(["f"], "78")], [_e(["f"], "reg"), _e(["f#new"], "reg", data="656e747279")], True),
    # empty file, mode 0 directory, odd names
    ([], [_e(["e"], "reg", data=""), _e(["z"], "dir", mode=0), _e([" "], "reg"), _e(["ü#new"], "sym", target="ü")], True),
    # symlinked directory on disk (literal model excluded; property checked on the real code)
    ([_d(["lib64"]), _s(["lib"], "lib64")], [_e(["lib"], "dir"), _e(["lib", "so"], "reg"), _e(["lib64"], "dir")], True),
    # an ancestor that is a file with deeper components missing: ENOTDIR wins over ENOENT (kernel walk order)
    ([_f(["a"])], [_e(["a", "c", "x"], "dir")], True),
    ([_f(["a"])], [_e(["a", "c", "x"], "reg")], True),
    ([_f(["a"])], [_e(["q"], "reg", key=[1, 2]), _e(["a", "c", "x"], "reg", key=[1, 2])], True),
    # a directory entry over a symlink whose target runs through a file: os.stat raises NotADirectoryError (not caught)
    ([_f(["a"]), _s(["l"], "a/b/c")], [_e(["l"], "dir")], True),
    ([_f(["a"]), _s(["l"], "a/b/c")], [_e(["l", "x"], "reg")], True),
    # root missing: merge_contents creates the offset
    (None, [_e(["a"], "dir"), _e(["a", "f"], "reg")], True),
    # a set-group-ID directory of a foreign group on the live root (/var/games root:games 02775): what is created inside
    # starts with the directory's group; entries recorded for the merging process' own identity must still end up with it
    ([_d(["games"], mode=0o2775, gid=FG), _f(["games", "score"], "6f6c64", mode=0o664, gid=FG)],
     [_e(["games"], "dir", mode=0o2775, gid=FG), _e(["games", "score"], "reg"), _e(["games", "new"], "reg", mode=0o4711),
      _e(["games", "l"], "sym", target="new"), _e(["games", "p"], "fifo"), _e(["games", "sub"], "dir"),
      _e(["games", "auto", "deep", "f"], "reg", data="")], True),
    # the same directory shipped by the package into an empty root (created, then populated), hard-link pair inside
    ([], [_e(["games"], "dir", mode=0o2775, gid=FG), _e(["games", "a"], "reg", key=[1, 7]), _e(["games", "b"], "reg", key=[1, 7]),
          _e(["games", "sub"], "dir", mode=0o755), _e(["games", "sub", "in"], "reg", gid=FG)], False),
    # live set-id programs next to what is merged stay as they are (frame), a live set-uid file is replaced by a plain one
    ([_d(["bin"]), _f(["bin", "su"], "6f", mode=0o4755), _f(["bin", "sg"], "6f", mode=0o2755), _f(["bin", "ls"], "6f", mode=0o755)],
     [_e(["bin"], "dir"), _e(["bin", "su"], "reg", mode=0o755), _e(["bin", "cp"], "reg", mode=0o6755)], True),
]


def small_universe():
    """bounded-exhaustive: what sits at the location (x its '#new' sibling) x what is merged there, and
    hard-link pairs over every combination of existing / missing targets"""
    cases = []
    occupants = {
        "none": [], "file": [_f(["x"], "6f6c64")], "dir": [_d(["x"])], "fifo": [dict(_f(["x"]), k="fifo")],
        "dangling": [_s(["x"], "nowhere")], "symdir": [_d(["t"]), _s(["x"], "t")], "symfile": [_f(["t"]), _s(["x"], "t")],
    }
    stale = {"none": [], "file": [_f(["x#new"], "5354414c455354414c45")], "sym": [_s(["x#new"], "zz")], "dir": [_d(["x#new"])]}
    for on, occ in occupants.items():
        for sn, st in stale.items():
            for kind in ("dir", "reg", "sym", "fifo"):
                for off in (True, False):
                    e = _e(["x"], kind, **({"target": "t"} if kind == "sym" else {}))
                    cases.append((occ + st, [e], off, "universe:%s/%s/%s" % (on, sn, kind)))
    # the same inside a set-group-ID directory of a foreign group, for the process' own identity and for another one;
    # directly, and below parents that are not recorded
    for on in ("none", "file", "dangling"):
        for kind in ("dir", "reg", "sym", "fifo"):
            for own in ("mine", "other"):
                for deep in (False, True):
                    if deep and on != "none":
                        continue
                    par = ["g", "m", "n"] if deep else ["g"]
                    occ = [dict(n, p=par + ["x"], gid=FG) for n in occupants[on]]
                    kw = {"target": "t"} if kind == "sym" else {}
                    if own == "other" and CAN_CHOWN:
                        kw.update(uid=1000, gid=100)
                    cases.append(([_d(["g"], mode=0o2775, gid=FG)] + occ, [_e(par + ["x"], kind, **kw)], on != "file",
                                  "universe:sgid/%s/%s/%s%s" % (on, kind, own, "/deep" if deep else "")))
    for a_pre in ("none", "file", "dir"):
        for b_pre in ("none", "file", "dangling"):
            for same in (True, False):
                pre = [dict(n, p=["a"]) for n in occupants[a_pre] if n["p"] == ["x"]] + \
                      [dict(n, p=["b"]) for n in occupants[b_pre] if n["p"] == ["x"]]
                ents = [_e(["a"], "reg", key=[1, 5]), _e(["b"], "reg", key=[1, 5], mode=0o644 if same else 0o600),
                        _e(["c", "d"], "reg", key=[1, 5])]
                cases.append((pre, ents, True, "universe:links"))
    return cases


def run_case(sb, pre, entries, with_offset, crash_at=None, eio_at=None):
    """build the root, merge for real under the recorder; returns dict with snapshots, trace, result"""
    from pkgcore.fs import ops
    um = os.umask(0o022)
    try:
        if pre is None:
            pre_nodes = []
        else:
            sb.build(pre)
            pre_nodes = pre
        pre_snap = snapshot(sb.root)
        if with_offset:
            cset, kw = make_cset(sb, entries), {"offset": sb.root}
        else:
            cset, kw = make_cset(sb, entries, prefix=sb.root), {}
        exc = None
        rels = resolve_entries(sb, entries)
        with Recorder(sb.root, crash_at=crash_at, eio_at=eio_at) as rec:
            try:
                ops.merge_contents(cset, **kw)
            except Crash:
                exc = "crash"
            except Exception as e:  # noqa: BLE001 - classified below
                exc = e
        post_snap = snapshot(sb.root)
        if exc is None and rels is not None and has_symlinked_ancestor(pre_snap, entries) and resolve_entries(sb, entries) != rels:
            rels = None       # a symlink met on the way changed its meaning during the merge: no stable notion of "its location"
    finally:
        os.umask(um)
    return {"pre": pre_snap, "post": post_snap, "ops": rec.ops, "exc": exc, "outside": rec.outside, "ncalls": rec.n, "rels": rels}


def env_json():
    return {"umask": 0o022, "uid": MY_UID, "gid": MY_GID}


def diff_fs(a, b):
    out = []
    for p in sorted(set(a) | set(b)):
        if a.get(p) != b.get(p):
            out.append("%s: real=%s model=%s" % ("/".join(p), a.get(p), b.get(p)))
    return out[:4]


def shift(nodes, top):
    return [dict(n, p=list(top) + list(n["p"]), **({"link_to": list(top) + list(n["link_to"])} if n.get("link_to") is not None else {}))
            for n in nodes]


def neighbours(rng, pre, ents, off):
    """inputs next to a case on which model and code disagreed — the same merge with one circumstance changed at a time
    (and the owner/group-inheritance pair together): the other offset mode; the whole tree re-rooted below a
    set-group-ID directory of a foreign group (every creation then starts with a group that is not the process');
    every entry recorded for the process' own identity / for a foreign one; a fresh install (nothing at the entry
    locations) and a re-merge (the entries already installed); each non-directory entry alone with its directories.
    The property itself is evaluated on the real code for each of them."""
    out = []
    pre0 = pre or []

    def add(tag, p_, e_, o_=off):
        if e_:
            out.append((p_, e_, o_, "near:" + tag))

    add("offset", pre, ents, not off)
    sg = [_d(["sg"], mode=0o2775, gid=FG)]
    mine = [dict(e, uid=MY_UID, gid=MY_GID) for e in ents]
    other = [dict(e, uid=1000 if CAN_CHOWN else MY_UID, gid=100 if CAN_CHOWN else MY_GID) for e in ents]
    add("sgid", sg + shift(pre0, ["sg"]), shift(ents, ["sg"]))
    add("mine", pre, mine)
    add("other", pre, other)
    add("sgid+mine", sg + shift(pre0, ["sg"]), shift(mine, ["sg"]))
    add("sgid+mine+fresh", sg, shift(mine, ["sg"]))
    add("sgid+other", sg + shift(pre0, ["sg"]), shift(other, ["sg"]))
    locs = {tuple(e["p"]) for e in ents}
    add("fresh", [n for n in pre0 if not any(tuple(n["p"][:i]) in locs for i in range(1, len(n["p"]) + 1))
                  and not (n.get("link_to") is not None and tuple(n["link_to"]) in locs)], ents)
    tree_ok = all(any(tuple(x["p"]) == tuple(e["p"][:i]) and x["k"] == "dir" for x in ents) for e in ents for i in range(1, len(e["p"])))
    if tree_ok and len({tuple(e["p"]) for e in ents}) == len(ents):
        add("remerge", nodes_of(ents), ents)
        add("sgid+mine+remerge", sg + shift(nodes_of([dict(e, gid=FG) for e in ents]), ["sg"]), shift(mine, ["sg"]))
    nondirs = [e for e in ents if e["k"] != "dir"]
    for e in rng.sample(nondirs, min(3, len(nondirs))):
        alone = [x for x in ents if x["k"] == "dir" and x["p"] == e["p"][:len(x["p"])]] + [e]
        add("single", pre, alone)
        add("sgid+mine+single", sg + shift(pre0, ["sg"]), shift([dict(x, uid=MY_UID, gid=MY_GID) for x in alone], ["sg"]))
    return out


def process(ctx, cases, probe=False):
    """run the cases for real, ask the model, judge.  probe=True: only the property itself (edge C) is reported — used for
    the inputs next to a model/implementation disagreement.  Returns the cases on which model and code disagreed."""
    disagreed = []
    results, reqs = [], []
    cases = list(cases)
    for n_, (pre, ents, off, origin) in enumerate(cases):
        sb = Sandbox()
        try:
            if pre is None and not off:
                off = True
                cases[n_] = (pre, ents, off, origin)
            r = run_case(sb, pre, ents, off)
            r["literal"] = not has_symlinked_ancestor(r["pre"], ents)
            r["oracle"] = []
            if r["exc"] is None and not r["literal"]:
                # literal cases are judged by the Lean specification; the direct oracle is for the rest
                r["oracle"] = python_oracle(sb, r["pre"], r["post"], ents, r["rels"]) if simple_links(r["pre"], ents) else None
            if r["oracle"] is None:
                r["oracle"] = []
                r["aliased"] = True
            no_links = not any(nd["k"] == "sym" for nd in r["pre"].values()) and not any(e["k"] == "sym" for e in ents)
            if r["exc"] is None and r["literal"] and no_links:
                # leaf directories (no entry created inside) carry the recorded mtime
                for e in ents:
                    if e["k"] == "dir" and not any(x["p"][: len(e["p"])] == e["p"] and x is not e for x in ents):
                        nd = r["post"].get(tuple(e["p"]))
                        if nd and nd["k"] == "dir" and nd["mtime"] != e["mtime"] and not has_symlinked_ancestor(r["pre"], [e]):
                            r["oracle"].append("leaf directory %r has mtime %d, recorded %d" % (e["p"], nd["mtime"], e["mtime"]))
        finally:
            sb.cleanup()
        ids = Ids()
        r["prej"] = fs_json(r["pre"], ids)
        r["npre"] = ids.n
        r["postj"] = fs_json(r["post"], ids)
        r["entj"] = [entry_json(e) for e in ents]
        results.append(r)
        reqs.append({"cmd": "c18.merge", "env": env_json(), "offset": off, "fs": r["prej"], "entries": r["entj"]})
        reqs.append({"cmd": "c18.spec", "fs": r["prej"], "entries": r["entj"], "final": r["postj"]})
    replies = ctx.model(reqs)
    for idx, ((pre, ents, off, origin), r) in enumerate(zip(cases, results)):
        m, sp = replies[2 * idx], replies[2 * idx + 1]
        case = {"pre": pre, "entries": ents, "offset": off, "origin": origin}

        def mismatch(detail):
            disagreed.append((pre, ents, off, origin))
            if not probe:
                ctx.mismatch(case, detail)
        if m == "bad-op" or sp == "bad-op":
            mismatch("driver rejected the request")
            continue
        res = classify_exc(r["exc"])
        literal = not has_symlinked_ancestor(r["pre"], ents)
        guards = set(sp["guards"])
        ok = res == "ok"
        overl = sum(1 for e in ents if tuple(e["p"]) in r["pre"])
        key = repr((r["prej"], r["entj"], off))
        ctx.case(case, ok and len(ents) >= 3 and overl >= 1, key=key)
        ctx.count("result_" + res.split(":")[0])
        ctx.count("entries_%d" % min(len(ents), 9))
        ctx.count("literal" if literal else "symlinked_ancestor")
        ctx.count("origin_" + origin.split(":")[0] + (":" + origin.split(":")[1].split("/")[0] if origin.startswith("universe:") else ""))
        if r.get("aliased"):
            ctx.count("symlinked_case_with_aliasing_or_complex_links_not_claimed")
        ctx.count("offset" if off else "no_offset")
        for e in ents:
            have = r["pre"].get(tuple(e["p"]))
            ctx.count("entry_" + e["k"] + ("_over_" + have["k"] if have else "_new"))
            if e["k"] == "reg" and e["key"]:
                ctx.count("reg_with_inode_key")
            par = r["pre"].get(tuple(e["p"][:-1]))
            if par is not None and par["k"] == "dir" and par["mode"] & 0o2000:
                ctx.count("entry_in_live_sgid_dir" + ("_of_foreign_group" if par["gid"] != MY_GID else "")
                          + ("_recorded_for_own_identity" if (e["uid"], e["gid"]) == (MY_UID, MY_GID) else ""))
        for nd in r["pre"].values():
            if nd["k"] in ("file", "fifo") and nd["mode"] & 0o6000:
                ctx.count("live_setid_file")
        for g in guards:
            ctx.count("guard_fail_" + g)
        for o in r["ops"]:
            ctx.count("op_" + o[0] + ("" if o[-1] is None else "_" + str(o[-1])))
        if r["outside"]:
            ctx.violation(case, "merge touched paths outside the root: %r" % r["outside"][:3])
            continue
        # ---- edge C: the property on the real code
        if ok:
            fails = list(sp["placed"]) if literal else []
            finding = None
            rels = r.get("rels") or {}
            resolved_clash = any(a != b and rb[: len(ra)] == ra[:-1] + (ra[-1] + "#new",)
                                 for a, ra in rels.items() if ra for b, rb in rels.items())
            if "tmpclash" in guards or resolved_clash:
                # (also when the clash only arises after the kernel has resolved a symlinked directory)
                finding = "C18-tmp-name-clash"
            elif "symoverdir" in guards:
                finding = "C18-symlink-over-directory"
            detail = []
            if fails:
                detail.append("Lean spec clauses failing on the real before/after snapshots: %s" % fails)
                if literal:
                    detail.append("direct evaluation: " + "; ".join(explain(r["pre"], r["post"], ents)[:3]))
            if r["oracle"]:
                detail.append("direct evaluation: " + "; ".join(r["oracle"][:3]))
            if detail:
                if "hardlinkdata" in guards or "tree" in guards or "distinct" in guards:
                    ctx.count("illformed_contents_property_not_claimed")
                else:
                    ctx.violation(case, " | ".join(detail), finding=finding)
        # ---- edge A: model vs implementation (literal cases)
        if literal:
            ctx.traces += 1
            if m["result"] != res:
                mismatch("real merge: %s, model: %s" % (res, m["result"]))
                continue
            rt, mt = model_trace(r["ops"]), m["trace"]
            if rt != mt:
                k = next((i for i, (a, b) in enumerate(zip(rt, mt)) if a != b), min(len(rt), len(mt)))
                mismatch("system-call traces differ at #%d: real %s, model %s" % (k, rt[k:k + 2], mt[k:k + 2]))
                continue
            real_fin = canon_fs(r["postj"], r["npre"])
            mod_fin = canon_fs(m["fs"], r["npre"])
            if real_fin != mod_fin:
                mismatch("final snapshots differ: " + "; ".join(diff_fs(real_fin, mod_fin)))
            if ok and not guards and m["placed"]:
                mismatch("model run violates the proved theorem?! %s" % m["placed"])
    return disagreed


def explain(pre_snap, post_snap, ents):
    """human-readable account of what is wrong at the entry locations (literal paths)"""
    bad = []
    for e in ents:
        nd = post_snap.get(tuple(e["p"]))
        want = {"reg": "file", "sym": "sym", "fifo": "fifo", "dir": "dir"}[e["k"]]
        if nd is None:
            bad.append("entry %r missing afterwards" % (e["p"],))
        elif nd["k"] != want:
            bad.append("entry %r has type %s, recorded %s" % (e["p"], nd["k"], want))
        else:
            old = pre_snap.get(tuple(e["p"]))
            if (nd["uid"], nd["gid"]) != (e["uid"], e["gid"]):
                bad.append("entry %r (%s) has owner %d:%d, recorded %d:%d" % (e["p"], e["k"], nd["uid"], nd["gid"], e["uid"], e["gid"]))
            if want == "dir" and old is not None and old["k"] == "dir":
                if nd["mode"] != old["mode"]:
                    bad.append("pre-existing directory %r changed its permissions %o -> %o" % (e["p"], old["mode"], nd["mode"]))
            elif want != "sym" and nd["mode"] != e["mode"]:
                bad.append("entry %r (%s) has mode %o, recorded %o" % (e["p"], e["k"], nd["mode"], e["mode"]))
            if want == "file" and nd["data"] != e["data"]:
                bad.append("entry %r has other data than recorded" % (e["p"],))
            if want == "sym" and nd["target"] != e["target"]:
                bad.append("entry %r has target %r, recorded %r" % (e["p"], nd["target"], e["target"]))
            if want != "dir" and nd["mtime"] != e["mtime"]:
                bad.append("entry %r has mtime %d, recorded %d" % (e["p"], nd["mtime"], e["mtime"]))
    regs = [e for e in ents if e["k"] == "reg" and e.get("key")]
    for i, a in enumerate(regs):
        for b in regs[i + 1:]:
            if a["key"] == b["key"] and all(a[f] == b[f] for f in ("uid", "gid", "mode", "mtime")):
                na, nb = post_snap.get(tuple(a["p"])), post_snap.get(tuple(b["p"]))
                if na and nb and na["id"] != nb["id"]:
                    bad.append("entries %r and %r shared an inode in the source (and agree on owner, mode, mtime) but are two files" % (a["p"], b["p"]))
    locs = {tuple(e["p"]) for e in ents}
    allowed = set(locs)
    for q in locs:
        allowed.update(q[:i] for i in range(len(q)) if q[:i] not in pre_snap)
        if q in pre_snap:
            allowed.add(q[:-1] + (q[-1] + "#new",))
    for q in sorted(set(pre_snap) | set(post_snap)):
        if q in allowed:
            continue
        a, b = pre_snap.get(q), post_snap.get(q)
        ka = a and {k: v for k, v in a.items() if not (k == "mtime" and a["k"] == "dir")}
        kb = b and {k: v for k, v in b.items() if not (k == "mtime" and b["k"] == "dir")}
        if ka != kb:
            bad.append("path %r outside the contents was %s" % (list(q), "created" if a is None else "removed" if b is None else "changed"))
    for q in sorted(locs):
        t = q[:-1] + (q[-1] + "#new",) if q else q
        if q in pre_snap and t in post_snap and t not in locs:
            bad.append("temporary %r left behind" % (list(t),))
    return bad or ["(see the clause names)"]


def run(ctx):
    rng = ctx.rng
    cases = [(pre, ents, off, "corpus") for pre, ents, off in CORPUS] + small_universe()
    if ctx.replay_cases:
        cases = [(c["pre"], c["entries"], c["offset"], "replay") for c in map(redangle, ctx.replay_cases) if "entries" in c] + cases
    n = ctx.n(800, 9000)
    for i in range(n):
        g = rng.random()
        if g < 0.22:
            pre, ents = gen_remerge(rng, nmax=7)
            if ents:
                cases.append((pre, ents, rng.random() < 0.5, "remerge"))
            continue
        if g < 0.34:
            pre, ents = gen_sgid(rng)
            if ents:
                cases.append((pre, ents, rng.random() < 0.5, "sgid"))
            continue
        pre = gen_pre(rng)
        wf = rng.random() < 0.85
        ents = gen_entries(rng, pre, wellformed=wf)
        if not ents:
            continue
        cases.append((pre if rng.random() > 0.04 else None, ents, rng.random() < 0.5, "random"))
    disagreed = process(ctx, cases)
    # ---- model and implementation disagree somewhere: is the property itself broken on that input or next to it?
    if disagreed and not ctx.violations:
        seen, near = set(), []
        for pre, ents, off, origin in disagreed[:ctx.n(6, 20)]:
            for c in neighbours(rng, pre, ents, off):
                k = repr(c[:3])
                if k not in seen:
                    seen.add(k)
                    near.append(c)
        ctx.count("inputs_next_to_a_disagreement_evaluated", len(near))
        process(ctx, near, probe=True)


LEVEL_TEXT = ("Kernel-checked Lean 4 theorems about a statement-by-statement model of merge_contents/copyfile/do_link/ensure_perms/mkdir over an "
              "abstract POSIX file system with inode-sharing hard links: for every pre-existing file system, every contents set and every "
              "successful merge, each entry is in place with type, data, target, mode, ownership and mtime, pre-existing directories keep their "
              "permissions, source inodes are hard-linked, and every other path is unchanged except missing parents and '#new' temporaries; the file "
              "system has set-group-ID directories (what is created inside starts with the directory's group), so the recorded ownership there is "
              "a consequence of the modelled lchown, not of the creating process' identity. "
              "The model is tied to the code by replaying random merges into scratch roots under os-level interposition and comparing the call "
              "trace (with errnos) and the final snapshot; the Lean specification is also evaluated on the real before/after snapshots.")
LEVEL_NOTE = ("Partial: literal paths in the model (symlinked ancestor directories are checked on the real code only); two input classes are open "
              "findings (entries named like another entry's '#new' temporary; a symlink entry over an existing directory is skipped). Trusted: the "
              "abstract file system as a stand-in for the kernel, snakeoil's helpers as observed, the interposition layer.")
