"""C26 — XPAK metadata segments round-trip and rewrites preserve the archive."""
import itertools
import os
import shutil
import struct
import tempfile

PID = "C26"
LEAN_MODULES = ["Pkgcore.Props.C26"]
OBLIGATIONS = [
    "Pkgcore.C26.write_xpak_format",
    "Pkgcore.C26.xpak_roundtrip_partial",
    "Pkgcore.C26.xpak_roundtrip_counterexample",
    "Pkgcore.C26.notRewritten_iff",
    "Pkgcore.C26.write_then_read",
    "Pkgcore.C26.start_of_segment",
    "Pkgcore.C26.rewrite_preserves_prefix",
    "Pkgcore.C26.write_fresh",
    "Pkgcore.C26.rewrite_refines",
    "Pkgcore.C26.rewrite_replaces_segment",
    "Pkgcore.C26.getDataFd_pos_independent",
    "Pkgcore.C26.readHistory_independent",
    "Pkgcore.C26.xpak_roundtrip_shared_fd",
]
TRUSTED = [
    "file objects: open(path,'r+b')/seek/read/write/truncate are modelled as take/drop on the content list (Handle); "
    "tied to the code by comparing the raw file bytes after every real write_xpak call with the model's result",
    "struct.pack/unpack('>L') = big-endian u32 (be32/rd32), str.encode()/bytes.decode() = Lean's UTF-8 String (strict decoder)",
    "magic strings, record sizes and _reading_key_rewrites are regenerated from the imported Xpak class on every run",
    "the state of the file after write_xpak raises struct.error (a field >= 2**32) is not modelled; sizes >= 2**32 are never exercised",
]
ASSUMPTIONS = [
    "the target is a path naming an existing file (as binpkg.repo_ops uses write_xpak); data_source targets are not modelled",
    "the mapping has str keys (a str key and an equal bytes key would collide) and no concurrent writer touches the file",
]
RULE = ("sequences of 1-5 write_xpak calls on one file: initial content = random bytes (empty, <16 bytes, fake trailers with too large/small offsets, "
        "a prefix that itself ends in a valid segment); mappings of 0-8 distinct ASCII keys (realistic names, environment*/repo/REPO, empty, spaces, NUL) "
        "with unicode text values (ASCII..astral, NUL, newlines, 0-300 chars, occasionally ~70 KB) and binary values under environment* keys, "
        "payload alternately growing and shrinking; half of the sequences edit what the file already holds (planted segment or previous write): "
        "identical rewrite, same content in another key order (reverse, sorted, shuffle, rotate, swap), one value changed (also same length), values "
        "exchanged between keys, key dropped/added/renamed; plus single-edit mutations of written files fed to the reader/writer, rewritten with a fixed "
        "mapping or with their own content in reversed order and read back; every written file is also read back through ONE long-lived Xpak "
        "instance (75% opened on a file object, 25% on the path) with a random access history: 1-3 items()/values() generators advanced in any "
        "interleaving, x[key]/x.get(key) lookups between the steps, get of a missing key, len/in, all generators drained in lock step. "
        "non-trivial = a write onto non-empty old content with a non-empty mapping")

REAL_KEYS = ["CATEGORY", "PF", "SLOT", "USE", "DESCRIPTION", "DEPEND", "RDEPEND", "KEYWORDS", "CHOST", "CBUILD", "BUILD_TIME", "SIZE",
             "DEFINED_PHASES", "EAPI", "IUSE", "LICENSE", "repository", "environment.bz2"]
ODD_KEYS = ["", " ", "a b", "x\x00y", "environment", "environmentX", "environmen", "Environment", "env", "REPO", "repo", "repo ", "Repo",
            "\n", "a" * 40, "\x7f", "XPAKSTOP", "STOP"]


def gen_tables(repo):
    from pkgcore.binpkg.xpak import Xpak

    def bl(b):
        return "[" + ", ".join(str(x) for x in b) + "]"

    def esc(s):
        if not all(32 <= ord(c) < 127 and c not in '"\\' for c in s):
            raise ValueError("unexpected character in _reading_key_rewrites")
        return '"%s"' % s
    rew = ", ".join("(%s, %s)" % (esc(k), esc(v)) for k, v in Xpak._reading_key_rewrites.items())
    text = ("-- GENERATED from /repo by harness/props/c26.py (gen_tables); do not edit\n"
            "namespace Pkgcore.Generated.C26\n"
            f"def headerPre : List UInt8 := {bl(Xpak.header_pre_magic)}\n"
            f"def trailerPre : List UInt8 := {bl(Xpak.trailer_pre_magic)}\n"
            f"def trailerPost : List UInt8 := {bl(Xpak.trailer_post_magic)}\n"
            f"def headerSize : Nat := {Xpak.header.size}\n"
            f"def trailerSize : Nat := {Xpak.trailer.size}\n"
            f"def keyRewrites : List (String × String) := [{rew}]\n"
            "end Pkgcore.Generated.C26\n")
    return {"Pkgcore/Generated/C26Tables.lean": text}


# ------------------------------------------------------------------ generators

def gen_text(rng, big=False):
    n = rng.choice([0, 1, 2, 5, 20, 80, 300]) if not big else 70000
    pools = ["abcXYZ019 -_/.:=\n", "äöüßéñ¿", "日本語テキスト", "\U0001f600\U00010000\U0010ffff", "\x00\x01\t\r\x7f\x80\xff", "퟿�￿"]
    pool = rng.choice(pools[:1] * 3 + pools)
    if rng.random() < 0.3:
        pool = "".join(pools)
    return "".join(rng.choice(pool) for _ in range(n))


def gen_bytes(rng):
    n = rng.choice([0, 1, 3, 16, 100, 400])
    k = rng.random()
    if k < 0.5:
        return bytes(rng.randrange(256) for _ in range(n))
    if k < 0.7:
        return gen_text(rng).encode("utf8")
    return rng.choice([b"\xff", b"\xc3", b"\xed\xa0\x80", b"\xc0\x80", b"BZh91AY&SY", b"XPAKSTOP\x00\x00\x00\x10STOP"]) * max(1, n // 8)


def gen_key(rng):
    k = rng.random()
    if k < 0.45:
        return rng.choice(REAL_KEYS)
    if k < 0.7:
        return rng.choice(ODD_KEYS)
    if k < 0.8:
        return "environment" + "".join(rng.choice(".bz2xyz_") for _ in range(rng.randrange(5)))
    return "".join(chr(rng.choice([rng.randrange(32, 127), rng.randrange(0, 128)])) for _ in range(rng.choice([1, 2, 3, 8, 15])))


def gen_map(rng, size=None, allow_offdomain=True):
    """list of (key, kind, value): kind 't' text (str) / 'b' bytes"""
    n = rng.choice([0, 1, 1, 2, 3, 4, 6, 8]) if size is None else size
    out, seen = [], set()
    while len(out) < n:
        key = gen_key(rng)
        if key in seen:
            continue
        seen.add(key)
        env = key.startswith("environment")
        r = rng.random()
        if env and r < 0.7:
            out.append((key, "b", gen_bytes(rng)))
        elif not env and allow_offdomain and r < 0.04:
            out.append((key, "b", gen_bytes(rng)))          # bytes under a text key: outside the property's domain
        else:
            out.append((key, "t", gen_text(rng)))
    return out


def derive_map(rng, prev):
    """the next mapping of a rewrite sequence as an edit of the one the file already holds (metadata updates are edits, not fresh
    mappings): identical, reordered, one value changed (same or different length), values exchanged, key dropped/added/renamed"""
    m = list(prev)
    k = rng.choice(["same", "reverse", "sorted", "shuffle", "rotate", "swap-two", "shuffle+value", "value", "value-same-length",
                    "exchange-values", "drop", "add", "rename", "move-last-first"])
    if len(m) < 2 and k in ("reverse", "sorted", "shuffle", "rotate", "swap-two", "exchange-values", "move-last-first"):
        k = "add"
    if not m and k not in ("same", "add"):
        k = "add"

    def new_value(key, old=None, same_len=False):
        if key.startswith("environment") and (old is None or old[0] == "b"):
            v = gen_bytes(rng)
            if same_len and old is not None:
                v = bytes((x + 1) % 256 for x in old[1])
            return ("b", v)
        if same_len and old is not None and old[0] == "t":
            return ("t", "".join(("y" if c == "x" else "x") if ord(c) < 128 else c for c in old[1]))
        return ("t", gen_text(rng))
    if k == "reverse":
        m.reverse()
    elif k == "sorted":
        m.sort(key=lambda e: e[0])
        if m == list(prev):
            m.reverse()
    elif k in ("shuffle", "shuffle+value"):
        rng.shuffle(m)
    elif k == "rotate":
        m = m[1:] + m[:1]
    elif k == "move-last-first":
        m = m[-1:] + m[:-1]
    elif k == "swap-two":
        i, j = rng.sample(range(len(m)), 2)
        m[i], m[j] = m[j], m[i]
    elif k == "exchange-values":
        cand = [(i, j) for i in range(len(m)) for j in range(i + 1, len(m)) if m[i][1] == m[j][1] and
                (m[i][1] == "t" or (m[i][0].startswith("environment") and m[j][0].startswith("environment")))]
        if cand:
            i, j = rng.choice(cand)
            m[i], m[j] = (m[i][0],) + m[j][1:], (m[j][0],) + m[i][1:]
    elif k == "drop":
        del m[rng.randrange(len(m))]
    elif k == "rename":
        i = rng.randrange(len(m))
        key = gen_key(rng)
        if key not in {e[0] for e in m} and (m[i][1] == "t" or key.startswith("environment")):
            m[i] = (key,) + m[i][1:]
    if k in ("value", "value-same-length", "shuffle+value") and m:
        i = rng.randrange(len(m))
        m[i] = (m[i][0],) + new_value(m[i][0], m[i][1:], same_len=(k == "value-same-length"))
    if k == "add":
        for _ in range(20):
            key = gen_key(rng)
            if key not in {e[0] for e in m}:
                m.insert(rng.randrange(len(m) + 1), (key,) + new_value(key))
                break
    return m, k


def u32(n):
    return struct.pack(">L", n)


def gen_prefix(rng):
    k = rng.random()
    if k < 0.12:
        return b"", "empty"
    if k < 0.25:
        return bytes(rng.randrange(256) for _ in range(rng.randrange(1, 16))), "short"
    body = bytes(rng.randrange(256) for _ in range(rng.choice([16, 17, 40, 100, 600])))
    if k < 0.55:
        return body, "random"
    if k < 0.65:
        return body + b"XPAKSTOP" + u32(rng.choice([0, 8, 16, 24, 30, len(body), len(body) + 8, len(body) + 9, 2 ** 31, 2 ** 32 - 1])) + b"STOP", "fake-trailer"
    if k < 0.72:
        # trailer and header magics fine, index garbage (a corrupted existing segment)
        idx = bytes(rng.randrange(256) for _ in range(rng.choice([1, 4, 11, 12, 13, 30])))
        return body + b"XPAKPACK" + u32(len(idx)) + u32(0) + idx + b"XPAKSTOP" + u32(len(idx) + 24) + b"STOP", "corrupt-index"
    if k < 0.8:
        return body[:-4] + rng.choice([b"STOP", b"XPAK", b"PACK"]), "magic-fragment"
    if k < 0.93:
        planted = gen_map(rng, allow_offdomain=False)
        PLANTED[0] = planted
        return body + py_segment(planted), "has-segment:%d" % len(body)
    return body, "random"


REPLAY_HISTORY = {}       # (initial hex, step) -> (source kind, ops) of a replayed access history
PLANTED = [None]          # the mapping of the segment planted by the last gen_prefix call (None: none planted)


def py_segment(m):
    """the XPAK format written down once more, from the comment at the top of xpak.py (used to plant existing segments)"""
    index, data = b"", b""
    for k, kind, v in m:
        raw = v.encode("utf8") if kind == "t" else v
        kb = k.encode("utf8")
        index += u32(len(kb)) + kb + u32(len(data)) + u32(len(raw))
        data += raw
    return b"XPAKPACK" + u32(len(index)) + u32(len(data)) + index + data + b"XPAKSTOP" + u32(len(index) + len(data) + 24) + b"STOP"


def as_dict(m):
    return {k: v for k, _, v in m}


def to_req_map(m):
    return [[k, kind, (v if kind == "t" else v.hex())] for k, kind, v in m]


def in_domain(m):
    keys = [k for k, _, _ in m]
    return (len(set(keys)) == len(keys) and all(ord(c) < 128 for k in keys for c in k)
            and all(kind == "t" or k.startswith("environment") for k, kind, _ in m))


def expected_py(m):
    """the property, independently in Python: same keys, same order, text decoded, environment* as bytes"""
    out = []
    for k, kind, v in m:
        raw = v.encode("utf8") if kind == "t" else v
        out.append([k, ["b", raw.hex()]] if k.startswith("environment") else [k, ["t", v]])
    return out


def canon_items(items):
    return [[k, (["t", v] if isinstance(v, str) else ["b", bytes(v).hex()])] for k, v in items]


CORPUS = [
    # (initial content, [mapping, ...])
    (b"PREFIXDATA", [[("CATEGORY", "t", "dev-lang\n"), ("repo", "t", "gentoo"), ("environment.bz2", "b", b"\xff\x00"), ("e", "t", "é")],
                     [("A", "t", "b")], []]),
    (b"", [[]]),
    (b"", [[("", "t", "")]]),
    (b"x" * 15, [[("k", "t", "v")], [("k", "t", "v" * 500)], [("k", "t", "")]]),
    (b"x" * 16, [[("environment", "t", "text under env key"), ("environmental", "b", b"\x80")]]),
    (b"tar", [[("repo", "t", "a"), ("REPO", "t", "b")]]),                # both spellings: one entry is lost on read
    (b"tar", [[("REPO", "t", "b"), ("repo", "t", "a")]]),
    (b"tar", [[("SLOT", "b", b"\xff\xfe")]]),                              # outside the domain: undecodable bytes under a text key
    (b"tar", [[("SLOT", "b", b"0")]]),                                     # bytes that decode: read back as text
    (b"tar", [[("k", "t", "v" * 70000)], [("k", "t", "v")]]),               # lengths beyond one and two bytes, then shrink
    (b"tar", [[("key%03d" % i, "t", "value %d" % i) for i in range(300)], [("only", "t", "one")]]),
    # "the same keys, in order" across rewrites: same content listed in another order, twice the same, values exchanged between keys
    (b"\x1f\x8btarball" * 9, [[("CATEGORY", "t", "dev-util\n"), ("DESCRIPTION", "t", "grüße ☃\n"), ("environment.bz2", "b", b"BZh9\x00\xff\xfe"), ("SLOT", "t", "0\n")],
                             [("CATEGORY", "t", "dev-util\n"), ("DESCRIPTION", "t", "grüße ☃\n"), ("SLOT", "t", "0\n"), ("environment.bz2", "b", b"BZh9\x00\xff\xfe")],
                             [("CATEGORY", "t", "dev-util\n"), ("DESCRIPTION", "t", "grüße ☃\n"), ("SLOT", "t", "0\n"), ("environment.bz2", "b", b"BZh9\x00\xff\xfe")],
                             [("SLOT", "t", "0\n"), ("environment.bz2", "b", b"BZh9\x00\xff\xfe"), ("DESCRIPTION", "t", "grüße ☃\n"), ("CATEGORY", "t", "dev-util\n")],
                             [("SLOT", "t", "dev-util\n"), ("environment.bz2", "b", b"BZh9\x00\xff\xfe"), ("DESCRIPTION", "t", "grüße ☃\n"), ("CATEGORY", "t", "0\n")]]),
    (b"", [[("a", "t", "1"), ("b", "t", "1")], [("b", "t", "1"), ("a", "t", "1")], [("a", "t", "1"), ("b", "t", "1")]]),
    (b"q" * 40 + b"XPAKSTOP" + u32(16) + b"STOP", [[("a", "t", "b")]]),   # trailer only, no header
    (b"q" * 40 + b"XPAKSTOP" + u32(4000) + b"STOP", [[("a", "t", "b")]]),  # offset points before the start of the file
    (b"XPAKPACK" + u32(0) + u32(0) + b"XPAKSTOP" + u32(24) + b"STOP", [[("a", "t", "b")], []]),   # file is exactly an empty segment
    # the next two: the old content carries a damaged segment (only model-vs-code is compared for the first write)
    (b"zz" + b"XPAKPACK" + u32(5) + u32(0) + b"\x00\x00\x00\x01k" + b"XPAKSTOP" + u32(29) + b"STOP", [[("a", "t", "b")]]),  # truncated index record
    (b"zz" + b"XPAKPACK" + u32(13) + u32(0) + b"\x00\x00\x00\x01\xe9" + u32(0) + u32(0) + b"XPAKSTOP" + u32(37) + b"STOP", [[("a", "t", "b")]]),  # non-ASCII key on disk
]


def gen_history(rng, keys):
    """a history of reads on ONE Xpak instance: generators opened and advanced in any interleaving, keyed lookups in between.
    ops: ["items"]/["values"] open a generator, ["next", i] advances generator i, ["get", key]/["getitem", key] keyed lookups,
    ["get-missing"], ["len"], ["contains", key]; ["drain"] advances all open generators in lock step until all are exhausted"""
    ops, nopen = [], 0
    style = rng.choice(["walk+lookups", "two-walks", "random", "random", "plain"])
    if style == "plain":
        return [[rng.choice(["items", "values"])], ["drain"]], style
    if style == "walk+lookups":
        ops.append([rng.choice(["items", "values"])])
        for _ in range(len(keys)):
            ops.append(["next", 0])
            r = rng.random()
            if keys and r < 0.7:
                ops.append([rng.choice(["get", "getitem"]), rng.choice(keys)])
            elif r < 0.8:
                ops.append(["get-missing"])
        return ops + [["drain"]], style
    if style == "two-walks":
        ops += [[rng.choice(["items", "values"])], [rng.choice(["items", "values"])]]
        if rng.random() < 0.5:
            ops.append(["next", rng.randrange(2)])          # one generator runs ahead
        return ops + [["drain"]], style
    for _ in range(rng.randrange(3, 2 * len(keys) + 7)):
        r = rng.random()
        if nopen < 3 and (r < 0.2 or nopen == 0):
            ops.append([rng.choice(["items", "values"])]); nopen += 1
        elif r < 0.6:
            ops.append(["next", rng.randrange(nopen)])
        elif r < 0.85 and keys:
            ops.append([rng.choice(["get", "getitem"]), rng.choice(keys)])
        elif r < 0.9:
            ops.append(["get-missing"])
        elif r < 0.95 and keys:
            ops.append(["contains", rng.choice(keys)])
        else:
            ops.append(["len"])
    return ops + [["drain"]], style


def run_history(Xpak, source, ops, want):
    """run `ops` on one Xpak(source); `want` = [(key, value)] a plain walk of a fresh instance returned.
    -> (reads, problems): reads = [(position of the key in the index, canonical value or {"err": kind})] for every data read,
    problems = texts saying which step returned something else than the entry written under that key"""
    x = Xpak(source)
    keys = list(x.keys())
    problems, reads, gens = [], [], []
    if keys != [k for k, _ in want]:
        return reads, [f"keys() = {keys!r}, a plain items() walk lists {[k for k, _ in want]!r}"]
    wd = dict(want)

    def canon(v):
        return ["t", v] if isinstance(v, str) else ["b", bytes(v).hex()]

    def advance(gi):
        g = gens[gi]
        if g["done"]:
            return
        i = g["pos"]
        try:
            r = next(g["it"])
        except StopIteration:
            g["done"] = True
            if i != len(want):
                problems.append(f"{g['kind']}() generator {gi} stopped after {i} of {len(want)} entries")
            return
        except Exception as e:
            g["done"] = True
            if i < len(want):
                reads.append((i, {"err": classify(e)}))
            problems.append(f"{g['kind']}() generator {gi}, entry {i}: raised {type(e).__name__}: {str(e)[:80]}")
            return
        g["pos"] += 1
        if i >= len(want):
            g["done"] = True
            problems.append(f"{g['kind']}() generator {gi} yields more than {len(want)} entries")
            return
        k, v = r if g["kind"] == "items" else (want[i][0], r)
        reads.append((i, {"ok": canon(v)} if isinstance(v, (str, bytes)) else {"err": "type"}))
        if (k, v) != want[i] or type(v) is not type(want[i][1]):
            problems.append(f"{g['kind']}() generator {gi}, entry {i}: got {(k, v)!r:.160}, the segment holds {want[i]!r:.160}")

    for op in ops:
        if op[0] in ("items", "values"):
            gens.append({"kind": op[0], "it": iter(getattr(x, op[0])()), "pos": 0, "done": False})
        elif op[0] == "next":
            if op[1] < len(gens):
                advance(op[1])
        elif op[0] in ("get", "getitem"):
            if op[1] not in wd:
                continue
            try:
                v = x.get(op[1]) if op[0] == "get" else x[op[1]]
            except Exception as e:
                reads.append((keys.index(op[1]), {"err": classify(e)}))
                problems.append(f"{op[0]}({op[1]!r}) raised {type(e).__name__}: {str(e)[:80]}")
                continue
            reads.append((keys.index(op[1]), {"ok": canon(v)} if isinstance(v, (str, bytes)) else {"err": "type"}))
            if v != wd[op[1]] or type(v) is not type(wd[op[1]]):
                problems.append(f"{op[0]}({op[1]!r}) = {v!r:.160}, the segment holds {wd[op[1]]!r:.160}")
        elif op[0] == "get-missing":
            missing = "no-such-key"
            while missing in wd:
                missing += "-"
            if x.get(missing) is not None or missing in x:
                problems.append("get() of a key that was not written returned a value")
        elif op[0] == "contains":
            if (op[1] in x) != (op[1] in wd):
                problems.append(f"{op[1]!r} in xpak is wrong")
        elif op[0] == "len":
            if len(x) != len(want):
                problems.append(f"len() = {len(x)}, {len(want)} entries written")
        elif op[0] == "drain":
            while any(not g["done"] for g in gens):
                for gi in range(len(gens)):
                    advance(gi)
    return reads, problems


def classify(e):
    from pkgcore.binpkg.xpak import MalformedXpak
    if isinstance(e, MalformedXpak):
        return "malformed"
    if isinstance(e, struct.error):
        return "struct"
    if isinstance(e, UnicodeDecodeError):
        return "unicode"
    if isinstance(e, AssertionError):
        return "assertion"
    if isinstance(e, OSError):
        return "oserror"
    return "other:" + type(e).__name__


def run(ctx):
    from pkgcore.binpkg.xpak import Xpak

    rng = ctx.rng
    tmp = tempfile.mkdtemp(prefix="verif-c26-")
    path = os.path.join(tmp, "pkg.tbz2")
    try:
        seqs = [(c, [list(m) for m in ms], "corpus-damaged" if i >= len(CORPUS) - 2 else "corpus") for i, (c, ms) in enumerate(CORPUS)]
        if ctx.replay_cases:
            for c in ctx.replay_cases:
                if "initial" in c and "maps" in c:
                    if any(isinstance(m, str) for m in c["maps"]) or not isinstance(c["initial"], str) or c["initial"].startswith("("):
                        continue
                    seqs.insert(0, (bytes.fromhex(c["initial"]),
                                    [[(k, kind, v if kind == "t" else bytes.fromhex(v)) for k, kind, v in m] for m in c["maps"]], "replay"))
                    if "history" in c:
                        REPLAY_HISTORY[(c["initial"], len(c["maps"]) - 1)] = (c.get("source", "fileobj"), c["history"])
        derived_how = []
        for _ in range(ctx.n(700, 14000)):
            PLANTED[0] = None
            pre, kind = gen_prefix(rng)
            steps = rng.choice([1, 1, 2, 3, 3, 5])
            ms = []
            related = rng.random() < 0.5               # this sequence edits what the file holds instead of writing unrelated mappings
            for i in range(steps):
                big = rng.random() < 0.004
                held = ms[-1] if ms else PLANTED[0]     # what the segment in the file holds when this write starts
                if related and held is not None and rng.random() < 0.8:
                    m, how = derive_map(rng, held)
                    derived_how.append(how)
                else:
                    m = gen_map(rng)
                if big and m:
                    m[0] = (m[0][0], "t", gen_text(rng, big=True))
                ms.append(m)
            if not related and steps >= 3 and rng.random() < 0.5:      # force grow / shrink / grow
                ms[0] = gen_map(rng, size=1)
                ms[1] = gen_map(rng, size=8)
                ms[2] = gen_map(rng, size=rng.choice([0, 1]))
            seqs.append((pre, ms, kind))
        for how in derived_how:
            ctx.count("derived_" + how)
        if not ctx.quick():
            # bounded-exhaustive: every ordered selection of up to 3 entries from a small universe, on 3 kinds of old content
            uni = [("a", "t", ""), ("a", "t", "é"), ("environment", "b", b"\xff"), ("environment", "t", "x"), ("repo", "t", "r"),
                   ("", "t", "v"), ("b", "t", "\x00\n")]
            olds = [b"", b"0123456789abcdef!", b"P" + b"XPAKPACK" + u32(0) + u32(0) + b"XPAKSTOP" + u32(24) + b"STOP"]
            nex = 0
            for r in range(0, 4):
                for sel in itertools.permutations(uni, r):
                    if len({k for k, _, _ in sel}) != len(sel):
                        continue
                    for old in olds:
                        seqs.append((old, [list(sel)], "exhaustive"))
                        nex += 1
            # ... and every reordering of such a selection written right after it (same content, other key order)
            for r in (2, 3):
                for sel in itertools.permutations(uni, r):
                    if len({k for k, _, _ in sel}) != len(sel):
                        continue
                    for perm in itertools.permutations(sel):
                        if perm != sel:
                            seqs.append((olds[1], [list(sel), list(perm)], "exhaustive"))
                            nex += 2
            ctx.extra["exhaustive_small_universe_writes"] = nex

        # ---------------- run the real code, collect the model requests
        reqs, meta = [], []
        hreqs, hmeta = [], []
        for sid, (initial, ms, kind) in enumerate(seqs):
            with open(path, "wb") as f:
                f.write(initial)
            content = initial
            for step, m in enumerate(ms):
                case = {"initial": initial.hex() if len(initial) < 4000 else "(%d bytes)" % len(initial), "kind": kind, "step": step,
                        "maps": [to_req_map(x) if sum(len(v) for _, _, v in x) < 4000 else "(large)" for x in ms[: step + 1]]}
                old = content
                try:
                    Xpak.write_xpak(path, as_dict(m))
                    werr = None
                except Exception as e:
                    werr = classify(e)
                with open(path, "rb") as f:
                    content = f.read()
                try:
                    got = canon_items(list(Xpak(path).items()))
                    rerr = None
                except Exception as e:
                    got, rerr = None, classify(e)
                reqs.append({"cmd": "c26.write", "file": old.hex(), "map": to_req_map(m)})
                reqs.append({"cmd": "c26.items", "file": content.hex()})
                reqs.append({"cmd": "c26.spec", "map": to_req_map(m)})
                meta.append((sid, case, kind, old, m, werr, content, got, rerr))
                # --- reading back through ONE long-lived instance: interleaved generators and keyed lookups, path and file object sources
                if werr is None and rerr is None and len(content) < 40000 and (not ctx.quick() or kind.startswith("corpus") or rng.random() < 0.6
                                                                                or (case["initial"], step) in REPLAY_HISTORY):
                    want = [(k, v[1] if v[0] == "t" else bytes.fromhex(v[1])) for k, v in got]
                    fixed = REPLAY_HISTORY.get((case["initial"], step))
                    plans = []
                    if fixed is not None:
                        plans.append((fixed[0], fixed[1], "replay"))
                    if kind.startswith("corpus") and want:
                        ks = [k for k, _ in want]
                        plans.append(("fileobj", [["items"]] + [o for k in ks for o in (["next", 0], ["getitem", ks[0]])] + [["drain"]], "corpus"))
                        plans.append(("fileobj", [["items"], ["values"], ["drain"]], "corpus"))
                        plans.append(("path", [["items"], ["values"], ["next", 0], ["get", ks[-1]], ["drain"]], "corpus"))
                    src = "fileobj" if rng.random() < 0.75 else "path"
                    ops, style = gen_history(rng, [k for k, _ in want])
                    plans.append((src, ops, style))
                    for src, ops, style in plans:
                        hcase = dict(case, source=src, history=ops)
                        try:
                            if src == "fileobj":
                                with open(path, "rb") as fobj:
                                    reads, problems = run_history(Xpak, fobj, ops, want)
                            else:
                                reads, problems = run_history(Xpak, path, ops, want)
                        except Exception as e:
                            reads, problems = [], [f"history raised {type(e).__name__}: {str(e)[:120]}"]
                        hreqs.append({"cmd": "c26.history", "file": content.hex(), "reads": [i for i, _ in reads], "pos": rng.choice([0, 3, len(content)])})
                        hmeta.append((hcase, in_domain(m), src, style, ops, reads, problems, len(want)))
                if werr is not None:
                    break
        # ---------------- mutated files: reader and start detection, model vs code (edge A only)
        mreqs, mmeta = [], []
        base_files = [c for (_, _, _, _, _, werr, c, _, _) in meta if werr is None and 32 <= len(c) < 3000]
        for _ in range(ctx.n(500, 8000)):
            if not base_files:
                break
            b = bytearray(rng.choice(base_files))
            k = rng.randrange(6)
            if k == 0:
                i = rng.randrange(len(b)); b[i] ^= 1 << rng.randrange(8)
            elif k == 1:
                i = len(b) - 1 - rng.randrange(min(len(b), 40)); b[i] = rng.randrange(256)
            elif k == 2:
                del b[rng.randrange(len(b)):]
            elif k == 3:
                b += bytes(rng.randrange(256) for _ in range(rng.randrange(1, 20)))
            elif k == 4:
                i = rng.randrange(len(b)); del b[i:i + rng.randrange(1, 5)]
            else:
                i = b.find(b"XPAKPACK")
                if i >= 0:
                    j = i + 8 + rng.randrange(8); b[j] = rng.randrange(256)
            b = bytes(b)
            with open(path, "wb") as f:
                f.write(b)
            try:
                got, rerr = canon_items(list(Xpak(path).items())), None
            except Exception as e:
                got, rerr = None, classify(e)
            m = [("n", "t", "new")]
            if got and rng.random() < 0.5:
                # rewrite what the (damaged but readable) file holds: same content, reversed order / as it is
                own = [(k, v[0], v[1] if v[0] == "t" else bytes.fromhex(v[1])) for k, v in got]
                if in_domain(own):
                    m = own[::-1] if rng.random() < 0.7 else own
            try:
                Xpak.write_xpak(path, as_dict(m)); werr = None
            except Exception as e:
                werr = classify(e)
            with open(path, "rb") as f:
                after = f.read()
            back = None
            if werr is None:
                try:
                    back = canon_items(list(Xpak(path).items()))
                except Exception as e:
                    back = classify(e)
            mreqs.append({"cmd": "c26.items", "file": b.hex()})
            mreqs.append({"cmd": "c26.write", "file": b.hex(), "map": to_req_map(m)})
            mmeta.append((b, got, rerr, werr, after, m, back))

        replies = ctx.model(reqs + mreqs + hreqs)
        main, mut, hist = replies[: len(reqs)], replies[len(reqs): len(reqs) + len(mreqs)], replies[len(reqs) + len(mreqs):]

        # ---------------- access histories on one instance: the property on the real code, and model (readHistory) vs code
        for (hcase, dom, src, style, ops, reads, problems, nkeys), hrep in zip(hmeta, hist):
            nlook = sum(1 for o in ops if o[0] in ("get", "getitem"))
            ngen = sum(1 for o in ops if o[0] in ("items", "values"))
            ctx.case(hcase, nkeys >= 2 and (nlook >= 1 or ngen >= 2), key=repr((hcase["initial"], hcase["maps"], src, ops)))
            ctx.count("history_src_" + src)
            ctx.count("history_style_" + style)
            ctx.count("history_generators_%d" % min(ngen, 3))
            ctx.count("history_lookups_%s" % ("0" if nlook == 0 else "1-2" if nlook < 3 else "3+"))
            ctx.count("history_data_reads", len(reads))
            if problems:
                detail = (f"reading back through one Xpak({'file object' if src == 'fileobj' else 'path'}) with interleaved reads does not return what "
                          f"was written (a plain walk of a fresh instance does): " + "; ".join(problems[:3]))
                if dom:
                    ctx.violation(hcase, detail)
                else:
                    ctx.mismatch(hcase, detail)
            if hrep == "bad-op" or "ok" not in hrep:
                ctx.mismatch(hcase, f"model rejects the read history: {str(hrep)[:200]}")
            elif hrep["ok"] != [r for _, r in reads]:
                ctx.mismatch(hcase, f"data reads of the history differ from the model's readHistory: code {str([r for _, r in reads])[:200]}, model {str(hrep['ok'])[:200]}")

        # ---------------- compare
        SEGMENT_FREE = ("empty", "short", "random", "fake-trailer", "magic-fragment")
        DAMAGED = ("corrupt-index", "corpus-damaged")
        rewrites = dict(Xpak._reading_key_rewrites)
        keep = {}            # sequence id -> the leading bytes every rewrite of the sequence must preserve
        for i, (sid, case, kind, old, m, werr, content, got, rerr) in enumerate(meta):
            wrep, irep, srep = main[3 * i], main[3 * i + 1], main[3 * i + 2]
            if "bad-op" in (wrep, irep, srep):
                ctx.mismatch(case, "driver rejected the request")
                continue
            step = case["step"]
            dom = in_domain(m)
            ctx.case(case, bool(old) and bool(m), key=old.hex() + repr(m))
            ctx.count("prefix_" + kind.split(":")[0])
            ctx.count("map_size_%d" % min(len(m), 9))
            ctx.count("step_%d" % step)
            ctx.count("domain" if dom else "off_domain")
            if step > 0:
                ctx.count("rewrite_grow" if len(content) > len(old) else "rewrite_shrink" if len(content) < len(old) else "rewrite_same_size")
            for k, knd, v in m:
                ctx.count("val_" + ("bytes" if knd == "b" else "text_nonascii" if any(ord(c) > 127 for c in v) else "text_ascii"))
                if k.startswith("environment"):
                    ctx.count("env_key")
            # --- edge A: model vs code
            mfile = wrep["file"]
            if werr is not None:
                ctx.count("write_err_" + werr)
                if mfile.get("err") != werr:
                    ctx.mismatch(case, f"write_xpak raised {werr}, model says {str(mfile)[:200]}")
                if dom and not (kind in DAMAGED and step == 0):
                    ctx.violation(case, f"write_xpak raised {werr} on a mapping of the property's domain")
                continue
            if mfile.get("ok") != content.hex():
                ctx.mismatch(case, f"file bytes after write_xpak differ from the model ({len(content)} bytes vs {mfile if 'err' in mfile else len(mfile['ok']) // 2})")
            if rerr is not None:
                ctx.count("read_err_" + rerr)
                if irep.get("err") != rerr:
                    ctx.mismatch(case, f"items() raised {rerr}, model says {str(irep)[:200]}")
            elif irep.get("ok") != got:
                ctx.mismatch(case, f"items() = {str(got)[:300]}, model = {str(irep)[:300]}")
            # --- edge C: the property on the real code
            if step == 0:
                start = wrep["start"].get("ok")
                if kind in SEGMENT_FREE:
                    keep[sid] = old                     # nothing there to replace: everything must stay
                    if start != len(old):
                        ctx.mismatch(case, f"generated segment-free content is recognised as a segment at {start} by the model")
                elif kind.startswith("has-segment:"):
                    keep[sid] = old[:int(kind.split(":")[1])]      # planted segment: exactly the bytes before it must stay
                    if start != len(keep[sid]):
                        ctx.mismatch(case, f"planted segment starts at {len(keep[sid])}, the model finds {start}")
                elif start is not None:
                    keep[sid] = old[:start]             # corpus/exhaustive: old content may end in a segment; the model says where
            if not dom:
                continue
            seg = bytes.fromhex(srep["segment"])
            exp = srep["expected"]
            if exp != expected_py(m) or seg != py_segment(m):
                ctx.mismatch(case, "Lean Spec.expected/Spec.segment disagree with the harness' reading of the property text / format comment")
            if sid in keep:
                want_pre = keep[sid]
                if not content.startswith(want_pre):
                    ctx.violation(case, f"bytes before the segment changed (the leading {len(want_pre)} bytes are not preserved)")
                elif content[len(want_pre):] != seg:
                    ctx.violation(case, "the file does not end with exactly the new segment (old segment bytes survive, or the segment is not the "
                                  f"documented format): tail {len(content) - len(want_pre)} bytes, segment {len(seg)} bytes")
            if rerr is not None:
                ctx.violation(case, f"reading back raised {rerr}")
            elif got != exp:
                # is the difference exactly the read-side key rewrite?
                od = {}
                for k, v in exp:
                    od[rewrites.get(k, k)] = v
                if any(k in rewrites for k, _, _ in m) and [[k, v] for k, v in od.items()] == got:
                    ctx.violation(case, f"keys read back differ: wrote {[k for k, _, _ in m]}, read {[k for k, _ in got]}",
                                  finding="C26-repo-key-rewritten")
                else:
                    ctx.violation(case, f"read back {str(got)[:300]}, expected {str(exp)[:300]}")
        for i, (b, got, rerr, werr, after, m, back) in enumerate(mmeta):
            irep, wrep = mut[2 * i], mut[2 * i + 1]
            case = {"mutated_file": b.hex(), "map": to_req_map(m)}
            ctx.case(case, False)
            ctx.count("mutated_rewrite_" + ("fixed_map" if m == [("n", "t", "new")] else "own_content"))
            # the property on the real code: a write that returned normally reads back as the mapping written (whatever was there before)
            if werr is None and in_domain(m) and not any(k in rewrites for k, _, _ in m) and back != expected_py(m):
                ctx.violation(case, f"write_xpak over a damaged file returned normally but reading back gives {str(back)[:300]}, "
                              f"expected {str(expected_py(m))[:300]}")
            ctx.count("mutated_read_" + (rerr or "ok"))
            if rerr is not None:
                if irep.get("err") != rerr:
                    ctx.mismatch(case, f"items() on a damaged file raised {rerr}, model says {str(irep)[:200]}")
            elif irep.get("ok") != got:
                ctx.mismatch(case, f"items() on a damaged file = {str(got)[:200]}, model = {str(irep)[:200]}")
            if werr is not None:
                ctx.count("mutated_write_err_" + werr)
                if wrep["file"].get("err") != werr:
                    ctx.mismatch(case, f"write_xpak on a damaged file raised {werr}, model says {str(wrep['file'])[:200]}")
                if after != b:
                    ctx.note("write_xpak raised on a damaged segment after modifying the file")
            elif wrep["file"].get("ok") != after.hex():
                ctx.mismatch(case, "write_xpak on a damaged file: bytes differ from the model")

        # ---------------- the path may be a symlink (fixed defect: lstat size of the link was used as the append offset)
        real = os.path.join(tmp, "real-file-with-a-long-name.tbz2")
        link = os.path.join(tmp, "l")
        for body in (b"0123456789" * 10, b""):
            with open(real, "wb") as f:
                f.write(body)
            if os.path.lexists(link):
                os.unlink(link)
            os.symlink(real, link)
            case = {"symlink_to_file_of": len(body)}
            ctx.case(case, bool(body))
            try:
                Xpak.write_xpak(link, {"A": "b"})
                with open(real, "rb") as f:
                    after = f.read()
                if not after.startswith(body):
                    ctx.violation(case, f"write_xpak through a symlink destroyed the archive: {len(body)} bytes before, common prefix lost (file now {len(after)} bytes)")
                elif canon_items(list(Xpak(link).items())) != [["A", ["t", "b"]]]:
                    ctx.violation(case, "segment written through a symlink does not read back")
            except Exception as e:
                ctx.violation(case, f"write_xpak through a symlink raised {type(e).__name__}: {e}")
        ctx.traces = len(meta)
    finally:
        shutil.rmtree(tmp, ignore_errors=True)


LEVEL_TEXT = ("Kernel-checked Lean 4 theorems about a byte-exact model of Xpak.write_xpak / _check_magic / keys_dict / _get_data: for every old file "
              "content and every mapping with ASCII, distinct keys that fits the 32-bit fields, write_xpak keeps exactly the bytes before the recognised "
              "old segment (or the whole file when there is none) and writes exactly the documented XPAK segment after them (write_xpak_format, "
              "rewrite_preserves_prefix, write_fresh); any sequence of rewrites ends in prefix ++ segment(last) (rewrite_replaces_segment); reading "
              "prefix ++ segment(m) returns the same keys in order, text decoded with strict UTF-8, environment* values as bytes "
              "(xpak_roundtrip_partial; the key 'repo' is excluded: xpak_roundtrip_counterexample). The model is tied to the code by a differential run "
              "over write sequences, damaged files and raw file bytes. Reads through one shared file object: every history of data reads (several "
              "generators interleaved with keyed lookups, any start position) returns step by step what independent reads return "
              "(getDataFd_pos_independent, readHistory_independent) and hence the written value of each key (xpak_roundtrip_shared_fd); the real "
              "histories are replayed on the model.")
LEVEL_NOTE = ("Trusted: Lean kernel, standard axioms; the file-object primitives, struct and the UTF-8/ASCII codecs as modelled; sizes >= 2**32 and "
              "data_source targets are outside the model.")
