"""C11 — stacked USE configuration = apply entries in order, however they were grouped."""
import itertools

PID = "C11"
LEAN_MODULES = ["Pkgcore.Props.C11"]
OBLIGATIONS = [
    "Pkgcore.C11.chunk_application_is_spec",
    "Pkgcore.C11.render_is_last_writer",
    "Pkgcore.C11.collapse_preserves_render",
    "Pkgcore.C11.history_independent_of_grouping",
    "Pkgcore.C11.history_render_is_flat",
    "Pkgcore.C11.rewrite_sectionwise",
    "Pkgcore.C11.splitter_eq_spec",
    "Pkgcore.C11.splitter_accepts_iff",
    "Pkgcore.C11.splitter_output_sublist",
    "Pkgcore.C11.splitter_preserves_meaning_partial",
    "Pkgcore.C11.splitter_preserves_meaning_counterexample",
    "Pkgcore.C11.line_chunk_is_ltr_partial",
    "Pkgcore.C11.line_chunk_counterexample",
    "Pkgcore.C11.package_use_line_partial",
]
TRUSTED = [
    "a restriction used as chunk key is reduced to an identity, its `simple` flag (key == AlwaysTrue or key.is_simple) and, for atoms, its "
    "cp key; which identities match a package is computed by the real key.match(pkg) in the correspondence run",
    "Python sets are lists up to membership; tuple(set(...)) orderings inside add_bare_global are not compared, only rendered sets are",
    "freeze()/clone() only change container types / copy: identity on the model (the harness interleaves them with the other operations)",
    "interning (_interner, optimize(cache=...)) and payload_form only change the representation of chunks",
    "package.use lines are modelled behind str.split(): the tokens after the query; str.lower is Char.toLower (ASCII tokens only are "
    "generated); is_valid_use_flag is a parameter of the model, the driver's instance of it is compared with the real predicate on "
    "every checked token; a bare '-' never reaches split_negations (it is not a valid flag)",
    "the domain glue above the chunks (load_property file reading, parse_match of the query, IUSE defaults, USE_EXPAND globs against "
    "IUSE, use.mask/use.force layering) has no Lean model: it is exercised by driving a real domain object and compared with the "
    "flat left-to-right reading of the generated configuration",
    "profile stacking: the order of the stack (parents depth first as listed, then the node; a shared ancestor once per branch) is "
    "recomputed by the harness from the generated `parent` files and compared with the real stack; reading of the profile files "
    "(one chunk per use.* file, one per package.use* line) is mirrored in the harness, the collapsing itself is the Lean `render` of "
    "the flat entry list (theorem history_render_is_flat covers every grouping by merge/update)",
]
ASSUMPTIONS = [
    "a `simple` key (AlwaysTrue, version-less atom) matches every package whose key selects the list it is stored in; checked per case",
]
RULE = ("random chunk sequences and random histories of ChunkedDataDict operations (update_from_stream of global / category / atom chunks, "
        "add_bare_global, merge of a recursively built dict, optimize, freeze, clone; forked histories: a mutable or frozen dict is cloned and "
        "up to four branches keep being fed different entries, merged into each other, optimized, frozen, each rendered against its own "
        "history) over flags incl. USE_EXPAND names, globs ('foo_*' as a "
        "positive), '-*' and '-PREFIX_*'; rendered for three packages (two versions of one key, one other key) and random pre_defaults; "
        "user package.use token lines (plain tokens, '-*', 0-3 `NAME:` sections with values, '-*' inside sections, repeated and lower-case "
        "headers, rarely invalid tokens / odd headers) through the real package_use_splitter + pkg_use, and whole configurations (1-6 such "
        "lines over */*, cat/*, cp and versioned queries in two package.use files, optional global USE, IUSE defaults) through a real "
        "domain object asked with get_package_use_unconfigured and enabled_use.pull_data for three packages; generated on-disk profile "
        "trees (2-6 directories, `parent` files listing 1-3 earlier nodes: diamonds, a parent listed twice; EAPI none/5/8; use.mask, use.force, "
        "package.use, package.use.mask/force and the use.stable.* / package.use.stable.* files) through real OnDiskProfile objects: the six "
        "collapsed dicts and a domain on top compared with every node's entries applied in stack order; "
        "non-trivial = at least two applicable chunks speak about the same flag or a wildcard negation is present")

NAMES = ["a", "b", "foo_a", "foo_b", "foobar", "foo_*", "bar_x"]
NEGS = NAMES + ["*", "foo_*", "bar_*"]
PROBES = NAMES + ["*", "foo", "bar_*", "zz"]


class World:
    def __init__(self):
        from pkgcore.ebuild import misc
        from pkgcore.ebuild.atom import atom
        from pkgcore.restrictions import packages, values
        from pkgcore.test.misc import FakePkg
        self.misc = misc
        self.atom = atom
        self.T = packages.AlwaysTrue
        self.keys = [
            (self.T, None), (atom("cat/pkg"), "cat/pkg"), (atom("=cat/pkg-1"), "cat/pkg"), (atom(">=cat/pkg-1"), "cat/pkg"),
            (atom("=cat/pkg-2"), "cat/pkg"), (atom("oth/x"), "oth/x"), (atom("=oth/x-1"), "oth/x"),
            (packages.PackageRestriction("category", values.StrExactMatch("cat")), None),
        ]
        self.cps = ["cat/pkg", "oth/x"]
        self.cp_kid = {"cat/pkg": 1, "oth/x": 5}     # the version-less atom of each cp == atom.atom(cp)
        self.pkgs = [FakePkg("cat/pkg-1"), FakePkg("cat/pkg-2"), FakePkg("oth/x-1")]

    def simple(self, kid):
        k = self.keys[kid][0]
        return bool(k == self.T or getattr(k, "is_simple", False))

    def kid_of(self, key):
        for i, (k, _cp) in enumerate(self.keys):
            if k is key or (k == key and type(k) is type(key)):
                return i
        raise KeyError(key)

    def matches(self, pkg):
        return [i for i, (k, _cp) in enumerate(self.keys) if k.match(pkg)]

    def chunk(self, kid, neg, pos):
        return self.misc.chunked_data(self.keys[kid][0], tuple(neg), tuple(pos))

    def cj(self, kid, neg, pos, with_cp=False):
        j = {"kid": kid, "simple": self.simple(kid), "neg": list(neg), "pos": list(pos)}
        if with_cp and self.keys[kid][1] is not None:
            j["cp"] = self.keys[kid][1]
        return j


def gen_np(rng, wild=0.3):
    neg = rng.sample(NEGS if rng.random() < wild else NAMES, rng.choice([0, 0, 1, 1, 2]))
    pos = rng.sample(NAMES, rng.choice([0, 1, 1, 2]))
    return neg, pos


CORPUS_SEQ = [
    # lists of (kid, neg, pos): every defect found, on one per-key list (cat/pkg) or the globals
    [(0, [], ["a"]), (0, ["*"], ["b"])],
    [(0, [], ["foo_a", "b"]), (0, ["foo_*"], [])],
    [(0, [], ["a"]), (2, ["a"], []), (3, [], ["a"])],
    [(2, [], ["a"]), (0, ["*"], [])],
    [(1, [], ["a"]), (2, ["a"], []), (1, [], ["a"])],
    [(0, ["a"], []), (2, [], ["a"]), (3, ["a"], [])],
    [(0, ["a"], ["a"]), (0, [], ["b"])],
    [(0, [], ["foo_b", "foo_*"]), (3, ["foo_b"], ["bar_x", "foo_b"])],
    [(0, [], ["foo_a"]), (0, ["foo_*"], []), (0, [], ["foo_*"])],
    [(0, [], ["foobar", "foo_a"]), (0, ["foo_*"], [])],
    [(2, ["*"], ["a"]), (0, [], ["b"])],
    [(0, [], ["a"]), (2, ["foo_*"], []), (0, [], ["foo_a"])],
    [(7, [], ["a"]), (0, ["a"], []), (7, [], ["b"])],
    [(0, ["bar_*", "a"], ["bar_x"]), (1, ["*"], ["a"]), (2, [], ["b"])],
    [],
    [(0, ["*"], [])],
]


def run(ctx):
    rng = ctx.rng
    W = World()
    misc = W.misc
    match_sets = {str(p): W.matches(p) for p in W.pkgs}
    for p in W.pkgs:
        for kid, (k, cp) in enumerate(W.keys):
            if W.simple(kid) and (cp is None or cp == p.key) and kid not in match_sets[str(p)]:
                ctx.mismatch({"key": str(k), "pkg": str(p)}, "a `simple` key does not match a package of its list (assumption of the model broken)")

    # ------------------------------------------------------------------ _build_cp_atom_payload on single lists
    seqs = []
    if ctx.replay_cases:
        seqs += [[tuple(x) for x in c["seq"]] for c in ctx.replay_cases if "seq" in c]
    seqs += CORPUS_SEQ
    for _ in range(ctx.n(1500, 40000)):
        cp = rng.choice(W.cps)
        kids = [k for k, (_key, kcp) in enumerate(W.keys) if kcp in (None, cp)]
        seq = []
        for _ in range(rng.choice([0, 1, 2, 2, 3, 3, 4, 5, 6])):
            kid = 0 if rng.random() < 0.35 else rng.choice(kids)
            neg, pos = gen_np(rng, 0.12 if not W.simple(kid) else 0.35)
            seq.append((kid, neg, pos))
        seqs.append(seq)
    if not ctx.quick():
        # bounded-exhaustive: sequences of <= 3 chunks over a small chunk alphabet
        small = [(0, [], ["a"]), (0, ["a"], []), (0, ["*"], ["b"]), (0, ["foo_*"], []), (0, [], ["foo_a"]), (2, ["a"], []), (2, [], ["a"]),
                 (3, [], ["a", "foo_a"]), (3, ["a"], ["a"]), (1, ["b"], ["a"]), (2, ["*"], [])]
        for L in range(0, 4):
            for s in itertools.product(small, repeat=L):
                seqs.append(list(s))
        ctx.extra["exhaustive_chunk_sequences"] = sum(len(small) ** L for L in range(0, 4))
    reqs, meta = [], []
    for seq in seqs:
        cp = next((W.keys[k][1] for k, _n, _p in seq if W.keys[k][1] is not None), "cat/pkg")
        rk = W.cp_kid[cp]
        pre = rng.sample(NAMES, rng.choice([0, 0, 1, 2]))
        reqs.append({"cmd": "c11.build", "seq": [W.cj(k, n, p) for k, n, p in seq], "rk": rk})
        for p in W.pkgs:
            if p.key == cp:
                reqs.append({"cmd": "c11.render", "seq": [W.cj(k, n, p_) for k, n, p_ in seq], "match": match_sets[str(p)],
                             "pre": pre, "probes": PROBES, "rk": rk})
        meta.append((seq, cp, rk, pre))
    reps = iter(ctx.model(reqs))
    for seq, cp, rk, pre in meta:
        case = {"seq": [list(x) for x in seq], "list_of": cp, "pre_defaults": pre}
        real_seq = [W.chunk(k, n, p) for k, n, p in seq]
        rep_b = next(reps)
        try:
            built = misc._build_cp_atom_payload(list(real_seq), W.atom(cp))
            bj = [{"kid": W.kid_of(c.key), "neg": list(c.neg), "pos": list(c.pos)} for c in built]
        except Exception as e:
            ctx.violation(case, f"_build_cp_atom_payload raised {type(e).__name__}: {e}")
            for p in W.pkgs:
                if p.key == cp:
                    next(reps)
            continue
        if rep_b != bj:
            ctx.mismatch(case, f"_build_cp_atom_payload gives {bj}, the model {rep_b}")
        applicable = [c for c in seq]
        spoken = [x for _k, n, p_ in applicable for x in set(n) | set(p_)]
        nontriv = len(spoken) != len(set(spoken)) or any(x == "*" or x.endswith("_*") for _k, n, _p in seq for x in n)
        ctx.case(case, nontriv, key="B|" + repr(case))
        ctx.count("seq_len_%d" % min(len(seq), 6))
        ctx.count("collapsed_to_%d" % min(len(bj), 6))
        for p in W.pkgs:
            if p.key != cp:
                continue
            rep = next(reps)
            flat = set(pre)
            misc.incremental_chunked(flat, [c for c in real_seq if c.key.match(p)])
            coll = set(pre)
            misc.incremental_chunked(coll, [c for c in built if c.key.match(p)])
            pc = dict(case, pkg=str(p))
            if sorted(flat) != sorted(rep["render"]):
                ctx.mismatch(pc, f"incremental_chunked over the sequence gives {sorted(flat)}, the model {sorted(rep['render'])}")
            if sorted(coll) != sorted(rep["built"]):
                ctx.mismatch(pc, f"rendering the collapsed chunks gives {sorted(coll)}, the model {sorted(rep['built'])}")
            for x, h in zip(PROBES, rep["holds"]):
                if (x in flat) != h:
                    ctx.violation(pc, f"flag {x!r}: applying the chunks in order gives {x in flat}, the last applicable chunk speaking about it says {h}")
            if coll != flat:
                ctx.violation(pc, f"collapsed chunks {bj} render {sorted(coll)}, the sequence renders {sorted(flat)}")

    # ------------------------------------------------------------------ histories through the ChunkedDataDict API
    def build(depth):
        d = misc.ChunkedDataDict()
        ops = []
        for _ in range(rng.choice([0, 1, 2, 3, 4, 5, 6, 7])):
            r = rng.random()
            if r < 0.5:
                kid = rng.randrange(len(W.keys))
                neg, pos = gen_np(rng, 0.12 if not W.simple(kid) else 0.35)
                d.update_from_stream([W.chunk(kid, neg, pos)])
                ops.append(dict(W.cj(kid, neg, pos, with_cp=True), op="update"))
            elif r < 0.62 and depth < 2:
                o, oo = build(depth + 1)
                if rng.random() < 0.5:
                    o.freeze()
                d.merge(o)
                ops.append({"op": "merge", "ops": oo})
            elif r < 0.72:
                d.optimize(cache={} if rng.random() < 0.3 else None)
                ops.append({"op": "optimize"})
            elif r < 0.82:
                if rng.random() < 0.5:
                    d.freeze()
                d = d.clone(unfreeze=True)
                ops.append({"op": "nop"})
            else:
                neg, pos = gen_np(rng)
                d.add_bare_global(neg, pos)
                ops.append({"op": "bare", "neg": neg, "pos": pos})
        return d, ops

    hreqs, hmeta = [], []
    for _ in range(ctx.n(1200, 30000)):
        d, ops = build(0)
        if rng.random() < 0.3:
            d.optimize()
            ops.append({"op": "optimize"})
        if rng.random() < 0.5:
            d.freeze()
        if rng.random() < 0.2:
            d = d.clone()
        queries = []
        for p in W.pkgs:
            pre = rng.sample(NAMES, rng.choice([0, 0, 1, 2]))
            queries.append({"key": p.key, "match": match_sets[str(p)], "pre": pre})
        hreqs.append({"cmd": "c11.history", "ops": ops, "keys": [[k, v] for k, v in W.cp_kid.items()], "queries": queries, "probes": PROBES})
        hmeta.append((d, ops, queries))
    for (d, ops, queries), rep in zip(hmeta, ctx.model(hreqs)):
        case = {"ops": ops}
        if rep == "bad-op":
            ctx.mismatch(case, "driver rejected the history")
            continue

        def count_ops(o):
            for x in o:
                ctx.count("op_" + x["op"])
                if x["op"] == "merge":
                    count_ops(x["ops"])
        count_ops(ops)
        nt = sum(1 for x in ops if x["op"] in ("update", "bare", "merge")) >= 2
        ctx.case(case, nt, key="H|" + repr(ops))
        for p, q, out in zip(W.pkgs, queries, rep["out"]):
            qc = dict(case, pkg=str(p), pre_defaults=q["pre"])
            try:
                got = set(d.render_pkg(p, q["pre"]))
            except Exception as e:
                ctx.violation(qc, f"render_pkg raised {type(e).__name__}: {e}")
                continue
            ctx.evaluations += 1
            if sorted(got) != sorted(out["render"]):
                ctx.mismatch(qc, f"render_pkg gives {sorted(got)}, the model {sorted(out['render'])}")
            for x, h in zip(PROBES, out["holds"]):
                if (x in got) != h:
                    ctx.violation(qc, f"flag {x!r}: render_pkg says {x in got}; applying the entries of the history in order says {h}")
                    break


    # ------------------------------------------------------------------ forked histories: clones that live on next to their source
    # A dict is cloned (still mutable / frozen, with and without unfreeze) and BOTH keep being used: the branches are fed different
    # entries (package chunks, globals incl. -* and -PREFIX_*, merges of freshly built dicts and of each other), optimized, frozen,
    # forked again.  Each branch must render, for every package, exactly the entries fed to *it* (the shared prefix + its own tail)
    # in order: compared with the Lean model/`holds` of the branch's own flat history and with a fresh dict fed only that history.
    # A case is a replayable script of steps {"b": branch, "op": ...}.
    def gen_feed(b):
        r = rng.random()
        if r < 0.6:
            kid = rng.randrange(len(W.keys))
            neg, pos = gen_np(rng, 0.12 if not W.simple(kid) else 0.35)
            return {"b": b, "op": "update", "kid": kid, "neg": neg, "pos": pos}
        neg, pos = gen_np(rng, 0.4)
        return {"b": b, "op": "bare", "neg": neg, "pos": pos}

    def gen_script():
        script, frozen = [], [False]
        for _ in range(rng.choice([0, 1, 2, 3, 4, 5])):          # the shared prefix
            script.append(gen_feed(0))
        for _ in range(rng.randint(3, 12)):
            b = rng.randrange(len(frozen))
            r = rng.random()
            if len(frozen) < 4 and (frozen[b] or r < (0.5 if len(frozen) == 1 else 0.12)):
                unfreeze = rng.random() < 0.6 if frozen[b] else rng.random() < 0.3
                script.append({"b": b, "op": "fork", "unfreeze": unfreeze})
                frozen.append(frozen[b] and not unfreeze)
            elif frozen[b]:
                if r < 0.5:
                    script.append({"b": b, "op": "optimize", "cache": rng.random() < 0.3})
            elif r < 0.72:
                script.append(gen_feed(b))
            elif r < 0.78 and len(frozen) > 1:
                script.append({"b": b, "op": "merge_branch", "src": rng.choice([x for x in range(len(frozen)) if x != b])})
            elif r < 0.83:
                script.append({"b": b, "op": "merge_new", "freeze": rng.random() < 0.5,
                               "script": [dict(gen_feed(0), b=0) for _ in range(rng.randint(1, 3))]})
            elif r < 0.92:
                script.append({"b": b, "op": "optimize", "cache": rng.random() < 0.3})
            else:
                script.append({"b": b, "op": "freeze"})
                frozen[b] = True
        return script

    def feed(d, ops, st):
        if st["op"] == "update":
            d.update_from_stream([W.chunk(st["kid"], st["neg"], st["pos"])])
            ops.append(dict(W.cj(st["kid"], st["neg"], st["pos"], with_cp=True), op="update"))
        else:
            d.add_bare_global(st["neg"], st["pos"])
            ops.append({"op": "bare", "neg": list(st["neg"]), "pos": list(st["pos"])})

    def copy_ops(ops):
        return [dict(o, ops=copy_ops(o["ops"])) if o["op"] == "merge" else dict(o) for o in ops]

    def run_script(script):
        """-> [(dict, flat model ops of that branch)]"""
        br = [[misc.ChunkedDataDict(), []]]
        for st in script:
            d, ops = br[st["b"]]
            op = st["op"]
            if op in ("update", "bare"):
                feed(d, ops, st)
            elif op == "fork":
                ctx.count("fork_%s%s" % ("frozen" if d.frozen else "mutable", "_unfreeze" if st["unfreeze"] else ""))
                br.append([d.clone(unfreeze=True) if st["unfreeze"] else d.clone(), copy_ops(ops)])
            elif op == "optimize":
                d.optimize(cache={} if st["cache"] else None)
                ops.append({"op": "optimize"})
            elif op == "freeze":
                d.freeze()
            elif op == "merge_branch":
                d.merge(br[st["src"]][0])
                ops.append({"op": "merge", "ops": copy_ops(br[st["src"]][1])})
            elif op == "merge_new":
                o, oo = misc.ChunkedDataDict(), []
                for sub in st["script"]:
                    feed(o, oo, sub)
                if st["freeze"]:
                    o.freeze()
                d.merge(o)
                ops.append({"op": "merge", "ops": oo})
            else:
                raise ValueError(op)
        return br

    def rebuild(ops):
        """a fresh dict fed only the entries of one flat history"""
        d = misc.ChunkedDataDict()
        for o in ops:
            if o["op"] == "update":
                d.update_from_stream([W.chunk(o["kid"], o["neg"], o["pos"])])
            elif o["op"] == "bare":
                d.add_bare_global(o["neg"], o["pos"])
            elif o["op"] == "merge":
                d.merge(rebuild(o["ops"]))
            elif o["op"] == "optimize":
                d.optimize()
        return d

    def U(b, kid, neg, pos):
        return {"b": b, "op": "update", "kid": kid, "neg": neg, "pos": pos}

    def G(b, neg, pos):
        return {"b": b, "op": "bare", "neg": neg, "pos": pos}

    scripts = [
        # clone of a mutable dict, then both are fed: a reset on one side, package entries on the other
        [G(0, [], ["a", "foo_a"]), U(0, 1, ["a"], ["b"]), {"b": 0, "op": "fork", "unfreeze": False}, G(1, ["*"], ["bar_x"]), U(0, 2, [], ["foo_b"]),
         G(1, ["foo_*"], []), U(1, 1, [], ["foobar"]), G(0, [], ["bar_x"])],
        [U(0, 5, [], ["a"]), U(0, 1, [], ["b"]), {"b": 0, "op": "fork", "unfreeze": True}, U(0, 5, ["a"], []), U(1, 1, ["b"], ["foo_a"]),
         {"b": 0, "op": "optimize", "cache": False}, {"b": 1, "op": "freeze"}],
        # frozen source: a shared clone, an unfrozen one that is fed, a second generation
        [G(0, [], ["a"]), U(0, 3, ["a"], ["foo_a"]), {"b": 0, "op": "freeze"}, {"b": 0, "op": "fork", "unfreeze": False},
         {"b": 0, "op": "fork", "unfreeze": True}, G(2, ["foo_*"], ["b"]), {"b": 2, "op": "fork", "unfreeze": False}, U(3, 1, ["b"], []), U(2, 2, [], ["bar_x"])],
        # a live branch merged into another one and fed afterwards
        [U(0, 1, [], ["a"]), {"b": 0, "op": "fork", "unfreeze": False}, G(1, [], ["b"]), {"b": 0, "op": "merge_branch", "src": 1}, G(1, ["*"], []),
         U(1, 1, [], ["foo_a"]), U(0, 5, [], ["foo_b"])],
    ]
    if ctx.replay_cases:
        scripts = [c["fork_script"] for c in ctx.replay_cases if "fork_script" in c] + scripts
    scripts += [gen_script() for _ in range(ctx.n(500, 12000))]
    freqs, fmeta = [], []
    for script in scripts:
        try:
            br = run_script(script)
        except Exception as e:
            ctx.violation({"fork_script": script}, f"the operations raised {type(e).__name__}: {e}")
            continue
        for bi, (d, ops) in enumerate(br):
            queries = []
            for p in W.pkgs:
                pre = rng.sample(NAMES, rng.choice([0, 0, 1, 2]))
                queries.append({"key": p.key, "match": match_sets[str(p)], "pre": pre})
            freqs.append({"cmd": "c11.history", "ops": ops, "keys": [[k, v] for k, v in W.cp_kid.items()], "queries": queries, "probes": PROBES})
            fmeta.append((script, len(br), bi, d, ops, queries))
    nfork = 0
    for (script, nbr, bi, d, ops, queries), rep in zip(fmeta, ctx.model(freqs)):
        case = {"fork_script": script, "branch": bi, "entries_fed_to_this_branch": ops}
        if rep == "bad-op":
            ctx.mismatch(case, "driver rejected the history")
            continue
        first_fork = next((i for i, st in enumerate(script) if st["op"] == "fork"), len(script))
        fed_after = sum(1 for st in script[first_fork:] if st["op"] in ("update", "bare", "merge_branch", "merge_new"))
        if bi == 0:
            nfork += 1
            ctx.count("fork_branches_%d" % nbr)
            ctx.count("fork_fed_after_first_fork_%s" % min(fed_after, 6))
        ctx.case(case, nbr >= 2 and fed_after >= 1, key="F|%d|%r" % (bi, script))
        try:
            fresh = rebuild(ops)
        except Exception as e:
            ctx.violation(case, f"feeding a fresh dict this branch's entries raised {type(e).__name__}: {e}")
            continue
        for p, q, out in zip(W.pkgs, queries, rep["out"]):
            qc = dict(case, pkg=str(p), pre_defaults=q["pre"])
            try:
                got = set(d.render_pkg(p, q["pre"]))
                alone = set(fresh.render_pkg(p, q["pre"]))
            except Exception as e:
                ctx.violation(qc, f"render_pkg raised {type(e).__name__}: {e}")
                continue
            ctx.evaluations += 2
            bad = next((x for x, h in zip(PROBES, out["holds"]) if (x in got) != h), None)
            if bad is not None:
                ctx.violation(qc, f"flag {bad!r}: branch {bi} of {nbr} renders {sorted(got)}; applying the entries fed to this branch in order says "
                                  f"{bad!r} is {bad not in got} (a fresh dict fed only these entries renders {sorted(alone)})")
                continue
            if got != alone:
                ctx.violation(qc, f"branch {bi} of {nbr} renders {sorted(got)}; a fresh dict fed only this branch's entries renders {sorted(alone)}")
                continue
            if sorted(got) != sorted(out["render"]):
                ctx.mismatch(qc, f"render_pkg gives {sorted(got)}, the model {sorted(out['render'])}")
    ctx.extra["forked_histories"] = nfork


    # ------------------------------------------------------------------ the token-line level
    # user package.use lines: the real package_use_splitter + domain.pkg_use against the Lean model (`splitUse`, `lineChunk`);
    # the property on the real code: the stored chunk applies like the line's tokens, each rewritten by the `NAME:` section it
    # stands in, applied left to right (python reference below, cross-checked with the Lean `rewrite` / `holds`).  The class of
    # the open finding (order inside one line lost) is computed from the *raw* line by the model: the specified splitter output
    # still switches a flag on that a later token switches off.
    from pkgcore.ebuild import domain as dom
    from pkgcore.ebuild import profiles as profiles_mod
    from pkgcore.ebuild.eapi import get_latest_PMS_eapi
    from pkgcore.restrictions import packages as packages_mod
    from snakeoil.sequences import split_negations
    import os, shutil, tempfile
    from pkgcore.test.misc import FakePkg
    raw_pkg_use = dom.domain.__dict__["pkg_use"].function.args[0]
    real_valid = get_latest_PMS_eapi().is_valid_use_flag

    def ltr(tokens, s):
        s = set(s)
        for t in tokens:
            if t == "-*":
                s.clear()
            elif t.startswith("-") and t.endswith("_*"):
                s = {f for f in s if not f.startswith(t[1:-1])}
            elif t.startswith("-"):
                s.discard(t[1:])
            else:
                s.add(t)
        return s

    def ref_rewrite(tokens):
        """each token rewritten by the section it stands in; before the first section unchanged"""
        out, ue = [], None
        for t in tokens:
            if t.endswith(":"):
                ue = t[:-1].lower()
            elif ue is None:
                out.append(t)
            elif t.startswith("-"):
                out.append(f"-{ue}_{t[1:]}")
            else:
                out.append(f"{ue}_{t}")
        return out

    def contradictory(tokens):
        """does the token list say both on and off about some flag (used for the global USE sample below)"""
        on = {t for t in tokens if not t.startswith("-")}
        for t in tokens:
            if t == "-*" and on:
                return True
            if t.startswith("-") and t.endswith("_*") and any(f.startswith(t[1:-1]) for f in on):
                return True
            if t.startswith("-") and t[1:] in on:
                return True
        return False

    HEADERS = ["FOO:", "BAR:", "FOO:", "BAR:", "foo:", "Bar:"]

    def gen_line_tokens(odd=0.06):
        toks = []
        for _ in range(rng.choice([0, 1, 1, 2, 3, 4, 5])):
            r = rng.random()
            if r < 0.78:
                toks.append(rng.choice(["", "", "-"]) + rng.choice(["a", "b", "c"]))
            elif r < 0.78 + odd / 2:
                toks.append(rng.choice(["a*", "-", "+a", "--a", "a:b", "_a", "foo_x", "-foo_y"]))
            else:
                toks.append("-*")
        for _ in range(rng.choice([0, 0, 1, 1, 2, 3])):
            toks.append(rng.choice(HEADERS) if rng.random() > odd / 3 else rng.choice(["-FOO:", ":", "F-O:", "-:"]))
            for _ in range(rng.randint(0, 4)):
                r = rng.random()
                if r < 0.75:
                    toks.append(rng.choice(["", "", "-"]) + rng.choice(["x", "y"]))
                elif r < 0.75 + odd / 2:
                    toks.append(rng.choice(["*", "-", "x*", "--x", "+y"]))
                else:
                    toks.append("-*")
        return toks

    line_corpus = [["a", "-a"], ["-a", "a", "-a"], ["a", "-*", "b"], ["FOO:", "x", "-*", "y"], ["FOO:", "x", "BAR:", "y", "FOO:", "-*"],
                   ["a", "FOO:", "-*", "x"], ["-*", "FOO:", "x"], ["a", "b"], ["-a", "FOO:", "-x", "y"],
                   ["a", "-*", "b", "FOO:", "x"], ["a", "-*", "b", "-*", "c", "FOO:", "x", "-*", "y", "-*", "BAR:", "x", "-*"],
                   ["FOO:", "x", "y", "BAR:", "x", "-*", "FOO:", "-y"], ["a", "FOO:"], ["FOO:"], ["-*"], ["FOO:", "-*"], ["a", "FOO:", "*"],
                   ["a*"], ["-FOO:", "x", "-*"], ["b", "-*", "FOO:", "x", "BAR:", "-*", "y"], ["-b", "c", "-*", "a", "foo:", "x", "FOO:", "-x"]]
    if ctx.replay_cases:
        line_corpus = [c["package.use"].split()[1:] for c in ctx.replay_cases if isinstance(c.get("package.use"), str)] + line_corpus
    LPROBES = ["a", "b", "c", "foo_x", "foo_y", "bar_x", "bar_y", "q"]
    lines = line_corpus + [gen_line_tokens() for _ in range(ctx.n(700, 12000))]
    info = {}          # raw token tuple -> model answer of c11.split
    for toks, rep in zip(lines, ctx.model([{"cmd": "c11.split", "toks": t} for t in lines])):
        info[tuple(toks)] = rep

    def split_info(toks):
        key = tuple(toks)
        if key not in info:
            info[key] = ctx.model([{"cmd": "c11.split", "toks": list(toks)}])[0]
        return info[key]

    nlines = 0
    lreqs, lmeta = [], []
    for toks in lines:
        rep = info[tuple(toks)]
        query = rng.choice(["cat/pkg", "=cat/pkg-1", "*/*", "cat/*"])
        line = query + " " + " ".join(toks)
        case = {"package.use": line}
        if rep == "bad-op":
            ctx.mismatch(case, "driver rejected the request")
            continue
        for tok, ok in rep["checked"]:
            if bool(real_valid(tok)) != ok:
                ctx.mismatch(case, f"is_valid_use_flag({tok!r}) is {bool(real_valid(tok))}, the model's predicate says {ok}")
        if rep["rewrite"] != ref_rewrite(toks):
            ctx.mismatch(case, f"reference rewriting {ref_rewrite(toks)} differs from the Lean specification {rep['rewrite']}")
        try:
            parsed = list(dom.package_use_splitter(iter([(line, 1, "package.use")])))
            data = raw_pkg_use(None, iter(parsed))
        except Exception as e:
            ctx.violation(case, f"package.use processing raised {type(e).__name__}: {e}")
            continue
        nlines += 1
        sections = sum(1 for t in toks if t.endswith(":"))
        nontriv = (sections > 0 or "-*" in toks) and len(toks) >= 2
        ctx.case(case, nontriv, key="L|" + line)
        ctx.count("line_sections_%d" % min(sections, 3))
        ctx.count("line_" + ("rejected" if rep["out"] is None else "order_free" if rep["order_free"] else "order_matters"))
        real_out = list(parsed[0][1]) if parsed else None
        if real_out != rep["out"]:
            ctx.mismatch(case, f"package_use_splitter yields {real_out}, the model {rep['out']}")
        if real_out is not None and rep["out"] is not None:
            neg, pos = data[0][1]
            if (sorted(neg), sorted(pos)) != (sorted(rep["neg"]), sorted(rep["pos"])):
                ctx.mismatch(case, f"pkg_use stores neg={sorted(neg)} pos={sorted(pos)}, the model neg={sorted(rep['neg'])} pos={sorted(rep['pos'])}")
        if real_out is None or not rep["plain_names"]:
            continue        # rejected line (logged and skipped by pkgcore) / a header that is no USE_EXPAND name
        for p in W.pkgs:
            pre = rng.sample(["a", "b", "foo_x", "bar_y", "q"], rng.choice([0, 1, 2]))
            lreqs.append({"cmd": "c11.ltr", "toks": ref_rewrite(toks), "pre": pre, "probes": LPROBES})
            lmeta.append((case, toks, rep, data, p, pre))
    for (case, toks, rep, data, p, pre), out in zip(lmeta, ctx.model(lreqs)):
        d = misc.ChunkedDataDict()
        d.update_from_stream(misc.chunked_data(k, *v) for k, v in data)
        got = set(d.render_pkg(p, pre))
        want = ltr(ref_rewrite(toks), pre) if data[0][0].match(p) else set(pre)
        ctx.evaluations += 1
        if data[0][0].match(p) and sorted(want) != sorted(out["set"]):
            ctx.mismatch(dict(case, pre_defaults=pre), f"reference left-to-right result {sorted(want)} differs from the Lean specification {sorted(out['set'])}")
        if got != want:
            ctx.violation(dict(case, pkg=str(p), pre_defaults=pre, tokens=ref_rewrite(toks)),
                          f"renders {sorted(got)}, the tokens (each rewritten by its section) applied left to right give {sorted(want)}",
                          finding=None if rep["order_free"] else "C11-inline-order-lost")

    # ------------------------------------------------------------------ the real domain: user package.use files -> flags of a package
    # domain(profile with USE_EXPAND="FOO BAR", config_dir with package.use/*, optional global USE) asked through
    # get_package_use_unconfigured and enabled_use.pull_data; expected = IUSE defaults, then the global USE, then every accepted
    # line matching the package, in file order, token by token.
    IUSE = ["a", "+b", "c", "foo_x", "+foo_y", "bar_x", "bar_y"]
    STRIPPED = {f.lstrip("+") for f in IUSE}
    dpkgs = [FakePkg(cpv, eapi="8", iuse=IUSE, keywords=["~amd64"]) for cpv in ("cat/pkg-1", "cat/pkg-2", "oth/x-1")]
    tmp = tempfile.mkdtemp(prefix="verif-c11-")
    ndom = 0
    try:
        base, root = os.path.join(tmp, "profiles"), os.path.join(tmp, "root")
        os.makedirs(os.path.join(base, "profile1"))
        os.makedirs(root)
        with open(os.path.join(base, "profile1", "make.defaults"), "w") as f:
            f.write('ARCH="amd64"\nACCEPT_KEYWORDS="amd64 ~amd64"\nUSE_EXPAND="FOO BAR"\n')
        configs = [
            (["*/* a b FOO: y", "*/* x c -* a FOO: x"], ""), (["*/* a FOO: x y", "cat/pkg b -* c FOO: -* y BAR: x"], "c"),
            (["*/* c FOO: x BAR: x y", "=cat/pkg-1 -* FOO: y", "cat/* BAR: -* y"], "-b a"), (["*/* -* FOO: x"], "a b c"),
        ]
        if ctx.replay_cases:
            configs = [(c["package.use"], c.get("USE", "")) for c in ctx.replay_cases if isinstance(c.get("package.use"), list)] + configs
        for _ in range(ctx.n(110, 2500)):
            cl = []
            for _ in range(rng.randint(1, 6)):
                cl.append(rng.choice(["*/*", "*/*", "cat/pkg", "=cat/pkg-1", ">=cat/pkg-2", "cat/*", "oth/x"]) + " " + " ".join(gen_line_tokens(odd=0.02)))
            use = " ".join(rng.choice(["", "-"]) + rng.choice(["a", "b", "c", "foo_x", "bar_y"]) if rng.random() < 0.9 else "-*"
                           for _ in range(rng.choice([0, 0, 1, 2, 3])))
            configs.append((cl, use))
        need = sorted({tuple(l.split()[1:]) for cl, _use in configs for l in cl} - set(info))
        for key, rep in zip(need, ctx.model([{"cmd": "c11.split", "toks": list(k)} for k in need])):
            info[key] = rep
        for ci, (cl, use) in enumerate(configs):
            conf = os.path.join(tmp, "conf%d" % ci)
            os.makedirs(os.path.join(conf, "package.use"))
            cut = rng.randint(0, len(cl))
            for name, part in (("00-first", cl[:cut]), ("50-second", cl[cut:])):
                with open(os.path.join(conf, "package.use", name), "w") as f:
                    f.write("".join(l + "\n" for l in part))
            case = {"package.use": cl, "USE": use}
            use_toks = use.split() + os.environ.get("USE", "").split()
            try:
                the_dom = dom.domain(profiles_mod.OnDiskProfile(base, "profile1"), [], [], ROOT=root, config_dir=conf, **({"USE": use} if use else {}))
            except Exception as e:
                ctx.violation(case, f"domain construction raised {type(e).__name__}: {e}")
                continue
            ndom += 1
            ctx.case(case, any(":" in l or "-*" in l for l in cl) and len(cl) >= 2, key="D|" + repr(case))
            ctx.count("domain_lines_%d" % len(cl))
            for p in dpkgs:
                pre = sorted(f[1:] for f in IUSE if f[0] == "+")
                stream, klass = list(use_toks), None if not contradictory(use_toks) else "C11-inline-order-lost"
                for l in cl:
                    q, *toks = l.split()
                    rep = split_info(toks)
                    if rep["out"] is None or not toks:
                        continue
                    try:
                        hit = dom.parse_match(q).match(p)
                    except Exception:
                        continue
                    if hit:
                        stream += ref_rewrite(toks)
                        if not rep["order_free"] or not rep["plain_names"]:
                            klass = "C11-inline-order-lost"
                want = ltr(stream, pre) & STRIPPED
                pc = dict(case, pkg=str(p), tokens=stream)
                try:
                    got1 = set(the_dom.get_package_use_unconfigured(p)[1]) & STRIPPED
                    got2 = set(the_dom.enabled_use.pull_data(p, pre_defaults=pre)) & STRIPPED
                except Exception as e:
                    ctx.violation(pc, f"asking the domain raised {type(e).__name__}: {e}")
                    continue
                ctx.evaluations += 2
                ctx.count("domain_answer_" + ("order_matters" if klass else "order_free"))
                for what, got in (("get_package_use_unconfigured", got1), ("enabled_use.pull_data", got2)):
                    if got != want:
                        ctx.violation(pc, f"{what} enables {sorted(got)}; IUSE defaults {pre}, then USE, then the matching package.use lines "
                                          f"applied token by token give {sorted(want)}", finding=klass)
                        break
    finally:
        shutil.rmtree(tmp, ignore_errors=True)
    ctx.extra["domains"] = ndom

    for toks in [["foo_a", "-foo_*"], ["a", "-a"], ["-a", "a"], ["a", "-*", "b"]] + \
                [[rng.choice(["", "-"]) + rng.choice(["a", "b", "foo_a", "foo_*", "*"]) for _ in range(rng.randint(1, 5))] for _ in range(ctx.n(300, 6000))]:
        toks = [t for t in toks if t != "*"]
        try:
            neg, pos = split_negations(frozenset(misc.optimize_incrementals(toks)))
        except ValueError:
            continue
        d = misc.ChunkedDataDict()
        d.add_bare_global(neg, pos)
        pre = rng.sample(["a", "b", "foo_a", "foo_b"], rng.choice([0, 1, 2]))
        got = set(d.render_pkg(W.pkgs[0], pre))
        want = ltr(toks, pre)
        nlines += 1
        ctx.evaluations += 1
        if got != want:
            ctx.violation({"USE": " ".join(toks), "pre_defaults": pre}, f"renders {sorted(got)}, the tokens applied left to right give {sorted(want)}",
                          finding="C11-inline-order-lost" if contradictory(toks) else None)
    ctx.extra["token_line_cases"] = nlines

    # ------------------------------------------------------------------ stacked profiles: real ProfileStack objects over on-disk trees
    # The "order given" for profile entries is the stack: parents depth first in the order the `parent` file lists them, then the
    # node itself -- a profile inherited along several branches (diamonds, the same parent listed twice) stands in it once per
    # branch.  Generated trees of 2-6 profile directories with use.mask / use.force / package.use / package.use.mask /
    # package.use.force and the use.stable.* / package.use.stable.* variants (EAPI >= 5 nodes only); the six collapsed dicts of
    # OnDiskProfile (and a domain built on it) are compared with the flat application of every node's entries in stack order.
    PFLAGS = ["a", "b", "foo_a", "foo_b", "foobar", "bar_x"]
    PNEG = PFLAGS + ["foo_*", "*"]
    ATOM_KIDS = [1, 2, 3, 4, 5, 6]          # indices into W.keys that are atoms
    GLOBAL_FILES = ["use.mask", "use.force", "use.stable.mask", "use.stable.force"]
    PKG_FILES = ["package.use", "package.use.mask", "package.use.force", "package.use.stable.mask", "package.use.stable.force"]
    PIUSE = ["a", "+b", "foo_a", "+foo_b", "foobar", "bar_x"]
    PSTRIPPED = {f.lstrip("+") for f in PIUSE}
    ppkgs = [FakePkg(str_cpv, eapi="8", iuse=PIUSE, keywords=["~amd64"]) for str_cpv in ("cat/pkg-1", "cat/pkg-2", "oth/x-1")]
    pmatch = [W.matches(p) for p in ppkgs]

    def gen_flagline(wild):
        """tokens of one entry, negatives first, no flag both on and off (the order inside one entry is the business of the line level)"""
        n = rng.choice([1, 1, 2, 3])
        names = rng.sample(PNEG if rng.random() < wild else PFLAGS, min(n, len(PFLAGS)))
        neg = [x for x in names if x in ("*", "foo_*") or rng.random() < 0.45]
        pos = [x for x in names if x not in neg]
        return neg, pos

    def gen_node(i):
        node = {"eapi": rng.choice([None, "5", "8", "8"]), "parents": [], "files": {}}
        if i > 0:
            k = rng.choice([1, 1, 2, 2, 3])
            node["parents"] = [rng.randrange(i) for _ in range(k)]      # earlier nodes only: acyclic; repeats and shared ancestors welcome
        for fn in GLOBAL_FILES:
            if rng.random() < 0.45:
                neg, pos = [], []
                for name in rng.sample(PNEG if rng.random() < 0.2 else PFLAGS, rng.choice([1, 1, 2, 3])):
                    (neg if name in ("*", "foo_*") or rng.random() < 0.45 else pos).append(name)
                node["files"][fn] = [["-" + x] for x in neg] + [[x] for x in pos]          # one flag per line
        for fn in PKG_FILES:
            if rng.random() < 0.45:
                lines = []
                for _ in range(rng.choice([1, 1, 2, 3])):
                    kid = rng.choice(ATOM_KIDS)
                    neg, pos = gen_flagline(0.15)
                    lines.append([str(W.keys[kid][0])] + ["-" + x for x in neg] + pos)
                node["files"][fn] = lines
        return node

    def stack_order(nodes, i):
        out = []
        for par in nodes[i]["parents"]:
            out += stack_order(nodes, par)
        return out + [i]

    def kid_of_atom(text):
        return next(k for k in ATOM_KIDS if str(W.keys[k][0]) == text)

    def node_entries(node, attr):
        """the entries one node contributes to a collapsed dict, in the order the node applies them: (kid, neg, pos)"""
        stable_ok = node["eapi"] in ("5", "8")
        def glob(fn):
            toks = [t for line in node["files"].get(fn, []) for t in line]
            neg, pos = [t[1:] for t in toks if t[0] == "-"], [t for t in toks if t[0] != "-"]
            return [(0, neg, pos)] if neg or pos else []
        def lines(fn):
            # (_parse_package_use regroups the lines by cp; a package has one cp, so its entries keep their order)
            return [(kid_of_atom(l[0]), [t[1:] for t in l[1:] if t[0] == "-"], [t for t in l[1:] if t[0] != "-"]) for l in node["files"].get(fn, [])]
        if attr in ("masked_use", "forced_use"):
            w = "mask" if attr == "masked_use" else "force"
            return glob("use." + w) + lines("package.use." + w)
        if attr in ("stable_masked_use", "stable_forced_use"):
            w = "mask" if attr == "stable_masked_use" else "force"
            return glob("use." + w) + (glob("use.stable." + w) if stable_ok else []) + lines("package.use." + w) + \
                (lines("package.use.stable." + w) if stable_ok else [])
        return lines("package.use")          # pkg_use, stable_use (use.stable / package.use.stable need EAPI 9)

    ATTRS = ["masked_use", "forced_use", "stable_masked_use", "stable_forced_use", "pkg_use", "stable_use"]
    trees = [
        # diamond: base, a, base, b, top -- branch a undoes what the shared base says
        [{"eapi": "8", "parents": [], "files": {"use.mask": [["a"]], "use.force": [["b"]], "package.use": [["cat/pkg", "foo_a"]], "package.use.mask": [["cat/pkg", "bar_x"]]}},
         {"eapi": "8", "parents": [0], "files": {"use.mask": [["-a"]], "use.force": [["-b"]], "package.use": [["cat/pkg", "-foo_a"]], "package.use.mask": [["=cat/pkg-1", "-bar_x"]]}},
         {"eapi": "8", "parents": [0], "files": {}},
         {"eapi": "8", "parents": [1, 2], "files": {}}],
        # the same parent twice, a -* in between
        [{"eapi": None, "parents": [], "files": {"use.force": [["a"], ["foo_a"]]}},
         {"eapi": "5", "parents": [0], "files": {"use.force": [["-*"]], "use.stable.force": [["b"]]}},
         {"eapi": "5", "parents": [1, 0, 1], "files": {"package.use.force": [["oth/x", "-a"]]}}],
    ]
    if ctx.replay_cases:
        trees = [c["profiles"] for c in ctx.replay_cases if "profiles" in c] + trees
    for _ in range(ctx.n(70, 1500)):
        trees.append([gen_node(i) for i in range(rng.randint(2, 6))])
    tmp = tempfile.mkdtemp(prefix="verif-c11p-")
    nprof = 0
    try:
        preqs, pmeta = [], []
        for ti, nodes in enumerate(trees):
            base = os.path.join(tmp, "t%d" % ti, "profiles")
            for i, node in enumerate(nodes):
                d = os.path.join(base, "n%d" % i)
                os.makedirs(d)
                if node["eapi"]:
                    with open(os.path.join(d, "eapi"), "w") as f:
                        f.write(node["eapi"] + "\n")
                if node["parents"]:
                    with open(os.path.join(d, "parent"), "w") as f:
                        f.write("".join("../n%d\n" % par for par in node["parents"]))
                for fn, lines in node["files"].items():
                    with open(os.path.join(d, fn), "w") as f:
                        f.write("".join(" ".join(l) + "\n" for l in lines))
            top = len(nodes) - 1
            with open(os.path.join(base, "n%d" % top, "make.defaults"), "w") as f:
                f.write('ARCH="amd64"\nACCEPT_KEYWORDS="amd64 ~amd64"\n')
            case = {"profiles": nodes}
            order = stack_order(nodes, top)
            try:
                prof = profiles_mod.OnDiskProfile(base, "n%d" % top)
                real_order = [os.path.basename(n.path) for n in prof.stack][1:]
            except Exception as e:
                ctx.violation(case, f"building the profile stack raised {type(e).__name__}: {e}")
                continue
            if real_order != ["n%d" % i for i in order]:
                ctx.mismatch(case, f"the stack is {real_order}, parents-first depth-first order is {order}")
                continue
            nprof += 1
            shared = len(order) != len(set(order))
            ctx.case(case, len(order) >= 3, key="T|" + repr(nodes))
            ctx.count("profile_stack_%s" % min(len(order), 9))
            ctx.count("profile_shared_ancestor_%s" % shared)
            flat = {attr: [e for i in order for e in node_entries(nodes[i], attr)] for attr in ATTRS}
            for attr in ATTRS:
                try:
                    real_d = getattr(prof, attr)
                except Exception as e:
                    ctx.violation(dict(case, attr=attr), f"collapsing {attr} raised {type(e).__name__}: {e}")
                    continue
                for p, ms in zip(ppkgs, pmatch):
                    pre = rng.sample(PFLAGS, rng.choice([0, 0, 1, 2]))
                    preqs.append({"cmd": "c11.render", "seq": [W.cj(k, n, p_) for k, n, p_ in flat[attr]], "match": ms, "pre": pre, "probes": PROBES, "rk": 1})
                    pmeta.append(("attr", case, attr, real_d, p, pre, flat[attr]))
            # ... and through a domain built on the profile: forced (immutable), masked (disabled), enabled
            if not os.environ.get("USE"):
                conf, root = os.path.join(tmp, "t%d" % ti, "conf"), os.path.join(tmp, "t%d" % ti, "root")
                os.makedirs(conf)
                os.makedirs(root)
                try:
                    the_dom = dom.domain(prof, [], [], ROOT=root, config_dir=conf)
                except Exception as e:
                    ctx.violation(case, f"domain construction raised {type(e).__name__}: {e}")
                    continue
                pre = sorted(f[1:] for f in PIUSE if f[0] == "+")
                for p, ms in zip(ppkgs, pmatch):
                    for attr, pre_ in (("forced_use", []), ("masked_use", []), ("pkg_use", pre)):
                        seq = flat[attr] + ([(0, [], ["amd64"])] if attr == "forced_use" else [])
                        preqs.append({"cmd": "c11.render", "seq": [W.cj(k, n, p_) for k, n, p_ in seq], "match": ms, "pre": pre_, "probes": PROBES, "rk": 1})
                    pmeta.append(("domain", case, None, the_dom, p, pre, None))
        reps = iter(ctx.model(preqs))
        for kind, case, attr, obj, p, pre, seq in pmeta:
            if kind == "attr":
                rep = next(reps)
                pc = dict(case, attr=attr, pkg=str(p), pre_defaults=pre, entries_in_stack_order=[list(e) for e in seq])
                try:
                    got = set(obj.render_pkg(p, pre))
                except Exception as e:
                    ctx.violation(pc, f"render_pkg raised {type(e).__name__}: {e}")
                    continue
                ctx.evaluations += 1
                if sorted(got) != sorted(rep["render"]):
                    ctx.mismatch(pc, f"ProfileStack.{attr} renders {sorted(got)}, the model on the flat stack {sorted(rep['render'])}")
                for x, h in zip(PROBES, rep["holds"]):
                    if (x in got) != h:
                        ctx.violation(pc, f"flag {x!r}: ProfileStack.{attr} says {x in got}; applying the entries of the stack in order says {h}")
                        break
            else:
                forced, masked, enabled = (set(next(reps)["render"]) for _ in range(3))
                want_en = ((enabled & PSTRIPPED) | forced) - masked
                pc = dict(case, pkg=str(p))
                try:
                    imm, en, dis = obj.get_package_use_unconfigured(p)
                except Exception as e:
                    ctx.violation(pc, f"get_package_use_unconfigured raised {type(e).__name__}: {e}")
                    continue
                ctx.evaluations += 1
                if set(imm) != forced or set(dis) != masked or set(en) != want_en:
                    ctx.violation(pc, f"get_package_use_unconfigured gives forced {sorted(imm)} masked {sorted(dis)} enabled {sorted(en)}; the stack applied in "
                                      f"order gives forced {sorted(forced)} masked {sorted(masked)} enabled {sorted(want_en)}")
    finally:
        shutil.rmtree(tmp, ignore_errors=True)
    ctx.extra["profile_trees"] = nprof


LEVEL_TEXT = ("Kernel-checked Lean 4 theorems about models of incremental_chunked, _build_cp_atom_payload and the ChunkedDataDict operations: "
              "rendering a chunk sequence is 'the last applicable chunk speaking about a flag decides' (-flag, flag, -*, -PREFIX_*), for all "
              "sequences and initial sets; the collapsed sequence of _build_cp_atom_payload renders the same set for every package and initial "
              "set; every dict built by update_from_stream/add_global/merge/optimize (freeze/clone being the identity) renders, for every "
              "package, the flat history of its entries applied in order. User package.use lines: the model of package_use_splitter equals a "
              "look-ahead specification (the line rewritten section by section minus the tokens a later -* of the same part overrides), its "
              "output is a subsequence of the rewritten line, is accepted iff every long-form token is a valid flag, and applied left to right "
              "means the same as the whole rewritten line; the single chunk domain.pkg_use stores for a line applies like the tokens in order "
              "whenever no token switches a flag on that a later one switches off (proved counterexample otherwise). Tied to the code by a "
              "differential run on random and bounded-exhaustive chunk sequences, random operation histories through the real API, random "
              "package.use lines through the real splitter, whole configurations through a real domain object, and generated profile trees (with "
              "shared ancestors) through real ProfileStack objects compared with the flat stack order, which also evaluates the "
              "flat specification on the real results.")
LEVEL_NOTE = ("Trusted: Lean kernel; restrictions reduced to identity/simple/cp (match results taken from the real match()); sets as lists; "
              "lines modelled behind str.split(); the domain glue above the chunks is driven, not modelled. Partial: split_negations("
              "stable_unique(...)) in domain.pkg_use loses the order of contradictory tokens within one line (open finding "
              "C11-inline-order-lost: `a -a`, `FOO: x BAR: y FOO: -*`; the theorems carry the guard `orderFree`); section headers starting "
              "with '-' are outside the guard of splitter_preserves_meaning_partial.")
