"""C45 — security advisories flag exactly the vulnerable installed versions."""
import os
import shutil
import tempfile

PID = "C45"
LEAN_MODULES = ["Pkgcore.Props.C45"]
OBLIGATIONS = [
    "Pkgcore.C45.range_eq_spec_partial",
    "Pkgcore.C45.affected_eq_spec_partial",
    "Pkgcore.C45.affected_eq_loose_spec",
    "Pkgcore.C45.affected_eq_spec_counterexample",
    "Pkgcore.C45.malformed_range_skips_entry",
    "Pkgcore.C45.op_table",
    "Pkgcore.C45.directory_eq_loose_spec",
]
TRUSTED = [
    "XML parsing (lxml) and version lexing (cpv.VersionedCPV) are glue: range nodes reach the model as (operator, slot, glob flag, fullver text, lexed "
    "version, revision); the generator builds both the structure and the XML text, a calibration step compares every version text with the real "
    "VersionedCPV, and the correspondence run reads the XML files with the real GlsaDirSet",
    "C01 order (ver_cmp = PMS) for the version operators; atom(name).match for a plain category/package name is key equality",
]
ASSUMPTIONS = [
    "range operators are the nine of the GLSA DTD or rejected by the code; operators such as 'req' or 'rrle', which the code accepts because it strips "
    "every leading 'r' before the table lookup, are outside the class of advisories (StdOps hypothesis)",
    "the slot attribute names a concrete slot (slot=\"*\", which portage reads as 'any slot', is taken literally by the code and not generated)",
    "package entry names are plain category/package",
]
RULE = ("random advisory files, alone and in directories of 2-6 files read by one GlsaDirSet object that is iterated twice and then grouped (the directory's "
        "advisories keep coming back to a few version texts: named exactly in one, as a glob in the next, with and without slot, vulnerable and unaffected); "
        "per file 1-3 <package> entries over 3 package names, 0-3 vulnerable and 0-2 unaffected ranges each, every operator "
        "(lt le eq ge gt rlt rle rge rgt), versions taken from / near the installed set with and without revisions (incl. -r0), eq globs, slots, arch lists "
        "('*', empty, one, several), malformed ranges (unknown operator, missing or invalid version, glob with a non-eq operator, rlt of revision 0); "
        "12 installed packages per case over the same names; for every directory and every third single file the report find_vulnerable_repo_pkgs(glsa set, installed repo) "
        "is taken ungrouped and grouped, with and without arch, consumed pair by pair or with all (restriction, matches) pairs collected first and the matches "
        "read afterwards (first to last / last to first); non-trivial = an evaluated entry that flags at least one but not all packages of its name")

KEYS = ["app-misc/foo", "dev-libs/bar", "sys-apps/baz"]
VERS = [
    {"comps": ["1"], "letter": None, "sufs": []},
    {"comps": ["1", "0"], "letter": None, "sufs": []},
    {"comps": ["1", "00"], "letter": None, "sufs": []},
    {"comps": ["1", "2"], "letter": None, "sufs": []},
    {"comps": ["1", "2", "3"], "letter": None, "sufs": []},
    {"comps": ["1", "20"], "letter": None, "sufs": []},
    {"comps": ["1", "2"], "letter": "a", "sufs": []},
    {"comps": ["1", "2"], "letter": None, "sufs": [["p", "1"]]},
    {"comps": ["1", "3"], "letter": None, "sufs": []},
    {"comps": ["2"], "letter": None, "sufs": [["p", ""]]},
    {"comps": ["2"], "letter": None, "sufs": [["p", "3"]]},
    {"comps": ["2"], "letter": None, "sufs": [["rc", "1"]]},
    {"comps": ["2"], "letter": None, "sufs": []},
    {"comps": ["10"], "letter": None, "sufs": []},
    {"comps": ["0", "9"], "letter": None, "sufs": [["beta", "2"]]},
]
REVS = ["", "", "", "0", "1", "2", "10"]
SLOTS = ["0", "1", "2"]
ARCHES = ["x86", "amd64", "arm", "~x86"]
OPS = ["lt", "le", "eq", "ge", "gt", "rlt", "rle", "rge", "rgt"]
BAD_OPS = ["foo", "", "ne", "rlte", "RLE"]
BAD_VERS = ["abc", "1..2", "1.2.", "r1", "1.2-r", "1_foo"]


def gen_tables(repo):
    from pkgcore.pkgsets.glsa import GlsaDirSet
    items = ", ".join('("%s", "%s")' % kv for kv in GlsaDirSet.op_translate.items())
    text = ("-- GENERATED from /repo by harness/props/c45.py (gen_tables); do not edit\n"
            "namespace Pkgcore.Generated.C45\n"
            f"def opTranslate : List (String × String) := [{items}]\n"
            "end Pkgcore.Generated.C45\n")
    return {"Pkgcore/Generated/C45Tables.lean": text}


def render_ver(v):
    s = ".".join(v["comps"]) + (v["letter"] or "")
    for n, d in v["sufs"]:
        s += "_" + n + d
    return s


def fullver(v, rev):
    return render_ver(v) + ("-r" + rev if rev else "")


def gen_range(rng, pool_versions, shared=None):
    """`shared`: the few version texts the advisories of one directory keep coming back to (an upstream release line
    named exactly in one advisory, as a glob in the next, with and without slot, as vulnerable and as unaffected)"""
    k = rng.random()
    op = rng.choice(OPS) if k < 0.97 else rng.choice(BAD_OPS)
    if shared and rng.random() < 0.4:
        op = "eq"
    slot = rng.choice(SLOTS) if rng.random() < 0.3 else ""
    node = {"op": op, "slot": slot, "text": None, "_xml_text": None}
    t = rng.random()
    if t < 0.015:
        return node                                   # no text at all
    if t < 0.04:
        bad = rng.choice(BAD_VERS)
        node["text"] = {"glob": False, "parsed": None}
        node["_xml_text"] = bad
        return node
    v, rev = rng.choice(pool_versions) if rng.random() < 0.7 else (rng.choice(VERS), rng.choice(REVS))
    if rng.random() < 0.3:
        rev = rng.choice(REVS)
    from_shared = bool(shared) and rng.random() < 0.7
    if from_shared:
        v, rev = rng.choice(shared)
    glob = rng.random() < ((0.5 if from_shared else 0.6) if op == "eq" else 0.04)
    if glob and not from_shared and rng.random() < 0.7:
        # shorten the version so that the prefix relation is interesting
        v = {"comps": v["comps"][: rng.randint(1, len(v["comps"]))], "letter": None, "sufs": []} if rng.random() < 0.7 else \
            {"comps": v["comps"], "letter": None, "sufs": [[s, ""] for s, _ in v["sufs"][:1]]}
        rev = ""
    fv = fullver(v, rev)
    node["text"] = {"glob": glob, "parsed": {"fullver": fv, "ver": v, "rev": rev}}
    node["_xml_text"] = fv + ("*" if glob else "")
    return node


def gen_entry(rng, pool, shared=None):
    key = rng.choice(KEYS)
    versions = [(p["ver"], p["rev"]) for p in pool if p["key"] == key] or [(rng.choice(VERS), "")]
    name, name_ok = key, True
    if rng.random() < 0.04:
        name, name_ok = rng.choice(["foo", "=app-misc/foo", "app-misc/"]), False
    a = rng.random()
    arch = None if a < 0.4 else ["*"] if a < 0.55 else [] if a < 0.6 else [rng.choice(ARCHES)] if a < 0.8 else rng.sample(ARCHES, 2) if a < 0.95 else ["x86", "*"]
    nv = rng.choice([0, 1, 1, 1, 2, 2, 3])
    nu = rng.choice([0, 0, 1, 1, 2])
    return {"name": name, "nameOk": name_ok, "arch": arch,
            "vulnerable": [gen_range(rng, versions, shared) for _ in range(nv)],
            "unaffected": [gen_range(rng, versions, shared) for _ in range(nu)]}


def gen_directory(rng, pool):
    """a GLSA directory: several advisory files read by one GlsaDirSet object"""
    shared = []
    for _ in range(rng.choice([1, 2, 2, 3])):
        v, rev = (lambda p: (p["ver"], p["rev"]))(rng.choice(pool)) if rng.random() < 0.6 else (rng.choice(VERS), rng.choice(REVS))
        if rng.random() < 0.6:
            # a release line: the version cut to its first components
            v, rev = {"comps": v["comps"][: rng.randint(1, len(v["comps"]))], "letter": None, "sufs": []}, ""
        shared.append((v, rev))
    return [[gen_entry(rng, pool, shared) for _ in range(rng.choice([1, 1, 2, 3]))] for _ in range(rng.choice([2, 3, 4, 6]))]


def gen_pkg(rng):
    return {"key": rng.choice(KEYS), "ver": rng.choice(VERS), "rev": rng.choice(REVS), "slot": rng.choice(SLOTS),
            "keywords": sorted(rng.sample(ARCHES, rng.choice([0, 1, 1, 2, 3])))}


def rnode(op, text, slot="", glob=False, ver=None, rev=""):
    if text is None:
        return {"op": op, "slot": slot, "text": None, "_xml_text": None}
    if ver is None:
        return {"op": op, "slot": slot, "text": {"glob": glob, "parsed": None}, "_xml_text": text}
    return {"op": op, "slot": slot, "text": {"glob": glob, "parsed": {"fullver": fullver(ver, rev), "ver": ver, "rev": rev}},
            "_xml_text": fullver(ver, rev) + ("*" if glob else "")}


V = {render_ver(v): v for v in VERS}


def entry(vuln, unaff=(), arch=None, name="app-misc/foo"):
    return {"name": name, "nameOk": True, "arch": arch, "vulnerable": list(vuln), "unaffected": list(unaff)}


def P(ver, rev="", slot="0", kw=("x86",), key="app-misc/foo"):
    return {"key": key, "ver": V[ver], "rev": rev, "slot": slot, "keywords": list(kw)}


CORPUS_PKGS = [P("1.2"), P("1.2.3"), P("1.20"), P("1.3"), P("1.0"), P("1.0", "0"), P("1.0", "2"), P("1.0", slot="2"), P("1.2a"), P("1.2_p1"),
               P("2_p3", kw=("amd64", "arm")), P("1.00", "1", kw=()), P("1.2", key="dev-libs/bar")]
CORPUS = [
    # defects fixed in /repo
    [entry([rnode("lt", "2", ver=V["2"])], [rnode("eq", "1.2*", glob=True, ver=V["1.2"])])],               # unaffected glob lost its negation
    [entry([rnode("rge", "1.0", slot="2", ver=V["1.0"])]), entry([rnode("rle", "1.0", slot="2", ver=V["1.0"])]),
     entry([rnode("eq", "1*", slot="2", glob=True, ver=V["1"])])],                                          # slot ignored
    [entry([rnode("rle", "1.0", ver=V["1.0"])])],                                                           # rle missed an explicit -r0
    # the open finding: string prefix instead of component prefix
    [entry([rnode("eq", "1.2*", glob=True, ver=V["1.2"])])],
    [entry([rnode("lt", "2", ver=V["2"])], [rnode("eq", "1.2*", glob=True, ver=V["1.2"]), rnode("rge", "1.0-r2", ver=V["1.0"], rev="2")])],
    # every r-operator with and without revision, arch lists, malformed ranges
    [entry([rnode("rgt", "1.0", ver=V["1.0"])]), entry([rnode("rgt", "1.0-r1", ver=V["1.0"], rev="1")]), entry([rnode("rlt", "1.0-r2", ver=V["1.0"], rev="2")]),
     entry([rnode("rlt", "1.0-r0", ver=V["1.0"], rev="0")])],
    [entry([rnode("rlt", "1.0", ver=V["1.0"]), rnode("lt", "1.3", ver=V["1.3"])]), entry([rnode("lt", "1.3", ver=V["1.3"])], [rnode("rlt", "1.0", ver=V["1.0"])])],
    [entry([rnode("le", "2_p3", ver=V["2_p3"])], arch=["amd64", "arm"]), entry([rnode("le", "2_p3", ver=V["2_p3"])], arch=["x86", "*"]),
     entry([rnode("le", "2_p3", ver=V["2_p3"])], arch=[])],
    [entry([rnode("foo", "1", ver=V["1"])]), entry([rnode("lt", None)]), entry([rnode("lt", "abc")]), entry([rnode("gt", "1*", glob=True, ver=V["1"])]),
     entry([]), entry([rnode("eq", "1.00", ver=V["1.00"])], [rnode("ge", "1.0-r1", ver=V["1.0"], rev="1")])],
    [entry([rnode("ge", "1.2", ver=V["1.2"])], [rnode("ge", "1.2", ver=V["1.2"])]), entry([rnode("rge", "1.0", ver=V["1.0"])], [rnode("rge", "1.0", ver=V["1.0"])])],
]


# directories of several advisories read by one object: the same version named exactly and as a glob, with and without
# slot, as vulnerable and as unaffected range, in either file order
CORPUS_DIRS = [
    [[entry([rnode("eq", "1.2", ver=V["1.2"])])], [entry([rnode("eq", "1.2*", glob=True, ver=V["1.2"])], name="dev-libs/bar")],
     [entry([rnode("eq", "1.2*", glob=True, ver=V["1.2"])])]],
    [[entry([rnode("eq", "1.2*", glob=True, ver=V["1.2"])])], [entry([rnode("eq", "1.2", ver=V["1.2"])])],
     [entry([rnode("lt", "2", ver=V["2"])], [rnode("eq", "1.2", ver=V["1.2"])]), entry([rnode("lt", "2", ver=V["2"])], [rnode("eq", "1.2*", glob=True, ver=V["1.2"])])]],
    [[entry([rnode("eq", "1.0", slot="2", ver=V["1.0"])]), entry([rnode("eq", "1.0", ver=V["1.0"])])],
     [entry([rnode("le", "1.0", ver=V["1.0"])]), entry([rnode("rle", "1.0", ver=V["1.0"])]), entry([rnode("ge", "1.0", ver=V["1.0"])], [rnode("rge", "1.0", ver=V["1.0"])])]],
]


def xml_of(entries, rng, glsa_id="200001-01"):
    def ws(s):
        return rng.choice(["", "", " ", "\n  "]) + s + rng.choice(["", "", " ", "\n"])
    out = ['<?xml version="1.0" encoding="UTF-8"?>\n<glsa id="%s">\n<title>t</title>\n<affected>\n' % glsa_id]
    for e in entries:
        arch = "" if e["arch"] is None else ' arch="%s"' % ws(" ".join(e["arch"]))
        out.append('<package name="%s" auto="yes"%s>\n' % (ws(e["name"]), arch))
        for tag in ("vulnerable", "unaffected"):
            for n in e[tag]:
                slot = ' slot="%s"' % ws(n["slot"]) if n["slot"] or rng.random() < 0.1 else ""
                if n["_xml_text"] is None:
                    out.append('<%s range="%s"%s/>\n' % (tag, ws(n["op"]), slot))
                else:
                    out.append('<%s range="%s"%s>%s</%s>\n' % (tag, ws(n["op"]), slot, ws(n["_xml_text"]), tag))
        out.append("</package>\n")
    out.append("</affected>\n</glsa>\n")
    return "".join(out)


def strip_node(n):
    return {"op": n["op"], "slot": n["slot"], "text": n["text"]}


def run(ctx):
    from pkgcore.ebuild import cpv
    from pkgcore.ebuild.atom import atom
    from pkgcore.pkgsets.glsa import GlsaDirSet
    from pkgcore.test.misc import FakePkg, FakeRepo
    from pkgcore.pkgsets.glsa import find_vulnerable_repo_pkgs

    rng = ctx.rng
    # a case = (advisory files of one directory, each a list of <package> entries; installed packages)
    cases = []
    if ctx.replay_cases:
        cases += [([c["entries"]], c["pkgs"]) for c in ctx.replay_cases if "entries" in c]
        cases += [(c["files"], c["pkgs"]) for c in ctx.replay_cases if "files" in c]
    cases += [([es], CORPUS_PKGS) for es in CORPUS]
    cases += [(fs, CORPUS_PKGS) for fs in CORPUS_DIRS]
    for _ in range(ctx.n(1000, 30000)):
        pool = [gen_pkg(rng) for _ in range(12)]
        cases.append(([[gen_entry(rng, pool) for _ in range(rng.choice([1, 1, 2, 3]))]], pool))
    for _ in range(ctx.n(160, 3000)):
        pool = [gen_pkg(rng) for _ in range(12)]
        cases.append((gen_directory(rng, pool), pool))

    # calibration: the structured version texts against the real VersionedCPV, names against atom()
    seen = set()
    for files, _ in cases:
        for e in (e for f in files for e in f):
            if (e["name"], e["nameOk"]) not in seen:
                seen.add((e["name"], e["nameOk"]))
                try:
                    atom(e["name"])
                    ok = True
                except Exception:
                    ok = False
                if ok != e["nameOk"]:
                    ctx.mismatch({"name": e["name"]}, "name table disagrees with atom()")
                    return
            for n in e["vulnerable"] + e["unaffected"]:
                t = n["_xml_text"]
                if t is None or t in seen:
                    continue
                seen.add(t)
                base = t[:-1] if t.endswith("*") else t
                try:
                    c = cpv.VersionedCPV(f"cat/pkg-{base}")
                    got = {"fullver": c.fullver, "rev": str(c.revision.data) if c.revision is not None else ""}
                except Exception:
                    got = None
                want = n["text"]["parsed"] and {"fullver": n["text"]["parsed"]["fullver"], "rev": n["text"]["parsed"]["rev"]}
                if got != want or (want and render_ver(n["text"]["parsed"]["ver"]) != c.version):
                    ctx.mismatch({"version_text": t}, f"version table disagrees with VersionedCPV: {got} vs {want}")
                    return

    # the model / reference evaluate entry by entry; a directory is the concatenation of its files' entries
    reqs = [{"cmd": "c45.eval", "entries": [{"name": e["name"], "nameOk": e["nameOk"], "arch": e["arch"],
                                             "vulnerable": [strip_node(n) for n in e["vulnerable"]],
                                             "unaffected": [strip_node(n) for n in e["unaffected"]]} for f in files for e in f],
             "pkgs": [{"key": p["key"], "fullver": fullver(p["ver"], p["rev"]), "ver": p["ver"], "rev": p["rev"], "slot": p["slot"],
                       "keywords": p["keywords"]} for p in pkgs]} for files, pkgs in cases]
    replies = ctx.model(reqs)

    scratch = tempfile.mkdtemp(prefix="verif-c45-")
    pkg_cache = {}
    try:
        for idx, ((files, pkgs), rep) in enumerate(zip(cases, replies)):
            pub = {"pkgs": pkgs, "installed": [f"{p['key']}-{fullver(p['ver'], p['rev'])}:{p['slot']} {p['keywords']}" for p in pkgs]}
            if len(files) == 1:
                pub["entries"] = files[0]
            else:
                pub["files"] = files
            if rep == "bad-op":
                ctx.mismatch(pub, "driver rejected the request")
                continue
            real_pkgs = []
            for p in pkgs:
                k = (p["key"], fullver(p["ver"], p["rev"]), p["slot"], tuple(p["keywords"]))
                if k not in pkg_cache:
                    pkg_cache[k] = FakePkg(f"{k[0]}-{k[1]}", slot=k[2], keywords=k[3])
                real_pkgs.append(pkg_cache[k])
            d = os.path.join(scratch, "g%d" % idx)
            os.mkdir(d)
            ids, xmls = [], []
            for fi, entries in enumerate(files):
                gid = "2000%02d-%02d" % (1 + fi % 12, 1 + fi // 12)
                xml = xml_of(entries, rng, gid)
                with open(os.path.join(d, f"glsa-{gid}.xml"), "w") as f:
                    f.write(xml)
                ids.append(gid)
                xmls.append(xml)
            if rng.random() < 0.2:
                with open(os.path.join(d, "timestamp.chk"), "w") as f:
                    f.write("x\n")
            pub["xml"] = xmls[0] if len(xmls) == 1 else xmls
            try:
                # one long-lived object per directory: iterated, iterated again, grouped
                g = GlsaDirSet(d)
                rs = list(g)
                real = [[bool(r.match(p)) for p in real_pkgs] for r in rs]
                rkeys = [r.key for r in rs]
                order = [x[0] for x in g.iter_vulnerabilities()]              # which advisory each restriction came from
                rs2 = list(g)
                real2 = [(r.key, [bool(r.match(p)) for p in real_pkgs]) for r in rs2]
                grouped = {r.key: [bool(r.match(p)) for p in real_pkgs] for r in g.pkg_grouped_iter()}
                # the report itself: find_vulnerable_repo_pkgs on the installed packages, ungrouped and grouped, consumed the way callers do —
                # pair by pair, or all (restriction, matches) pairs collected first and the matches read afterwards (forwards or backwards)
                reports = []
                if idx % 3 == 0 or len(files) > 1:
                    pos = {}
                    for j, p in enumerate(real_pkgs):
                        pos.setdefault(id(p), j)
                    installed_repo = FakeRepo(pkgs=[real_pkgs[j] for j in sorted(pos.values())])      # (a generated package may be listed twice)
                    for grp in (False, True):
                        arch = rng.choice([None, None, "x86", ("amd64", "x86")])
                        how = rng.choice(["pair by pair", "pairs collected first, matches read afterwards", "pairs collected first, matches read last to first"])
                        it = find_vulnerable_repo_pkgs(g, installed_repo, grouped=grp, arch=arch)
                        if how == "pair by pair":
                            pairs = [(r, list(m)) for r, m in it]
                        else:
                            pairs = list(it)
                            if how.endswith("afterwards"):
                                pairs = [(r, list(m)) for r, m in pairs]
                            else:
                                pairs = [(r, list(m)) for r, m in reversed(pairs)][::-1]
                        want_kw = None if arch is None else (arch,) if isinstance(arch, str) else tuple(arch)
                        rep_rows = []
                        for r, m in pairs:
                            raw = [getattr(x, "_raw_pkg", x) for x in m]
                            rep_rows.append((r.key, [bool(r.match(p)) for p in real_pkgs], sorted(pos.get(id(x), -1) for x in raw),
                                             all(want_kw is None or tuple(x.keywords) == want_kw for x in m)))
                        reports.append((grp, arch, how, rep_rows))
            except Exception as e:
                ctx.violation(pub, f"GlsaDirSet raised {type(e).__name__}: {e}")
                continue
            finally:
                shutil.rmtree(d, ignore_errors=True)
            # per advisory file, in file order
            per_entry = []
            for gid, entries in zip(ids, files):
                per_entry += [(gid, e) for e in entries]
            def by_file(kind):
                out = {gid: [] for gid in ids}
                for (gid, e), r in zip(per_entry, rep):
                    if r[kind] is not None:
                        out[gid].append((e["name"], r[kind]))
                return out
            model, spec, loose = by_file("model"), by_file("spec"), by_file("loose")
            nontriv = False
            for (gid, e), r in zip(per_entry, rep):
                ctx.count("entry_" + ("skipped_or_empty" if r["spec"] is None else "evaluated"))
                for n in e["vulnerable"] + e["unaffected"]:
                    ctx.count("op_" + (n["op"] if n["op"] in OPS else "bad"))
                    if n["text"] and n["text"]["glob"]:
                        ctx.count("glob_range")
                    if n["slot"]:
                        ctx.count("slotted_range")
                    if n["text"] is None or n["text"]["parsed"] is None:
                        ctx.count("range_without_valid_version")
                ctx.count("arch_" + ("absent" if e["arch"] is None else "star" if "*" in e["arch"] else "empty" if not e["arch"] else "named"))
                if r["spec"] is not None:
                    mine = [x for x, p in zip(r["spec"], pkgs) if p["key"] == e["name"]]
                    if any(mine) and not all(mine):
                        nontriv = True
            ctx.count("advisory_files_%d" % min(len(files), 6))
            if len(files) > 1:
                # the same version text named exactly and as a glob somewhere in the directory
                texts = [n["_xml_text"] for _, e in per_entry for n in e["vulnerable"] + e["unaffected"] if n["_xml_text"]]
                if any(t.endswith("*") and t[:-1] in texts for t in texts):
                    ctx.count("directory_same_text_exact_and_glob")
                if len(texts) != len(set(texts)):
                    ctx.count("directory_repeated_range_text")
            ctx.case(pub, nontriv, key="".join(xmls) + "|" + "|".join(pub["installed"]))
            if len(order) != len(rs):
                ctx.mismatch(pub, f"iter_vulnerabilities yields {len(order)} restrictions, __iter__ {len(rs)}")
                continue
            got = {gid: [] for gid in ids}
            stray = [o for o in order if o not in got]
            if stray:
                ctx.violation(pub, f"restrictions for advisories {stray} that are not in the directory")
                continue
            for gid, k, v in zip(order, rkeys, real):
                got[gid].append((k, v))
            # the property on the real code: every advisory of the directory, judged on its own
            if got != spec:
                bad = [gid for gid in ids if got[gid] != spec[gid]]
                if got == loose:
                    ctx.count("finding_glob_string_prefix")
                    ctx.violation(pub, "an 'eq …*' range flags a package whose version merely starts with the same characters "
                                       f"(advisories {bad}: real={[got[b] for b in bad]}, component-prefix reference={[spec[b] for b in bad]})",
                                  finding="C45-glob-string-prefix")
                else:
                    ctx.violation(pub, f"advisories {bad}: GlsaDirSet restrictions flag {[got[b] for b in bad]}, the GLSA reference evaluator says "
                                       f"{[spec[b] for b in bad]}" + (" (each advisory judged on its own; the directory holds %d)" % len(ids) if len(ids) > 1 else ""))
            # iterating the same object again gives the same answer
            if real2 != list(zip(rkeys, real)):
                ctx.violation(pub, f"a second iteration of the same GlsaDirSet flags {real2}, the first one {list(zip(rkeys, real))}")
            # model vs code
            if got != model:
                bad = [gid for gid in ids if got[gid] != model[gid]]
                ctx.mismatch(pub, f"advisories {bad}: GlsaDirSet restrictions flag {[got[b] for b in bad]}, the Lean model says {[model[b] for b in bad]}")
            # grouped iteration = any of the individual restrictions of that name
            want_grouped = {}
            for k, v in zip(rkeys, real):
                want_grouped[k] = [a or b for a, b in zip(want_grouped.get(k, [False] * len(v)), v)]
            if grouped != want_grouped:
                ctx.violation(pub, f"pkg_grouped_iter flags {grouped}, the individual restrictions {want_grouped}")
            # find_vulnerable_repo_pkgs: every restriction that flags an installed package is reported with exactly the packages it flags
            uniq = sorted(set(pos.values())) if reports else []
            for grp, arch, how, rep_rows in reports:
                ctx.count("report_" + ("grouped" if grp else "ungrouped") + "_" + how.replace(" ", "_").replace(",", ""))
                if grp:
                    want_rows = [(k, v) for k, v in want_grouped.items()]
                    key_of = lambda rows: sorted((k, v, m) for k, v, m in rows)
                else:
                    want_rows = list(zip(rkeys, real))
                    key_of = lambda rows: list(rows)
                want_rep = key_of([(k, v, [j for j in uniq if v[j]]) for k, v in want_rows if any(v)])
                got_rep = key_of([(k, v, m) for k, v, m, _ in rep_rows])
                if max((len(m) for _, _, m in want_rep), default=0) >= 2 and len(want_rep) >= 2:
                    ctx.count("report_two_advisories_one_with_two_vulnerable_pkgs")
                if got_rep != want_rep:
                    names = [pub["installed"][j] for j in range(len(real_pkgs))]
                    show = lambda rows: [(k, [names[j] for j in m]) for k, _, m in rows]
                    ctx.violation(pub, f"find_vulnerable_repo_pkgs(grouped={grp}, arch={arch!r}; consumed: {how}) reports {show(got_rep)}; the advisory "
                                       f"restrictions flag {show(want_rep)}")
                elif not all(ok for _, _, _, ok in rep_rows):
                    ctx.mismatch(pub, f"find_vulnerable_repo_pkgs(arch={arch!r}) yields packages whose keywords are not {arch!r}")
    finally:
        shutil.rmtree(scratch, ignore_errors=True)


LEVEL_TEXT = ("Kernel-checked Lean 4 theorems about a model of generate_restrict_from_range / generate_intersects_from_pkg_node: for every well-formed "
              "package entry and every package, the restriction built by the code flags the package iff the GLSA reference evaluator does (name, at least "
              "one vulnerable range, no unaffected range, arch; lt/le/eq/ge/gt on the PMS order of C01, r-forms on revisions of the same version, slot "
              "limits every kind of range) — with the glob range as a string prefix (affected_eq_loose_spec), and with the component-prefix reading "
              "under the guard of the open finding (affected_eq_spec_partial, counterexample proved); malformed ranges skip the entry; a directory of "
              "advisories is judged entry by entry, whatever else it holds (directory_eq_loose_spec). The model is tied "
              "to the code by reading generated XML advisories — single files and multi-file directories on one long-lived object — with the real GlsaDirSet.")
LEVEL_NOTE = ("Partial: 'eq 1.2*' is a string prefix in the code (1.2* flags 1.20); the existing test-suite pins that behaviour, so it is an open known "
              "finding, not fixed. Trusted: Lean kernel; XML parsing and version lexing as structured input (calibrated every run); C01 for the order.")
