"""C34 — saved-environment filtering removes exactly the named definitions (filter_env.py); bash is the oracle."""
import io
import json
import os
import re as _re
import shutil
import signal
import subprocess
import tempfile

PID = "C34"
LEAN_MODULES = ["Pkgcore.Props.C34"]
OBLIGATIONS = [
    "Pkgcore.C34.positions_advance",
    "Pkgcore.C34.fuel_suffices",
    "Pkgcore.C34.output_is_window_concat",
    "Pkgcore.C34.filtered_windows_are_statements",
    "Pkgcore.C34.sentinel_never_emitted",
    "Pkgcore.C34.written_bytes_are_encoded_text",
    "Pkgcore.C34.byte_cut_at_char_offsets_counterexample",
    "Pkgcore.C34.no_nul_byte_written",
    "Pkgcore.C34.space_only_ascii",
    "Pkgcore.C34.statements_follow_matchers",
    "Pkgcore.C34.patterns_select_whole_name",
    "Pkgcore.C34.ungrouped_single_token_counterexample",
    "Pkgcore.C34.names_run_is_scanner_run",
    "Pkgcore.C34.statements_selected_by_name",
    "Pkgcore.C34.plain_names_selected_exactly",
    "Pkgcore.C34.space_tables_ascii",
]
TRUSTED = [
    "Python's re on the pattern subset in use (literal characters, \\c, ., */+/? on one character, ^, $, |, (?:…), (?!…)): the model "
    "carries its own parser and backtracking matcher for that subset; every run compares the pattern text of the real "
    "build_regex_string with the model's and real .match() with the model's matcher on every name of every case",
    "the specification's reading of a token text (Spec.readToken: split at unescaped |, then elements) is not proved inverse to "
    "renderSimple; it is exercised on every token list of every run (and cross-checked against plain membership for plain names)",
    "str.isspace / str.isalnum are tables generated from CPython on every run",
    "bash (the installed 5.2) is the oracle for 'defines the same values and function bodies': the dump is produced by bash itself "
    "(${v@A}, ${v@Q}, printf %q, declare -p, declare -f) and both the unfiltered and the filtered text are sourced in a clean bash",
    "main_run's observer callbacks (global_envvar_callback, func_callback) are not modelled: every input is filtered twice, bare (the "
    "daemon's filter-env request passes no callbacks; this output is the one judged by bash and compared with the model) and with both "
    "callbacks registered (source of the 'statements seen' comparison); any difference between the two outputs is reported",
    "Lean's String.utf8EncodeChar is Python's str.encode('utf-8') on text without surrogates: the bytes the real code writes are "
    "compared with the model's (one encoded window after the other) on every case",
]
ASSUMPTIONS = [
    "the buffer handed to run() ends with the NUL sentinel main_run appends and contains no other NUL (bash cannot store one)",
    "fuel: the model's walkers carry a fuel argument; fuel_suffices proves it never runs out (the real code is still run under a "
    "watchdog so that a non-terminating scan would be reported as a violation)",
]
RULE = ("environment dumps written by bash itself: 1-8 variables with random values (quotes, blanks, newlines, braces, $, backticks, "
        "backslashes, #, ;, control characters; 30 % of the dumps rich in multi-byte text: 2/3/4-byte sequences, combining marks, printable non-ASCII "
        "spaces U+00A0/U+2003/U+3000 that bash writes raw and does not split words at, invisible format characters, names and localized messages) each dumped in a random quoting style (${v@A}, name=${v@Q}, printf %q, "
        "declare -p, indexed arrays) and 0-5 functions whose bodies are random compositions of ~45 construct atoms (quoted braces, "
        "parameter expansions, here-documents incl. <<-, <<'' and quoted words, case arms, comments, arithmetic, subshells, command "
        "substitution, multi-line single/double-quoted text with lines that are exactly } or { (awk/sed programs), nested functions, [[ =~ ]], process substitution, non-ASCII messages / comments / case patterns / here-document text / function names) inside if/for/while/case/brace-group wrappers, printed by "
        "declare -f, plus generated here-documents (<<, <<-, quoted and unquoted words, text lines that end in / contain / start with "
        "the delimiter word — also indented or followed by ; } ) —, unbalanced quotes, braces and parentheses in the text, trailing commands, inside $( )); the names are "
        "drawn from pools in which names share prefixes, suffixes and infixes (CFLAGS / CFLAGS_amd64 / XCFLAGS, T / TT, pkg_setup / "
        "pkg_setup_hook); black/white-lists of 0-5 tokens (plain names as the callers pass them, prefix.*, .*suffix, optional and "
        "wildcard characters, empty tokens, tokens that are alternations a|b — also as the only token) over dumped and not-dumped related names in random order; a selection stream (name lists "
        "x token lists on one-line definitions with ASCII and multi-byte values, bounded-exhaustive over a small universe) and a mutated stream (single edits of a "
        "dump) for robustness; outputs are compared as bytes (valid UTF-8, no NUL, pieces of the encoded dump in order, equal to the model's bytes); "
        "where model and implementation disagree without a property failure on that input the property is evaluated with bash on nearby inputs (the same dump "
        "under no / reversed / inverted / single-definition token lists; for a raw text: bash's own dump of what the text defines), failing dumps are shrunk; "
        "non-trivial = the dump has at least two definitions and at least one is selected for removal and at least one is kept")
LEVEL_TEXT = ("Kernel-checked Lean 4 theorems about a function-by-function port of the scanner (fuel-indexed mutual recursion): every walker "
              "only moves forward and the scan terminates (the fuel never runs out); the output is the concatenation of disjoint, ordered windows of the input that never contain the appended "
              "NUL; the dropped text is exactly the union of the statements (function definitions / assignments) whose name was selected — "
              "nothing outside a filtered statement is dropped and nothing is added; the bytes written are the UTF-8 encoding of exactly that text (cuts are "
              "made in the text, never inside a character's byte sequence) and contain no NUL; only ASCII whitespace separates words; the pattern text build_regex_string builds from the "
              "token lists selects a name iff some token matches the whole name (whitelist: iff none does), so with plain names exactly "
              "the named definitions are selected whatever prefixes/suffixes they share with other names. The port is tied to the code by running real "
              "filter_env.main_run and the model on dumps produced by bash; the property itself is evaluated with bash as oracle "
              "(declare -p / declare -f after sourcing the filtered text).")
LEVEL_NOTE = ("Partial by construction: that the scanner's statement boundaries coincide with bash's for every function body is not a theorem "
              "(the scanner is a heuristic); it is checked against bash on the sampled dumps. Open findings: a ${…} expansion containing a "
              "quoted closing brace ends at that brace; groups/subshells with stray closers; two here-documents on one line.")

FINDING = "C34-quoted-brace-in-expansion"
FINDING_GROUP = "C34-closer-inside-group"
FINDING_TWO_HEREDOCS = "C34-two-heredocs-one-line"


def gen_tables(repo):
    def ranges(pred):
        out = []
        start = None
        for i in range(0x110000):
            ok = False if 0xD800 <= i <= 0xDFFF else pred(chr(i))
            if ok and start is None:
                start = i
            if not ok and start is not None:
                out.append((start, i - 1))
                start = None
        if start is not None:
            out.append((start, 0x10FFFF))
        return out

    def fmt(rs):
        lines = []
        cur = "  "
        for a, b in rs:
            item = f"({a}, {b}), "
            if len(cur) + len(item) > 110:
                lines.append(cur.rstrip())
                cur = "  "
            cur += item
        lines.append(cur.rstrip().rstrip(","))
        return "\n".join(lines)
    import importlib
    import sys
    src = os.path.join(repo, "src")
    if src not in sys.path:
        sys.path.insert(0, src)
    fe = importlib.import_module("pkgcore.ebuild.filter_env")
    # the scanner's own whitespace predicate (module attribute since the fix that made it ASCII-only; str.isspace before)
    isspace = getattr(fe, "isspace", str.isspace)
    text = ("-- GENERATED from pkgcore.ebuild.filter_env.isspace and CPython's str.isalnum by harness/props/c34.py (gen_tables); do not edit\n"
            "namespace Pkgcore.Generated.C34\n"
            f"def spaceRanges : List (Nat × Nat) := [\n{fmt(ranges(isspace))}]\n"
            f"def alnumRanges : List (Nat × Nat) := [\n{fmt(ranges(str.isalnum))}]\n"
            "end Pkgcore.Generated.C34\n")
    return {"Pkgcore/Generated/C34Tables.lean": text}


# ---------------------------------------------------------------- generators

VALUE_ATOMS = ["a", "foo", " ", "  ", "\t", "\n", "'", '"', "}", "{", "$", "$x", "${y}", "$(z)", "`", "\\", "\\\\", "#", ";", "&", "|", "(", ")",
               "<", ">", "<<EOF", "=", "*", "?", "[", "]", "~", "!", "é", "ß→", "\x01", "\x7f", "\x1b[0m", "-", "--opt=1", "/usr/bin", "a b", "x'y\"z",
               "}\n{", "$'", "\\'", "\r", "\x0b", "\u00a0", "%s", "function", "f() {"]

# multi-byte text (2, 3 and 4 byte sequences, combining marks, printable non-ASCII spaces that bash writes raw and does not split
# words at, invisible format characters): a saved environment carries descriptions, maintainer names and localized messages
UNI_VALUE_ATOMS = ["ü", "größer", "→", "„x“", "日本語", "😀", "e\u0301", "\u00a0", "\u3000", "\u2003", "a\u00a0b", "x\u3000}", "\u2028", "\u0085", "\u200b",
                   "\ufeff", "\u202e", "José Ñandú <j@example.org>", "naïve café — tools", "ä'ö\"ü", "é\n→", "\u00a0#", "ß;", "Ω=1", "é é"]

BODY_ATOMS = {
    "simple": "echo hi",
    "assign": "local x=1 y='a b'; z=\"$x\"",
    "quotes": "echo '}' \"}\" \\}",
    "quotes2": "echo '{' \"{\" \\{ 'it'\\''s'",
    "comment": "echo a # }\n    echo b",
    "comment2": "# just { a comment '\n    :",
    "heredoc": "cat <<EOF\n}\n$x `y`\nEOF",
    "heredoc_q": "cat <<'EOF'\n} $x `\n{\nEOF",
    "heredoc_dq": "cat <<\"E O F\"\n}\nE O F",
    "heredoc_dash": "cat <<-EOF\n\t}\n\tEOF",
    "heredoc_empty": "cat <<''\n}\n\n    :",
    "heredoc_pipe": "cat <<EOF | tr a b\n}\nEOF",
    "heredoc_two": "cat <<A <<B\n1\nA\n}\nB",
    "here_string": "cat <<< '}'",
    "case_brace": "case $1 in a) echo ;; b}) : ;; esac",
    "case_paren": "case $1 in a) echo x;; (b) : ;; *) echo '}' ;; esac",
    "case_multi": "case \"$1\" in\n  a|b) : ;;\n  \\}) : ;;\nesac",
    "arith": "(( x = 1 << 2 )); echo $(( 1 << 3 ))",
    "arith2": "x=$(( y > 1 ? 2 : 3 )); let 'z=1<<2'",
    "arith_for": "for ((i=0; i<3; i++)); do echo $i; done",
    "subshell": "( cd /; echo } )",
    "cmdsub": "x=$(echo '}'); y=`echo \\}`",
    "cmdsub_nested": "x=$(echo $(echo \"$(echo })\"))",
    "cmdsub_case": "x=$(case a in a) echo 1;; esac)",
    "nested_fn": "g() { echo }; }; g",
    "brace_group": "{ echo a; echo b; }",
    "pe_default": "echo ${x:-}} ${#y} ${z%%\\}*}",
    "pe_ops": "echo ${x#*/} ${x%%.*} ${x/a/b} ${x^^} ${!x} ${x:1:2} ${#x[@]}",
    "pe_nested": "echo ${x:-${y:-z}}",
    "dollar_quote": "x=$'}\\'{'; echo $x",
    "array": "a=(1 '}' 3); echo ${a[@]} ${a[1]}",
    "assoc": "declare -A m=([k]='}' [j]=2); echo ${m[k]}",
    "regex": "[[ $x =~ ^a{2}b\\}$ ]]",
    "cond": "[[ -n $x && ( $y == '}' || $z != *\\} ) ]]",
    "semicolon_brace": "echo a;}\n{ echo b",
    "hash_in_word": "echo a#} b${#x} $# c#",
    "dq_dollar": 'echo "a $(echo ")") b" "}"',
    "dq_escapes": 'echo "\\" } \\$x \\` \\\\"',
    "bq": 'echo `echo "}"`',
    "func_kw": "function h { echo }; }",
    "select": "select x in a b; do echo }; done",
    "procsub": "while read l; do echo \"$l}\"; done < <(echo })",
    "lone_brace_word": "echo }",
    "pe_pattern": "echo ${x//\\{/\\}}",
    "redirs": "echo a >&2 2>/dev/null <&- >|f &>g",
    "pipeline": "a | b |& c && d || ! e",
    "coproc": "time -p ls; [ -e f ]",
    "special": "echo $$ $! $? $- $0 $* $@ $_",
    "dollar_misc": "echo $ $\"x\" a$ $;",
    "backslash_nl": "echo a \\\n    b",
    "glob": "echo *.{a,b} [a-z]* ~/x ?x",
    "unicode": "echo 'é }' ß",
    "unicode_msg": 'einfo "Bitte laden Sie die Datei „${A}“ händisch herunter — danke"',
    "unicode_comment": "echo a # größer } →\n    echo b",
    "unicode_heredoc": "cat <<EOF\nSchöne Grüße }\n→ $x 日本語\nEOF",
    "unicode_case": "case $1 in ä|ö) echo ü;; é}) : ;; esac",
    "unicode_nbsp_word": "echo a\u00a0b x\u3000y \u00a0}",
    "unicode_nbsp_hash": "echo a\u00a0#b \"}\" 😀",
    "unicode_assign": "local msg='größer' x=ä\u00a0ö; echo \"${msg} }\"",
    "unicode_dollar": "echo $xé ${x}→ $'\\u00e9}' \"$(echo „})\"",
    "unicode_pe": "echo ${x:-ä} ${x/é/→} ${x#„} ${#x}",
    "unicode_array": "a=(ä '}→' \u3000); echo ${a[@]}",
    # multi-line quoted text that bash prints verbatim (no indentation): lines that are exactly `}` / `{` / `name () `
    "sq_multiline_awk": "awk '\nBEGIN { n = 0 }\n/x/ {\n  n++\n}\nEND {\n  print n\n}\n' \"$1\"",
    "dq_multiline_brace": "echo \"usage:\n}\n{\n$x\"",
    "sq_multiline_brace": "x='\n}\n'; echo \"it's done\"",
    "sq_multiline_func": "sed -e '\n}\nf () \n{ \n' f; y=\"\n}\"",
    "eval": "eval 'f() { :; }'",
    "trap": "trap 'echo }' EXIT",
}
# atoms in the class of the open finding: a `${…}` with a quoted closing brace
FINDING_ATOMS = {
    "qbrace_pe": "x=${y/'}'/z}; echo $x",
    "dq_brace_pe": 'x=${y/"}"/z}; echo $x',
    "qbrace_default": "echo ${x:-'}'}",
    "qbrace_nested": "echo ${x:-${y:-'}'}}",
}
WRAPPERS = [
    "%s",
    "if true; then\n%s\nfi",
    "for i in 1 2; do\n%s\ndone",
    "while false; do\n%s\ndone",
    "{\n%s\n}",
    "(\n%s\n)",
    "case $1 in\nx)\n%s\n;;\nesac",
    "if [[ -n $1 ]]; then :; else\n%s\nfi",
]
WRAPPER_WEIGHTS = [1, 1, 2, 2, 3, 3, 6, 6, 7, 7, 4, 5]
NOWRAP = {"semicolon_brace"}
NAMES = ["A", "B", "FOO", "foo_bar", "_x", "PATH2", "x1", "CFLAGS", "LDFLAGS", "E_DEPEND", "T", "D", "PV", "var_with_long_name", "a", "Z9",
         "USE_x", "SANDBOX_ON", "PORTAGE_TMP"]
FNAMES = ["f", "g2", "src_compile", "pkg_setup", "_helper", "econf2", "die2", "f-dash", "a.b", "x:y", "foo", "FOO", "src_test", "emake", "größe", "f_ü"]
# names bash (or the probe script) treats specially: never generated
RESERVED = {"_", "IFS", "PATH", "HOME", "PWD", "OLDPWD", "UID", "EUID", "PPID", "GROUPS", "RANDOM", "SECONDS", "LINENO", "FUNCNAME", "DIRSTACK",
            "HISTCMD", "SHLVL", "OPTIND", "OPTARG", "OPTERR", "REPLY", "HOSTNAME", "HOSTTYPE", "OSTYPE", "MACHTYPE", "SHELL", "SHELLOPTS", "BASHOPTS",
            "PS1", "PS2", "PS4", "TERM", "LANG", "LC_ALL", "COLUMNS", "LINES", "PIPESTATUS", "EPOCHSECONDS", "EPOCHREALTIME", "SRANDOM", "COMP_WORDBREAKS",
            "if", "then", "else", "elif", "fi", "case", "esac", "for", "select", "while", "until", "do", "done", "in", "function", "time", "coproc",
            "echo", "declare", "source", "printf", "test", "cd", "eval", "set", "unset", "local", "exit", "return", "read", "true", "false", "let",
            "typeset", "export", "readonly", "exec", "trap", "shift", "wait", "kill", "type", "hash", "alias", "command", "builtin", "enable", "cat"}
_VAR_OK = _re.compile(r"^[A-Za-z_][A-Za-z0-9_]*$")
_FUNC_OK = _re.compile(r"^[A-Za-z_][A-Za-z0-9_.:-]*$")


def related_names(rng, n, isfunc):
    """names sharing a prefix, suffix or infix with n"""
    forms = [n + "_amd64", n + "2", "X" + n, "my_" + n, n + n, n[:-1], n[1:], "x" + n + "y", n + "_hook", n + "_", "_" + n, n[: max(1, len(n) // 2)],
             n[len(n) // 2:], n + "x", n.swapcase()]
    ok = _FUNC_OK if isfunc else _VAR_OK
    out = [f for f in forms if f and f != n and ok.match(f) and f not in RESERVED and not f.startswith("BASH")]
    rng.shuffle(out)
    return out


def gen_names(rng, count, isfunc):
    """(dumped names, candidate names for the patterns: the dumped ones and related names that are not dumped)"""
    bases = rng.sample(FNAMES if isfunc else NAMES, min(count, rng.choice([1, 2, 2, 3, 4])) if count else 0)
    pool = []
    for b in bases:
        pool.append(b)
        if rng.random() < 0.7:
            pool += related_names(rng, b, isfunc)[:rng.choice([1, 1, 2, 3])]
    pool = list(dict.fromkeys(pool))
    extra = [n for n in (FNAMES if isfunc else NAMES) if n not in pool]
    rng.shuffle(extra)
    while len(pool) < count:
        pool.append(extra.pop())
    rng.shuffle(pool)
    names = pool[:count]
    cands = list(pool)
    for b in names[:3]:
        cands += related_names(rng, b, isfunc)[:2]
    return names, list(dict.fromkeys(cands))


def esc_token(n):
    # what __escape_regex_array of ebuild-env-utils.bash does
    return n.replace("+", "\\+").replace(".", "\\.").replace("*", "\\*")


def gen_tokens(rng, cands):
    """a token list as the callers pass it: plain (escaped) names and simple patterns, in random order"""
    if not cands or rng.random() < 0.2:
        return []
    k = rng.choice([1, 1, 2, 2, 2, 3, 3, 4, 5])
    toks = []
    for _ in range(k):
        n = rng.choice(cands)
        r = rng.random()
        if r < 0.6:
            t = esc_token(n)
        elif r < 0.7:
            t = esc_token(n[:rng.randint(1, len(n))]) + ".*"
        elif r < 0.78:
            t = ".*" + esc_token(n[-rng.randint(1, len(n)):])
        elif r < 0.83:
            t = esc_token(n) + ".+"
        elif r < 0.88:
            t = esc_token(n) + "?"
        elif r < 0.93:
            i = rng.randrange(len(n))
            t = esc_token(n[:i]) + "." + esc_token(n[i + 1:])
        elif r < 0.97:
            i = rng.randrange(len(n))
            t = ".*" + esc_token(n[i:i + rng.randint(1, 3)]) + ".*"
        else:
            t = n     # not escaped (a . stays a wildcard)
        toks.append(t)
    if rng.random() < 0.12:
        toks.insert(rng.randrange(len(toks) + 1), "nomatch_x")
    if rng.random() < 0.08:
        toks.insert(rng.randrange(len(toks) + 1), "")
    if len(toks) >= 3 and rng.random() < 0.08:
        toks = ["|".join(toks[:2])] + toks[2:]          # a token that is itself an alternation (grouped: exact)
    elif len(toks) == 2 and "" not in toks and rng.random() < 0.25:
        toks = ["|".join(toks)]                         # a single token with a top-level | (was not grouped before the fix)
    return toks


# ---- here-documents
HD_WORDS = ["EOF", "END", "E_O_F", "X1", "EOT"]
HD_QWORDS = HD_WORDS + ["E O F", "a-b", "$X"]
HD_PLAIN = ["Schöne Grüße }", "→ %s 日本語", "%s\u00a0", "\u00a0%s", "plain text", "", "}", "{", "    indented }", "$x `y` $(z) ${w}", "%s x", "x%s", "%sx", '"%s"', "'%s'", "<<%s", "cat <<%s",
            "#%s", "text %s ", "%s%s", "%s.", "; %s", "echo } )", "a=1", "f() {", "esac", "done", ";;", "#"]
HD_EOL = ["text %s", "text\t%s", "finish it with %s", "}\t%s", "' %s"]
HD_UNBAL = ["Don't do that", 'say "hi', "`", "$(", "${", "(", ")", "'", "\\", "it's $(", "\"'", "<<"]
# text lines the scanner took for the terminator although bash does not (fixed)
HD_LOOKALIKE = [" %s", "\t%s", "%s;", "%s}", "%s)", "  %s", "%s; x", "%s} y", "%s)z", " \t%s;"]
HD_CMDS = ["cat", "cat > f", "tr a b", "while read l; do :; done", "read -r a b"]
HD_RESTS = ["", "", "", " | tr a b", " && echo '}'", "; echo hi", " > /dev/null", " || die \"x}\"", " 2>&1 | { cat; }"]


def gen_heredoc(rng):
    keys = ["hd"]
    dash = rng.random() < 0.3
    quoted = rng.random() < 0.3
    word = rng.choice(HD_QWORDS if quoted else HD_WORDS)
    if dash:
        keys.append("hd_dash")
    if quoted:
        keys.append("hd_quoted")
    lines = []
    for _ in range(rng.choice([0, 1, 2, 3, 3, 4, 5, 6])):
        k = rng.random()
        if k < 0.35:
            ln, kk = rng.choice(HD_PLAIN), None
        elif k < 0.6:
            ln, kk = rng.choice(HD_EOL), "hd_eolword"
        elif k < 0.93:
            ln, kk = rng.choice(HD_UNBAL), "hd_unbalanced"
        else:
            ln, kk = rng.choice(HD_LOOKALIKE), "hd_lookalike"
            if dash and ln.startswith("\t"):    # that would be the terminator of a <<- document
                ln = " " + ln
        ln = ln % ((word,) * ln.count("%s"))
        if kk and kk not in keys:
            keys.append(kk)
        lines.append(ln)
    qw = word
    if quoted:
        qw = rng.choice(["'%s'", '"%s"']) % word if (" " in word or "$" in word or rng.random() < 0.7) else "\\" + word
    op = "<<-" if dash else "<<"
    if rng.random() < 0.15:
        op += " "
    tab = "\t" if dash and rng.random() < 0.7 else ""
    body = "".join((tab if dash and rng.random() < 0.7 else "") + ln + "\n" for ln in lines)
    if rng.random() < 0.12:
        keys.append("hd_cmdsub")
        return "x=$(cat %s%s\n%s%s%s\n)" % (op, qw, body, tab, word), keys
    rest = rng.choice(HD_RESTS)
    if rest:
        keys.append("hd_rest")
    return "%s %s%s%s\n%s%s%s" % (rng.choice(HD_CMDS), op, qw, rest, body, tab, word), keys


def gen_value(rng, uni=False):
    k = rng.random()
    if k < 0.08:
        return ""
    n = rng.choice([1, 1, 2, 3, 4, 6])
    return "".join(rng.choice(UNI_VALUE_ATOMS if (rng.random() < (0.5 if uni else 0.06)) else VALUE_ATOMS) for _ in range(n))


_UNI_BODY = sorted(k for k in BODY_ATOMS if k.startswith("unicode"))


def gen_body(rng, allow_finding, uni=False):
    parts = []
    keys = []
    for _ in range(rng.choice([1, 1, 2, 2, 3, 4])):
        r = rng.random()
        if uni and r > 0.6:
            k = rng.choice(_UNI_BODY)
            atom, akeys = BODY_ATOMS[k], [k]
        elif allow_finding and r < 0.04:
            k = rng.choice(sorted(FINDING_ATOMS))
            atom, akeys = FINDING_ATOMS[k], [k]
        elif r < 0.3:
            atom, akeys = gen_heredoc(rng)
            k = "hd"
        else:
            k = rng.choice(sorted(BODY_ATOMS))
            atom, akeys = BODY_ATOMS[k], [k]
        wi = rng.choice(WRAPPER_WEIGHTS) if (rng.random() < 0.4 and k not in NOWRAP) else 0
        parts.append(WRAPPERS[wi] % atom)
        keys += akeys
        if wi in (4, 5):
            keys.append("wrap_group" if wi == 4 else "wrap_subshell")
    # `semicolon_brace` ends the function early: what follows it is a top-level group that RUNS when the text is sourced.  An array atom
    # there would assign the pool variable `a` at source time (no statement filter_env could or should remove): give it a private name
    sb = next((i for i, part in enumerate(parts) if part == BODY_ATOMS["semicolon_brace"]), None)
    if sb is not None:
        parts = parts[: sb + 1] + [part.replace("a=(", "arr9_=(").replace("${a[", "${arr9_[") for part in parts[sb + 1:]]
    return "\n".join(parts), keys


def gen_case(rng, allow_finding=True):
    nv = rng.choice([0, 1, 2, 3, 4, 6, 8])
    nf = rng.choice([0, 1, 1, 2, 3, 5])
    if nv + nf == 0:
        nv = 2
    vnames, vcands = gen_names(rng, nv, False)
    fnames, fcands = gen_names(rng, nf, True)
    uni = rng.random() < 0.3      # a dump rich in multi-byte text (values and function bodies)
    vars_ = []
    for n in vnames:
        style = rng.choice(["A", "Q", "q", "p", "A", "Q", "arr"])
        if style == "arr":
            val = [gen_value(rng, uni) for _ in range(rng.randint(0, 3))]
        else:
            val = gen_value(rng, uni)
        vars_.append({"name": n, "style": style, "value": val})
    funcs = []
    atoms = ["uni_rich"] if uni else []
    for n in fnames:
        body, keys = gen_body(rng, allow_finding, uni)
        funcs.append({"name": n, "body": body, "atoms": keys})
        atoms += keys
    return {"vars": vars_, "funcs": funcs, "vpat": gen_tokens(rng, vcands), "fpat": gen_tokens(rng, fcands),
            "vwl": rng.random() < 0.3, "fwl": rng.random() < 0.3, "interleave": rng.random() < 0.2, "atoms": atoms}


def hexlit(s):
    return "$'" + "".join("\\x%02x" % b for b in s.encode("utf-8")) + "'"


def setup_script(case):
    lines = []
    for v in case["vars"]:
        if v["style"] == "arr":
            lines.append("%s=(%s)" % (v["name"], " ".join(hexlit(x) for x in v["value"])))
        else:
            lines.append("%s=%s" % (v["name"], hexlit(v["value"])))
    for f in case["funcs"]:
        lines.append("%s() {\n%s\n}" % (f["name"], f["body"]))
    return "\n".join(lines) + "\n"


def dump_script(case):
    """bash code that prints the dump of the case's definitions the way bash writes them"""
    out = []
    items = []
    for v in case["vars"]:
        n, st = v["name"], v["style"]
        if st == "A":
            items.append('printf "%%s\\n" "${%s@A}"' % n)
        elif st == "Q":
            items.append('printf "%%s=%%s\\n" %s "${%s@Q}"' % (n, n))
        elif st == "q":
            items.append('printf "%%s=%%q\\n" %s "${%s}"' % (n, n))
        elif st == "p":
            items.append('declare -p %s > "$__c34tmp"; IFS= read -r -d "" __x < "$__c34tmp"; __x=${__x%%$\'\\n\'}; printf "%%s\\n" "${__x#declare -- }"' % n)
        elif st == "arr":
            items.append('declare -p %s > "$__c34tmp"; IFS= read -r -d "" __x < "$__c34tmp"; __x=${__x%%$\'\\n\'}; printf "%%s\\n" "${__x#declare -a }"' % n)
    fitems = ["declare -f %s" % f["name"] for f in case["funcs"]]
    if case["interleave"]:
        merged = []
        a, b = list(items), list(fitems)
        while a or b:
            if a:
                merged.append(a.pop(0))
            if b:
                merged.append(b.pop(0))
        out = merged
    else:
        out = items + fitems
    return "\n".join(out) + "\n"


def probe_script(case):
    lines = []
    for v in case["vars"]:
        lines.append('echo "@@C34@@ V %s"; declare -p %s 2>/dev/null || echo "@@UNSET@@"' % (v["name"], v["name"]))
    for f in case["funcs"]:
        lines.append('echo "@@C34@@ F %s"; declare -f %s 2>/dev/null || echo "@@UNSET@@"' % (f["name"], f["name"]))
    return "\n".join(lines) + "\n"


BASH = ["bash", "--norc", "--noprofile"]
ENV = {"PATH": "/usr/bin:/bin", "LC_ALL": "C.UTF-8", "HOME": "/nonexistent"}


RUN_DIR = None   # scratch directory the bash helpers run in (half-parsed bodies may create files)


def run_bash(script, timeout=300):
    p = subprocess.run(BASH + ["-c", script], stdin=subprocess.DEVNULL, stdout=subprocess.PIPE, stderr=subprocess.PIPE, env=ENV,
                       timeout=timeout, cwd=RUN_DIR or tempfile.gettempdir())
    return p.returncode, p.stdout, p.stderr


def parse_probe(text):
    out = {}
    cur = None
    for line in text.split("\n"):
        if line.startswith("@@C34@@ "):
            cur = line[8:]
            out[cur] = []
        elif cur is not None:
            out[cur].append(line)
    return {k: "\n".join(v).rstrip("\n") for k, v in out.items()}


class Hang(Exception):
    pass


def _alarm(*a):
    raise Hang()


OBSERVER_DIFFS = []     # inputs on which main_run's output depends on whether observer callbacks are registered


def _main_run(text, vpat, fpat, vwl, fwl, **callbacks):
    from pkgcore.ebuild import filter_env
    out = io.BytesIO()
    old = signal.signal(signal.SIGALRM, _alarm)
    signal.alarm(10)
    try:
        filter_env.main_run(out, text, vpat, fpat, vwl, fwl, **callbacks)
        status = "ok"
    except Hang:
        status = "hang"
    except IndexError:
        status = "err:index"
    except Exception as e:  # noqa: BLE001
        status = "exc:" + type(e).__name__
    finally:
        signal.alarm(0)
        signal.signal(signal.SIGALRM, old)
    return status, out.getvalue()


def real_filter(text, vpat, fpat, vwl, fwl):
    """(status, written bytes, var names seen, func names seen).

    main_run is called both ways it is called for real: bare, as the daemon's filter-env request does (ebd_ipc.FilterEnv passes no
    callbacks) — that output is the object under test —, and with the two observer callbacks registered (how the statements seen are
    obtained).  Callbacks only observe: a different status or output between the two calls is recorded in OBSERVER_DIFFS."""
    vseen, fseen = [], []
    status, out_b = _main_run(text, vpat, fpat, vwl, fwl)
    ostatus, oout = _main_run(text, vpat, fpat, vwl, fwl, global_envvar_callback=vseen.append,
                              func_callback=lambda lvl, name, body: fseen.append((lvl, name)))
    if (ostatus, oout) != (status, out_b) and len(OBSERVER_DIFFS) < 50:
        OBSERVER_DIFFS.append({"text": text, "vpat": vpat, "fpat": fpat, "vwl": vwl, "fwl": fwl,
                               "bare": [status, out_b.decode("utf-8", "replace")], "observed": [ostatus, oout.decode("utf-8", "replace")]})
    return status, out_b, vseen, fseen


def as_text(out_b):
    """the written bytes as text for the text-level comparisons (a torn sequence shows as U+FFFD; reported separately by check_bytes)"""
    return out_b.decode("utf-8", "replace")


def is_subsequence(small, big):
    it = iter(big)
    return all(c in it for c in small)


def check_bytes(ctx, case, text, out_b, m, finding=None):
    """'the output contains no stray bytes', at the byte level: what was written must be valid UTF-8 (the dump is), contain no NUL, be made
    of bytes of the encoded dump in order, and equal the model's bytes (one encoded window after the other).  True when a violation was reported."""
    bad = False
    raw = text.encode("utf-8")
    try:
        out_b.decode("utf-8")
    except UnicodeDecodeError as e:
        lo = max(0, e.start - 12)
        ctx.violation(case, f"the filtered output is not valid UTF-8 although the dump is (a multi-byte character was cut in two): byte offset {e.start}, "
                            f"…{out_b[lo:e.start + 8]!r}; output {len(out_b)} bytes for a dump of {len(raw)} bytes / {len(text)} characters", finding=finding)
        bad = True
    if b"\0" in out_b:
        ctx.violation(case, "the filtered output contains a NUL byte (the sentinel)", finding=finding)
        bad = True
    if not is_subsequence(out_b, raw):
        ctx.violation(case, "the filtered output is not made of pieces of the (encoded) input in order", finding=finding)
        bad = True
    if isinstance(m, dict) and m.get("bytes") != out_b.hex():
        mb = bytes.fromhex(m.get("bytes") or "")
        i = 0
        while i < min(len(mb), len(out_b)) and mb[i] == out_b[i]:
            i += 1
        ctx.mismatch(case, f"bytes written differ from the Lean model's at byte {i}: real …{out_b[max(0, i - 12):i + 16]!r} model …{mb[max(0, i - 12):i + 16]!r} "
                           f"(lengths {len(out_b)}/{len(mb)})")
    return bad


_PLAIN = _re.compile(r"^[A-Za-z0-9_:-]+$")


def real_select(names, toks, whitelist):
    """(pattern text, [selected? per name]) from the real build_regex_string; no matcher (`if tokens:` false): nothing selected"""
    from pkgcore.ebuild import filter_env
    if not toks:
        return None, [False] * len(names)
    rx = filter_env.build_regex_string(toks, invert=whitelist)
    if rx is None:
        return None, None
    return rx.pattern, [rx.match(n) is not None for n in names]


def select_req(toks, wl, names):
    return {"cmd": "c34.select", "toks": list(toks), "wl": bool(wl), "names": list(names)}


def run_req(text, vpat, fpat, vwl, fwl):
    return {"cmd": "c34.run", "data": text, "vtoks": list(vpat), "ftoks": list(fpat), "vwl": bool(vwl), "fwl": bool(fwl)}


def check_selection(ctx, case, kind, names, toks, wl, rep):
    """edge A for the name selection (real build_regex_string/.match vs model) and the specification's verdict.
    Returns the set of names the specification selects for removal (None: no verdict)."""
    pat, real = real_select(names, toks, wl)
    if isinstance(rep, str):
        ctx.mismatch(case, f"{kind} tokens {toks!r}: Lean model answered {rep}; real pattern {pat!r}")
        return None
    if toks and rep["re"] != pat:
        ctx.mismatch(case, f"{kind} tokens {toks!r} whitelist={wl}: build_regex_string built {pat!r}, the model {rep['re']!r}")
    if real is not None and rep["model"] != real:
        d = [(n, r, m) for n, r, m in zip(names, real, rep["model"]) if r != m]
        ctx.mismatch(case, f"{kind} tokens {toks!r} whitelist={wl}: real pattern {pat!r} and model matcher disagree on (name, real, model) {d[:4]}")
    spec = rep["spec"]
    if any(x is None for x in spec):
        ctx.mismatch(case, f"{kind} tokens {toks!r}: outside the specification's pattern language (harness generated them)")
        return None
    live = [t for t in toks if t]
    if live and all(_PLAIN.match(t) for t in live):
        want = [wl != (n in live) for n in names]
        if want != spec:
            ctx.mismatch(case, f"{kind} plain tokens {toks!r} whitelist={wl}: specification {spec} is not plain membership {want}")
    if toks:
        ctx.count("tokens_%s" % (len(live) if len(live) < 4 else "4+"))
        if any(s != (wl != any(n == t for t in live)) for n, s in zip(names, spec)):
            ctx.count("selection_differs_from_equality")      # wildcards at work
        if any(s == wl and any(t != n and _PLAIN.match(t) and (t in n) for t in live) for n, s in zip(names, spec)):
            ctx.count("kept_name_contains_a_token")           # prefix/suffix/infix sharing exercised
    return {n for n, sel in zip(names, spec) if sel}


# ---------------------------------------------------------------- corpus

def _c(vars_=(), funcs=(), vpat=(), fpat=(), vwl=False, fwl=False, atoms=("corpus",)):
    return {"vars": [{"name": n, "style": s, "value": v} for n, s, v in vars_], "funcs": [{"name": n, "body": b} for n, b in funcs],
            "vpat": list(vpat), "fpat": list(fpat), "vwl": vwl, "fwl": fwl, "interleave": False, "atoms": list(atoms)}


_SHARED_V = [("CFLAGS", "Q", "-O2 -pipe"), ("CFLAGS_amd64", "A", "-m64"), ("LDFLAGS", "Q", "-Wl,-O1"), ("XLDFLAGS", "p", "-Wl,--as-needed"),
             ("T", "A", "/var/tmp/t"), ("TT", "Q", "two\tt"), ("DISTDIR", "q", "/var/cache/dist files")]
_SHARED_F = [("pkg_setup", 'echo "setup: ${CFLAGS}"'), ("pkg_setup_hook", "echo 'hook {'"), ("src_compile", 'emake "${@}" || die "make failed"'),
             ("my_src_compile", "src_compile")]
_USAGE = "cat <<-EOF\n\tUsage: ${PN} [file]\n\tWithout a file the text is read from stdin, finish it with EOF\n\tDon't put quotes around it.\n\tEOF\nreturn 1"
_AWK = "awk '\nBEGIN { FS = \":\" }\n$3 >= 1000 {\n    print $1\n}\n' /etc/passwd > \"${T}\"/users || die \"awk failed\""
CORPUS = [
    # multi-line quoted text in a body is printed verbatim by bash: a line that is only `}` does not end the function
    _c(vars_=[("SLOT", "A", "0"), ("EXTRA_ECONF", "Q", "--with-x")], funcs=[("src_install", _AWK + "\ndodoc README"), ("pkg_postinst", "elog \"it's done\""),
                                                                     ("pkg_setup", "x=\"\n}\"\n:")], vpat=["SLOT", "EXTRA_.*"], fpat=["pkg_.*"]),
    _c(vars_=[("A", "A", "1")], funcs=[("src_install", _AWK), ("pkg_postinst", "echo post")], fpat=["src_install"]),
    _c(vars_=[("A", "A", "1"), ("B", "A", "2")], funcs=[("f", "x='\n}\n'\necho \"don't\""), ("g", "echo g")], vpat=["B"], fpat=["g"], vwl=True, fwl=True),
    _c(funcs=[("pre", "echo pre"), ("mid", "cat <<''\nfoo\n\n    :"), ("post", "echo post")], fpat=["mid"]),      # used to hang
    _c(vars_=[("A", "A", "x")], funcs=[("f", "echo ${x:-a} '}'"), ("g", "echo g")], fpat=["f"]),
    _c(vars_=[("A", "Q", "it's"), ("B", "q", "a b}c"), ("C", "p", 'x"y$z`w\\'), ("D", "A", "l1\nl2")], vpat=["B", "D"]),
    _c(vars_=[("A", "A", "}"), ("B", "A", "{"), ("C", "arr", ["}", "x y", ""])], funcs=[("f", "echo '}'")], vpat=["A"], fpat=["f"]),
    _c(vars_=[("A", "A", "1"), ("B", "A", "2"), ("FOO", "A", "3")], vpat=["A", "FOO"], vwl=True),
    _c(funcs=[("f", "echo f"), ("g2", "echo g"), ("foo", "echo foo")], fpat=["f.*"], fwl=True),
    _c(funcs=[("f", "x=${y/'}'/z}; echo $x"), ("g", "echo g")], fpat=["g"]),   # open finding
    _c(funcs=[("f", "cat <<EOF\n}\nEOF"), ("g", "case $1 in a}) : ;; esac")], fpat=["f"]),
    # names that share prefixes / suffixes / infixes with the tokens, every position of the token list, both modes
    _c(vars_=_SHARED_V, funcs=_SHARED_F, vpat=["CFLAGS", "LDFLAGS", "T"], fpat=["pkg_setup", "src_compile"]),
    _c(vars_=_SHARED_V, funcs=_SHARED_F, vpat=["T", "LDFLAGS", "CFLAGS"], fpat=["src_compile", "pkg_setup"]),
    _c(vars_=_SHARED_V, funcs=_SHARED_F, vpat=["T", "DISTDIR"], fpat=["src_compile", "pkg_setup"], vwl=True, fwl=True),
    _c(vars_=_SHARED_V, funcs=_SHARED_F, vpat=["T"], fpat=["src_compile"], vwl=True),
    _c(vars_=_SHARED_V, funcs=_SHARED_F, vpat=["FLAGS", "", "C.*_amd64", "TT?"], fpat=[".*_setup", "nomatch_x", "src_compil"]),
    _c(vars_=_SHARED_V, vpat=["CFLAGS|T", "LDFLAGS"]),                                  # alternation inside a token, grouped
    _c(vars_=_SHARED_V, vpat=["CFLAGS|T"]),                                              # single token with | (fixed b3641f3)
    _c(vars_=_SHARED_V, funcs=_SHARED_F, vpat=["T|DISTDIR"], fpat=["src_compile|pkg_setup"], vwl=True, fwl=True),
    # here-documents whose text mentions the delimiter word and has unbalanced quotes
    _c(funcs=[("pkg_nofetch", "cat <<EOF\nPlease download ${PN}.tar.gz by hand.\nEOF"), ("usage", _USAGE), ("pkg_pretend", "[[ -n ${PN} ]] || die \"no PN\""),
              ("src_test", "usage > /dev/null; emake check")], fpat=["pkg_pretend", "src_test"]),
    _c(funcs=[("pkg_nofetch", "cat <<EOF\nPlease download ${PN}.tar.gz by hand.\nEOF"), ("usage", _USAGE), ("pkg_pretend", "[[ -n ${PN} ]] || die \"no PN\""),
              ("src_test", "usage > /dev/null; emake check")], fpat=["usage"], fwl=True),
    _c(funcs=[("a1", "cat <<'E O F' | tr a b\nsay \"E O F\nx E O F\nE O Fx\n`\nE O F"), ("b1", "echo b")], fpat=["b1"]),
    _c(funcs=[("a1", "x=$(cat <<X1\ntext\tX1\n(it's\nX1\n)"), ("b1", "echo b")], fpat=["a1"]),
    _c(funcs=[("a1", "cat <<EOF\n EOF\nDon't\nEOF"), ("b1", "echo b")], fpat=["b1"], atoms=("corpus", "hd_lookalike")),      # fixed 3403941
    _c(funcs=[("a1", "cat <<EOF\nEOF; it's\nEOF"), ("b1", "echo b")], fpat=["a1"], atoms=("corpus", "hd_lookalike")),        # fixed 3403941
    _c(funcs=[("a1", "cat <<-EOF\n EOF\n\tsay \"hi\n\t\tEOF"), ("b1", "x=$(cat <<EOF\nEOF} it's\n\tEOF\nEOF\n)"), ("c1", "echo c")], fpat=["c1", "a1"],
       atoms=("corpus", "hd_lookalike")),
]
CORPUS += [
    # multi-byte text before the definitions that are removed / before the end of the dump (values in every quoting style, function bodies)
    _c(vars_=[("ARCH", "A", "amd64"), ("DESCRIPTION", "Q", "Schöne Grüße — naïve café tools"), ("EBUILD_PHASE", "A", "install"),
              ("MAINTAINER", "p", "José Ñandú <jose@example.org>"), ("SLOT", "q", "0"), ("T", "A", "/var/tmp/t"), ("ZZ_LAST", "Q", "end 😀")],
       funcs=[("pkg_nofetch", 'einfo "Bitte laden Sie die Datei „${A}“ händisch herunter";\neinfo "und legen Sie sie in ${DISTDIR} ab — danke"'),
              ("pkg_setup", "local msg='größer';\necho \"${msg} }\" > /dev/null"), ("src_install", 'dodoc README;\neinfo "fertig ✓"')],
       vpat=["EBUILD_PHASE", "SLOT", "ZZ_LAST"], fpat=["pkg_setup"], atoms=("corpus", "uni_rich")),
    _c(vars_=[("ARCH", "A", "amd64"), ("DESCRIPTION", "Q", "Schöne Grüße — naïve café tools"), ("MAINTAINER", "p", "José Ñandú"), ("USE", "A", "nls unicode")],
       funcs=[("pkg_nofetch", 'einfo "„${A}“ — danke"'), ("src_install", 'einfo "fertig ✓"')],
       vpat=["ARCH", "MAINTAINER"], fpat=["src_install"], vwl=True, fwl=True, atoms=("corpus", "uni_rich")),
    _c(vars_=[("A", "arr", ["é", "日本語 }", "😀"]), ("B", "q", "→"), ("C", "A", "x")], funcs=[("größe", "echo 'ü }'"), ("g", "echo g")], vpat=["B"], fpat=["größe"],
       atoms=("corpus", "uni_rich")),
    # printable non-ASCII spaces: bash writes them raw and unquoted (printf %q) and does not split words there (fixed ce09e26: the scanner did)
    _c(vars_=[("A", "q", "x\u00a0y"), ("B", "q", "x\u3000y;z"), ("C", "A", "1"), ("D", "q", "\u2003")], vpat=["A", "B", "D"], atoms=("corpus", "uni_rich")),
    _c(vars_=[("A", "q", "x\u00a0y"), ("C", "A", "1")], funcs=[("f", "echo a\u00a0#b \"}\"\nx=ä\u3000ö"), ("g", "echo g")], vpat=["C"], fpat=["g"], vwl=True,
       atoms=("corpus", "uni_rich")),
]
# raw texts (not produced by bash): boundary cases of the scanner itself
RAW = [
    ("f() { ", [], ["f"]), ("x='", ["x"], []), ("x=\"$", [], []), ("a <<", [], []), ("X=1 #", ["X"], []), ("X=\\", ["X"], []),
    ("function foo() {:;}", [], ["foo"]), ("functionfoo() {:;}", [], ["foo"]), ("f(){\nX=dar foon\n}\nY=dar\nf2(){Z=dar;}\n", ["Y"], ["f2"]),
    ("foo() {\n    :\n}\n\nbar() {\n    :\n}\n", [], ["bar"]), ("A=${B", ["A"], []), ("A=$(", ["A"], []), ("{", [], []), ("$'", [], []),
    ("cat <<''\nfoo\n\nX=1\n", ["X"], []), ("a=1;b=2;c=3\n", ["b"], []), ("a=1 b=2\nc=3\n", ["b"], []), ("", ["a"], ["b"]),
    ("x=`echo }`\ny=2\n", ["x"], []), ("x=(1 2\n3)\ny=2\n", ["x"], []), ("  \t x=1\n", ["x"], []), ("x=1\n#x=2\nx=3", ["x"], []),
    ("a=1\nab=2\nb=3\nxb=4\n", ["a", "b"], []), ("f() { cat <<EOF\nx EOF\nEOF\n}\ng() { :; }\n", [], ["g", "f"]),
]


# ---------------------------------------------------------------- run

def run(ctx):
    rng = ctx.rng
    global RUN_DIR
    scratch = tempfile.mkdtemp(prefix="c34-")
    RUN_DIR = os.path.join(scratch, "cwd")
    os.makedirs(RUN_DIR)
    try:
        cases = [dict(c) for c in CORPUS]
        for _ in range(ctx.n(200, 5000)):
            cases.append(gen_case(rng))
        del OBSERVER_DIFFS[:]
        _run_dumps(ctx, rng, cases, scratch)
        _run_select(ctx, rng)
        _run_raw(ctx, rng, scratch)
        ctx.extra["inputs_where_output_depends_on_observer_callbacks"] = len(OBSERVER_DIFFS)
        for d in OBSERVER_DIFFS[:10]:
            ctx.mismatch({"text": d["text"], "vpat": d["vpat"], "fpat": d["fpat"], "vwl": d["vwl"], "fwl": d["fwl"]},
                         "main_run writes something else when the observer callbacks are registered than when called bare "
                         f"(the daemon's call; the bare output is the one judged): bare {d['bare']!r}; observed {d['observed']!r}"[:1500])
    finally:
        shutil.rmtree(scratch, ignore_errors=True)


def case_atoms(c):
    return list(c.get("atoms", ()))


def case_finding(c):
    """the open finding whose input class the case is in (None: the property must hold exactly)"""
    atoms = case_atoms(c)
    if any(k in FINDING_ATOMS for k in atoms) or any("${y/'}'" in (f.get("body") or "") for f in c["funcs"]):
        return FINDING
    if any(k in ("wrap_group", "wrap_subshell") for k in atoms):
        return FINDING_GROUP
    if "heredoc_two" in atoms:
        return FINDING_TWO_HEREDOCS
    return None


def public_case(c):
    case = {k: c[k] for k in ("vars", "funcs", "vpat", "fpat", "vwl", "fwl", "interleave") if k in c}
    for k in ("dump_text", "derived_from"):
        if k in c:
            case[k] = c[k]
    return case


_DIRNO = [0]
B = 40


def _new_dir(c, scratch):
    _DIRNO[0] += 1
    d = os.path.join(scratch, "c%d" % _DIRNO[0])
    os.makedirs(d)
    c["dir"] = d
    return d


def _bash_dump(cases, scratch):
    """let bash write the dumps (batched): c['text'] (None + c['skip'] when bash produced nothing usable)"""
    for start in range(0, len(cases), B):
        script = []
        for c in cases[start:start + B]:
            d = _new_dir(c, scratch)
            with open(os.path.join(d, "setup.sh"), "w") as f:
                f.write(c["raw_source"] if "raw_source" in c else setup_script(c))
            with open(os.path.join(d, "dump.sh"), "w") as f:
                f.write(REDUMP if "raw_source" in c else dump_script(c))
            if "raw_source" in c:
                # a text that bash did not write: it may run commands when sourced; no stdin, own time limit, names reported by bash itself
                script.append("( __c34names=%s/names.txt; __c34base=$(compgen -v); source %s/setup.sh </dev/null >/dev/null 2>&1; source %s/dump.sh ) "
                              "> %s/dump.txt 2> %s/dump.err" % (d, d, d, d, d))
            else:
                script.append("( source %s/setup.sh; __c34tmp=%s/declare.tmp; source %s/dump.sh ) > %s/dump.txt 2> %s/dump.err" % (d, d, d, d, d))
        try:
            run_bash("\n".join(script), timeout=60 if any("raw_source" in c for c in cases[start:start + B]) else 300)
        except subprocess.TimeoutExpired:
            pass
    for c in cases:
        d = c["dir"]
        try:
            text = open(os.path.join(d, "dump.txt"), encoding="utf-8").read()
        except (OSError, UnicodeDecodeError):
            text = None
        if "raw_source" in c and text:
            try:
                names = open(os.path.join(d, "names.txt"), encoding="utf-8").read().split("\n")
            except (OSError, UnicodeDecodeError):
                names = []
            c["vars"] = [{"name": n[2:], "style": "redump", "value": None} for n in names
                         if n.startswith("V ") and n[2:] not in RESERVED and not n[2:].startswith(("BASH", "COMP_", "__c34"))]
            c["funcs"] = [{"name": n[2:], "body": None} for n in names if n.startswith("F ")]
        c["text"] = text
        if not text or "\0" in text:
            try:
                err = open(os.path.join(d, "dump.err"), errors="replace").read()[:120]
            except OSError:
                err = ""
            c["skip"] = "bash produced no usable dump: " + err


# what bash defines after sourcing a text it did not write: every function and every new variable, dumped the way bash writes them
REDUMP = r"""
for __n in $(compgen -v); do
    case " ${__c34base//$'\n'/ } __c34base __c34names __n BASH_ARGC BASH_ARGV BASH_LINENO BASH_SOURCE FUNCNAME PIPESTATUS _ " in *" $__n "*) continue;; esac
    case $(declare -p "$__n" 2>/dev/null) in "declare -- "*) ;; *) continue;; esac
    printf 'V %s\n' "$__n" >> "$__c34names"
    printf '%s\n' "${!__n@A}"
done
for __n in $(compgen -A function); do
    printf 'F %s\n' "$__n" >> "$__c34names"
    declare -f "$__n"
done
"""


def _filter_and_oracle(ctx, cases):
    """real filter + model + bash as oracle (batched) for cases that have a dump text: fills status/out_b/model/selection/orig/got"""
    reqs = []
    for c in cases:
        d = c["dir"]
        status, out_b, vseen, fseen = real_filter(c["text"], c["vpat"], c["fpat"], c["vwl"], c["fwl"])
        c["status"], c["out_b"], c["out"], c["vseen"], c["fseen"] = status, out_b, as_text(out_b), vseen, fseen
        with open(os.path.join(d, "dump.txt"), "w", encoding="utf-8") as f:
            f.write(c["text"])
        with open(os.path.join(d, "filtered.txt"), "wb") as f:      # the bytes as written (bash cannot read a NUL)
            f.write(out_b.replace(b"\0", b""))
        with open(os.path.join(d, "probe.sh"), "w") as f:
            f.write(probe_script(c))
        reqs.append(run_req(c["text"], c["vpat"], c["fpat"], c["vwl"], c["fwl"]))
        reqs.append(select_req(c["vpat"], c["vwl"], [v["name"] for v in c["vars"]]))
        reqs.append(select_req(c["fpat"], c["fwl"], [f["name"] for f in c["funcs"]]))
    reps = ctx.model(reqs)
    for i, c in enumerate(cases):
        c["model"], c["vselrep"], c["fselrep"] = reps[3 * i], reps[3 * i + 1], reps[3 * i + 2]
    for start in range(0, len(cases), B):
        script = []
        for c in cases[start:start + B]:
            d = c["dir"]
            script.append("( source %s/dump.txt >/dev/null 2>%s/orig.err; source %s/probe.sh ) > %s/orig.txt 2>/dev/null" % (d, d, d, d))
            script.append("( source %s/filtered.txt >/dev/null 2>%s/src.err; source %s/probe.sh ) > %s/got.txt 2>/dev/null" % (d, d, d, d))
        run_bash("\n".join(script))
    for c in cases:
        d = c["dir"]
        c["orig"] = parse_probe(open(os.path.join(d, "orig.txt"), errors="replace").read())
        c["got"] = parse_probe(open(os.path.join(d, "got.txt"), errors="replace").read())
        for k, fn in (("orig_err", "orig.err"), ("src_err", "src.err")):
            try:
                c[k] = open(os.path.join(d, fn), errors="replace").read().replace(d + "/", "").strip()
            except OSError:
                c[k] = ""


def property_problems(c, vsel, fsel):
    """the property's own statement with bash as oracle: after sourcing the filtered text every selected definition is gone and every other
    one is what sourcing the dump itself defines"""
    orig, got = c["orig"], c["got"]
    problems = []
    # no stray bytes: what is left must be definitions only — bash reads the dump without a word, so it must read the filtered text without one
    if c.get("src_err") and not c.get("orig_err"):
        problems.append("bash complains when sourcing the filtered text although it reads the dump silently (stray text left behind): "
                        + c["src_err"].split("\n")[0][:160])
    for v in c["vars"]:
        key = "V " + v["name"]
        want = "@@UNSET@@" if v["name"] in vsel else orig.get(key)
        if orig.get(key) in (None, "@@UNSET@@"):
            continue   # bash itself could not re-read its own dump of this value
        if got.get(key) != want:
            problems.append(f"variable {v['name']}: expected {'removed' if want == '@@UNSET@@' else want!r}, after sourcing the filtered text "
                            f"{got.get(key)!r} (tokens {c['vpat']!r} whitelist={c['vwl']})")
    for f in c["funcs"]:
        key = "F " + f["name"]
        want = "@@UNSET@@" if f["name"] in fsel else orig.get(key)
        if orig.get(key) in (None, "@@UNSET@@"):
            continue
        if got.get(key) != want:
            problems.append(f"function {f['name']}: expected {'removed' if want == '@@UNSET@@' else 'unchanged'}, "
                            f"got {(got.get(key) or '')[:80]!r} (tokens {c['fpat']!r} whitelist={c['fwl']})")
    return problems


def _verdict(ctx, c, register):
    """edges A and C for one evaluated dump case.  Returns (violated, mismatched, in_finding_class)."""
    case = public_case(c)
    state = {"v": False, "m": False}

    def violation(detail, finding=None):
        state["v"] = True
        ctx.violation(case, detail, finding=finding)

    def mismatch(detail):
        state["m"] = True
        ctx.mismatch(case, detail)

    text, out, out_b, status = c["text"], c["out"], c["out_b"], c["status"]
    finding = case_finding(c)
    nm = len(ctx.mismatches)
    # which names must go: the specification's whole-name selection on the token lists (not the code's own pattern)
    vsel = check_selection(ctx, case, "variable", [v["name"] for v in c["vars"]], c["vpat"], c["vwl"], c["vselrep"])
    fsel = check_selection(ctx, case, "function", [f["name"] for f in c["funcs"]], c["fpat"], c["fwl"], c["fselrep"])
    if len(ctx.mismatches) != nm:
        state["m"] = True
    c["vsel"], c["fsel"] = vsel, fsel
    if vsel is None or fsel is None:
        return False, True, finding
    if register:
        ndefs = len(c["vars"]) + len(c["funcs"])
        nsel = len(vsel) + len(fsel)
        ctx.case(case, ndefs >= 2 and 0 < nsel < ndefs, key=text + json.dumps([c["vpat"], c["fpat"], c["vwl"], c["fwl"]]))
        ctx.count("nvars_%d" % len(c["vars"]))
        ctx.count("nfuncs_%d" % len(c["funcs"]))
        ctx.count("dump_len_%s" % ("<200" if len(text) < 200 else "<1000" if len(text) < 1000 else ">=1000"))
        for v in c["vars"]:
            ctx.count("style_" + v["style"])
        for k in case_atoms(c):
            ctx.count("atom_" + k)
        if "hd_eolword" in case_atoms(c) and "hd_unbalanced" in case_atoms(c):
            ctx.count("heredoc_text_with_delimiter_word_and_unbalanced_quote")
        if c["vwl"] or c["fwl"]:
            ctx.count("whitelist_mode")
        if not text.isascii():
            ctx.count("dump_with_multibyte_text")
            # multi-byte text in front of a definition that is removed: every cut behind it has a byte offset != its character offset
            m = c["model"]
            if isinstance(m, dict) and any(s[4] and not text[:s[1]].isascii() for s in m["stmts"]):
                ctx.count("multibyte_text_before_a_removed_definition")
    # the real code must terminate normally
    if status != "ok":
        violation(f"filter_env.main_run did not finish normally on a dump written by bash: {status}")
        return True, state["m"], finding
    # no stray bytes
    nv = len(ctx.violations) + len(ctx.known_hits)
    if check_bytes(ctx, case, text, out_b, c["model"], finding=finding):
        state["v"] = True
    # edge A: model
    m = c["model"]
    if isinstance(m, str):
        mismatch(f"Lean model answered {m}, real code finished normally")
    else:
        if m.get("bytes") != out_b.hex():
            state["m"] = True
        if m["out"] != out:
            mismatch("filtered text differs from the Lean model's: " + first_diff(out, m["out"]))
        if m["out"] != m["spec"]:
            mismatch("Lean model output is not 'input minus the filtered statements': " + first_diff(m["out"], m["spec"]))
        if m["out"] != m["specsel_out"]:
            mismatch("Lean model filters other statements than the specification selects: " + first_diff(m["out"], m["specsel_out"]))
        mv = [s[3] for s in m["stmts"] if not s[0]]
        mf = [s[3] for s in m["stmts"] if s[0]]
        if mv != c["vseen"] or mf != [n for lvl, n in c["fseen"] if lvl == 0]:
            mismatch(f"statements recognised differ: real vars {c['vseen']} funcs {c['fseen']}; model vars {mv} funcs {mf}")
    # edge C: bash as oracle
    problems = property_problems(c, vsel, fsel)
    if problems:
        violation("; ".join(problems[:3]), finding=finding)
    return state["v"], state["m"], finding


def neighbours(c):
    """the same dump under other token lists: nothing selected, every definition alone (removed alone / kept alone) — a statement whose
    boundaries are wrong shows when it, or its neighbour, is the one that is cut out"""
    out = []
    base = {k: c[k] for k in ("vars", "funcs", "interleave", "text", "atoms") if k in c}

    def mk(vpat, fpat, vwl, fwl):
        n = dict(base)
        n.update(vpat=vpat, fpat=fpat, vwl=vwl, fwl=fwl, dump_text=c["text"], derived_from="same dump, other token lists")
        out.append(n)
    mk([], [], False, False)
    mk(list(reversed(c["vpat"])), list(reversed(c["fpat"])), c["vwl"], c["fwl"])
    mk(c["vpat"], c["fpat"], not c["vwl"], not c["fwl"])
    for v in c["vars"][:6]:
        mk([esc_token(v["name"])], [], False, False)
        mk([esc_token(v["name"])], [], True, False)
    for f in c["funcs"][:6]:
        mk([], [esc_token(f["name"])], False, False)
        mk([], [esc_token(f["name"])], False, True)
    return out


def shrunk(c):
    """the case with one definition less (bash dumps it again)"""
    out = []
    for kind in ("vars", "funcs"):
        for i in range(len(c[kind])):
            n = {k: c[k] for k in ("vars", "funcs", "vpat", "fpat", "vwl", "fwl", "interleave")}
            n[kind] = c[kind][:i] + c[kind][i + 1:]
            if not n["vars"] and not n["funcs"]:
                continue
            n["atoms"] = [a for a in case_atoms(c) if a in ("corpus", "uni_rich")] + [a for f in n["funcs"] for a in f.get("atoms", ())]
            if any("atoms" not in f for f in n["funcs"]):
                n["atoms"] = case_atoms(c)      # hand-written case: keep its classification
            out.append(n)
    return out


class _Quiet:
    """a ctx stand-in that records verdicts of explored inputs without reporting them"""

    def __init__(self, ctx):
        self._ctx = ctx
        self.violations, self.mismatches, self.known_hits = [], [], {}
        self.findings = ctx.findings
        self.pid = ctx.pid

    def violation(self, case, detail, finding=None):
        if finding is not None:
            f = self.findings.get(finding)
            if f and f.get("property") == self.pid and f.get("status") == "open":
                self.known_hits.setdefault(finding, {"case": case, "detail": detail})
                return
        self.violations.append({"case": case, "detail": detail})

    def mismatch(self, case, detail):
        self.mismatches.append({"case": case, "detail": detail})

    def count(self, *a, **k):
        pass

    def case(self, *a, **k):
        pass

    def model(self, reqs):
        return self._ctx.model(reqs)


def explore(ctx, c, scratch):
    """a model/implementation disagreement on a dump without a property failure there: evaluate the property itself (bash as oracle) on
    nearby inputs.  Returns the number of failing inputs reported."""
    ns = neighbours(c)
    for n in ns:
        _new_dir(n, scratch)
    _filter_and_oracle(ctx, ns)
    found = 0
    for n in ns:
        q = _Quiet(ctx)
        v, m, finding = _verdict(q, n, False)
        ctx.count("explored_neighbour_inputs")
        if q.violations and found < 3:
            found += 1
            ctx.violation(public_case(n), "found from a model/implementation disagreement by trying other token lists on the same dump: "
                          + q.violations[0]["detail"])
    return found


def shrink(ctx, c, scratch):
    """greedy: drop one definition at a time while the property still fails (bash dumps every candidate again)"""
    cur = c
    for _ in range(8):
        cands = shrunk(cur)
        if not cands:
            break
        _bash_dump(cands, scratch)
        cands = [n for n in cands if "skip" not in n]
        if not cands:
            break
        _filter_and_oracle(ctx, cands)
        nxt = None
        for n in cands:
            q = _Quiet(ctx)
            _verdict(q, n, False)
            ctx.count("shrink_candidates")
            if q.violations:
                nxt, detail = n, q.violations[0]["detail"]
                break
        if nxt is None:
            break
        cur, cur_detail = nxt, detail
    if cur is not c:
        cur["dump_text"] = cur["text"]
        cur["derived_from"] = "shrunk from a failing dump of %d definitions" % (len(c["vars"]) + len(c["funcs"]))
        # first in the list (the list is capped): the smallest failing input is the one to look at
        ctx.violations.insert(0, {"case": public_case(cur), "detail": "(shrunk) " + cur_detail, "finding_class": None})
        del ctx.violations[50:]


def _run_dumps(ctx, rng, cases, scratch, register=True):
    _bash_dump(cases, scratch)
    live = [c for c in cases if "skip" not in c]
    _filter_and_oracle(ctx, live)
    to_explore, to_shrink = [], []
    for c in cases:
        if "skip" in c:
            ctx.count("skipped_no_dump")
            ctx.note(c["skip"])
            continue
        nv = len(ctx.violations)
        violated, mismatched, finding = _verdict(ctx, c, register)
        ctx.traces += 1
        if violated and finding is None and len(ctx.violations) > nv:
            to_shrink.append(c)
        elif mismatched and not violated:
            to_explore.append(c)
    # a disagreement with the model that did not show as a property failure on its own input: look around it
    for c in to_explore[:6]:
        explore(ctx, c, scratch)
    for c in to_shrink[:2]:
        if len(c["vars"]) + len(c["funcs"]) > 2:
            shrink(ctx, c, scratch)
    return len(to_shrink), len(to_explore)


def first_diff(a, b):
    i = 0
    while i < min(len(a), len(b)) and a[i] == b[i]:
        i += 1
    return f"at offset {i}: real …{a[max(0, i - 20):i + 30]!r} model …{b[max(0, i - 20):i + 30]!r} (lengths {len(a)}/{len(b)})"


# ---- the name selection on its own: one-line definitions (their boundaries are not in question), many names x token lists

SEL_VALUES = ["1", "1", "1", "é", "'ü →'", "😀", "x\u00a0y"]


def _sel_text(vnames, fnames, vals=None):
    vals = vals or ["1"] * len(vnames)
    return "".join("%s=%s\n" % (n, v) for n, v in zip(vnames, vals)) + "".join("%s () \n{ \n    :\n}\n" % n for n in fnames)


SMALL_NAMES = ["A", "B", "AA", "AB", "BA", "BB", "AAB", "ABA", "ABB", "BAB", "A_B", "AB_"]
SMALL_TOKENS = ["A", "B", "AB", "BA", "A.*", ".*B", "A.", "AB?", "A_B", "A|BA"]


def select_problem(item, out_b, vsel, fsel):
    """the property on a text of one-line definitions: exactly the selected definitions are gone, the others are there byte for byte"""
    vnames, fnames, vpat, fpat, vwl, fwl, vals = item
    want = ["%s=%s" % (n, v) for n, v in zip(vnames, vals) if n not in vsel]
    for n in fnames:
        if n not in fsel:
            want += ["%s () " % n, "{ ", "    :", "}"]
    got = [ln for ln in out_b.split(b"\n") if ln != b""]
    if got == [w.encode("utf-8") for w in want]:
        return None
    gotn = {ln.split(b"=")[0].split(b" ")[0] for ln in got}
    gone = [n for n in vnames + fnames if n not in vsel | fsel and n.encode() not in gotn]
    kept = [n for n in vnames + fnames if n in vsel | fsel and n.encode() in gotn]
    return (f"variable tokens {vpat!r} (whitelist={vwl}), function tokens {fpat!r} (whitelist={fwl}): wrongly removed {gone}, wrongly kept {kept}; "
            f"output {as_text(out_b)[:120]!r}")


def _run_select(ctx, rng):
    items = []
    # bounded-exhaustive: every ordered token list up to a length over a small universe, both modes, as variables and as functions
    import itertools
    for k in range(1, ctx.n(2, 3) + 1):
        for toks in itertools.product(SMALL_TOKENS, repeat=k):
            for wl in (False, True):
                if (len(items) + k) % 2:
                    items.append((SMALL_NAMES, [], list(toks), [], wl, False, ["1"] * len(SMALL_NAMES)))
                else:
                    items.append(([], SMALL_NAMES, [], list(toks), False, wl, []))
    for _ in range(ctx.n(250, 8000)):
        vnames, vc = gen_names(rng, rng.choice([0, 2, 3, 5, 8]), False)
        fnames, fc = gen_names(rng, rng.choice([0, 2, 3, 5]), True)
        if not vnames and not fnames:
            continue
        # put related names in the text as well: they are the ones a sloppy pattern catches
        vnames = list(dict.fromkeys(vnames + [n for n in vc if rng.random() < 0.5]))
        fnames = list(dict.fromkeys(fnames + [n for n in fc if rng.random() < 0.5]))
        items.append((vnames, fnames, gen_tokens(rng, vc), gen_tokens(rng, fc), rng.random() < 0.35, rng.random() < 0.35,
                      [rng.choice(SEL_VALUES) for _ in vnames]))
    explored = _select_batch(ctx, items, True)
    # disagreements with the model that were not property failures on their own input: the same names under nearby token lists
    more = []
    for it in explored[:8]:
        vnames, fnames, vpat, fpat, vwl, fwl, vals = it
        more.append((vnames, fnames, list(reversed(vpat)), list(reversed(fpat)), vwl, fwl, vals))
        more.append((vnames, fnames, vpat, fpat, not vwl, not fwl, vals))
        for t in vpat[:3]:
            more.append((vnames, fnames, [t], [], vwl, False, vals))
        for t in fpat[:3]:
            more.append((vnames, fnames, [], [t], False, fwl, vals))
        more.append((vnames, fnames, vpat, fpat, vwl, fwl, vals))      # and once more: the answer may not depend on the calls in between
    if more:
        _select_batch(ctx, more, False)


def _select_batch(ctx, items, register):
    """returns the items on which model and implementation disagreed without a property failure"""
    reqs = []
    reals = []
    for vnames, fnames, vpat, fpat, vwl, fwl, vals in items:
        text = _sel_text(vnames, fnames, vals)
        status, out_b, vseen, fseen = real_filter(text, vpat, fpat, vwl, fwl)
        reals.append((text, status, out_b))
        reqs += [run_req(text, vpat, fpat, vwl, fwl), select_req(vpat, vwl, vnames), select_req(fpat, fwl, fnames)]
    reps = ctx.model(reqs)
    explore_these = []
    for i, (item, (text, status, out_b)) in enumerate(zip(items, reals)):
        vnames, fnames, vpat, fpat, vwl, fwl, vals = item
        m, vrep, frep = reps[3 * i], reps[3 * i + 1], reps[3 * i + 2]
        case = {"select": True, "vnames": vnames, "fnames": fnames, "vpat": vpat, "fpat": fpat, "vwl": vwl, "fwl": fwl, "values": vals}
        if not register:
            case["derived_from"] = "nearby token lists of an input on which model and implementation disagreed"
        nm, nv = len(ctx.mismatches), len(ctx.violations)
        mism = [False]

        def mismatch(detail):
            mism[0] = True
            ctx.mismatch(case, detail)
        vsel = check_selection(ctx, case, "variable", vnames, vpat, vwl, vrep)
        fsel = check_selection(ctx, case, "function", fnames, fpat, fwl, frep)
        if len(ctx.mismatches) != nm:
            mism[0] = True
        if vsel is None or fsel is None:
            continue
        n = len(vnames) + len(fnames)
        if register:
            ctx.case(case, n >= 2 and 0 < len(vsel) + len(fsel) < n, key="sel|" + json.dumps(case, sort_keys=True))
            ctx.count("select_stream")
        else:
            ctx.count("explored_neighbour_inputs")
        if status != "ok":
            ctx.violation(case, f"filter_env.main_run did not finish normally: {status}")
            continue
        bad = check_bytes(ctx, case, text, out_b, m)
        out = as_text(out_b)
        if isinstance(m, str):
            mismatch(f"Lean model answered {m}, real code finished normally")
        elif m["out"] != out:
            mismatch("filtered text differs from the Lean model's: " + first_diff(out, m["out"]))
        elif m["out"] != m["specsel_out"]:
            mismatch("Lean model filters other statements than the specification selects: " + first_diff(m["out"], m["specsel_out"]))
        elif m.get("bytes") != out_b.hex():
            mism[0] = True
        # the property: exactly the selected definitions are gone, the others are there byte for byte
        problem = select_problem(item, out_b, vsel, fsel)
        if problem:
            ctx.violation(case, problem)
            bad = True
        if mism[0] and not bad:
            explore_these.append(item)
    return explore_these


def _run_raw(ctx, rng, scratch):
    """texts not written by bash (hand-made and single-edit mutations of dumps): robustness + model agreement; where model and implementation
    disagree the text is sourced by bash, bash dumps what it defines, and the property is evaluated on that dump"""
    items = [(t, v, f) for t, v, f in RAW]
    seeds = []
    for _ in range(ctx.n(100, 4000)):
        c = gen_case(rng)
        base = setup_script(c)     # not a bash dump, but the same constructs in source form
        k = rng.random()
        if k < 0.5 and base:
            i = rng.randrange(len(base))
            edit = rng.random()
            if edit < 0.4:
                base = base[:i] + base[i + 1:]
            elif edit < 0.8:
                base = base[:i] + rng.choice(["'", '"', "{", "}", "(", ")", "$", "`", "\\", "#", "<<", "\n", ";", "=", " ", "é", "\u00a0", "→"]) + base[i:]
            else:
                base = base[:i]
        seeds.append((base, [v["name"] for v in c["vars"]][:2], [f["name"] for f in c["funcs"]][:1]))
    items += seeds
    reqs = []
    reals = []
    for text, vnames, fnames in items:
        text = text.replace("\0", "")
        status, out_b, vseen, fseen = real_filter(text, vnames, fnames, False, False)
        reals.append((text, vnames, fnames, status, out_b, vseen, fseen))
        reqs.append(run_req(text, vnames, fnames, False, False))
    redump = []
    for (text, vnames, fnames, status, out_b, vseen, fseen), m in zip(reals, ctx.model(reqs)):
        case = {"raw": text, "vars": vnames, "funcs": fnames}
        out = as_text(out_b)
        ctx.case(case, len(vseen) + len(fseen) >= 1 and out != text, key="raw|" + text + json.dumps([vnames, fnames]))
        ctx.count("raw_" + status)
        if not text.isascii():
            ctx.count("raw_with_multibyte_text")
        if status == "hang":
            ctx.violation(case, "filter_env.main_run does not terminate")
            continue
        if status.startswith("exc"):
            ctx.violation(case, f"filter_env.main_run raised {status}")
            continue
        if status == "err:index":
            if m != "err:index":
                ctx.mismatch(case, f"real code raised IndexError, Lean model answered {str(m)[:80]}")
            continue
        nm = len(ctx.mismatches)
        bad = check_bytes(ctx, case, text, out_b, m)
        if isinstance(m, str):
            ctx.mismatch(case, f"Lean model answered {m}, real code finished normally")
            continue
        if m["out"] != out:
            ctx.mismatch(case, "filtered text differs from the Lean model's: " + first_diff(out, m["out"]))
        elif m["out"] != m["spec"]:
            ctx.mismatch(case, "Lean model output is not 'input minus the filtered statements': " + first_diff(m["out"], m["spec"]))
        mv = [s[3] for s in m["stmts"] if not s[0]]
        mf = [s[3] for s in m["stmts"] if s[0]]
        if mv != vseen or mf != [n for lvl, n in fseen if lvl == 0]:
            ctx.mismatch(case, f"statements recognised differ: real vars {vseen} funcs {fseen}; model vars {mv} funcs {mf}")
        if (len(ctx.mismatches) != nm or m.get("bytes") != out_b.hex()) and not bad:
            redump.append((text, vnames, fnames))
    # disagreements on texts outside the quantifier: let bash source the text and dump what it defines — an input inside the quantifier
    # next to it — and evaluate the property there (same token lists, then the neighbouring ones)
    if redump:
        cases = [{"raw_source": t, "vars": [], "funcs": [], "vpat": [esc_token(n) for n in v], "fpat": [esc_token(n) for n in f], "vwl": False, "fwl": False,
                  "interleave": False, "atoms": ["redump"], "derived_from": "bash's own dump of a raw text on which model and implementation disagreed"}
                 for t, v, f in redump[:4]]
        _bash_dump(cases, scratch)
        live = [c for c in cases if "skip" not in c]
        for c in live:
            c["dump_text"] = c["text"]
            ctx.count("raw_disagreement_redumped_by_bash")
        if live:
            _filter_and_oracle(ctx, live)
            for c in live:
                violated, mismatched, finding = _verdict(ctx, c, False)
                if not violated:
                    explore(ctx, c, scratch)
