"""C34 — saved-environment filtering removes exactly the named definitions (filter_env.py); bash is the oracle."""
import io
import json
import os
import shutil
import signal
import subprocess
import tempfile

PID = "C34"
LEAN_MODULES = ["Pkgcore.Props.C34"]
OBLIGATIONS = [
    "Pkgcore.C34.positions_advance",
    "Pkgcore.C34.fuel_suffices",
    "Pkgcore.C34.output_is_window_concat",
    "Pkgcore.C34.filtered_windows_are_statements",
    "Pkgcore.C34.sentinel_never_emitted",
    "Pkgcore.C34.statements_selected_by_name",
    "Pkgcore.C34.space_tables_ascii",
]
TRUSTED = [
    "the name predicates: re.match of the pattern built by build_regex_string is a parameter of the model; the harness evaluates the real "
    "compiled pattern on every name the real scanner reports and hands the model the set of selected names",
    "str.isspace / str.isalnum are tables generated from CPython on every run",
    "bash (the installed 5.2) is the oracle for 'defines the same values and function bodies': the dump is produced by bash itself "
    "(${v@A}, ${v@Q}, printf %q, declare -p, declare -f) and both the unfiltered and the filtered text are sourced in a clean bash",
    "utf-8 encoding of the written windows (out.write(...encode())) is not modelled; outputs are compared as text",
]
ASSUMPTIONS = [
    "the buffer handed to run() ends with the NUL sentinel main_run appends and contains no other NUL (bash cannot store one)",
    "fuel: the model's walkers carry a fuel argument; fuel_suffices proves it never runs out (the real code is still run under a "
    "watchdog so that a non-terminating scan would be reported as a violation)",
]
RULE = ("environment dumps written by bash itself: 1-8 variables with random values (quotes, blanks, newlines, braces, $, backticks, "
        "backslashes, #, ;, control and non-ASCII characters) each dumped in a random quoting style (${v@A}, name=${v@Q}, printf %q, "
        "declare -p, indexed arrays) and 0-5 functions whose bodies are random compositions of ~45 construct atoms (quoted braces, "
        "parameter expansions, here-documents incl. <<-, <<'' and quoted words, case arms, comments, arithmetic, subshells, command "
        "substitution, nested functions, [[ =~ ]], process substitution) inside if/for/while/case/brace-group wrappers, printed by "
        "declare -f; random black/white-list patterns over the names; plus a mutated stream (single edits of a dump) for robustness; "
        "non-trivial = the dump has at least two definitions and at least one is selected for removal and at least one is kept")
LEVEL_TEXT = ("Kernel-checked Lean 4 theorems about a function-by-function port of the scanner (fuel-indexed mutual recursion): every walker "
              "only moves forward and the scan terminates (the fuel never runs out); the output is the concatenation of disjoint, ordered windows of the input that never contain the appended "
              "NUL; the dropped text is exactly the union of the statements (function definitions / assignments) whose name was selected — "
              "nothing outside a filtered statement is dropped and nothing is added. The port is tied to the code by running real "
              "filter_env.main_run and the model on dumps produced by bash; the property itself is evaluated with bash as oracle "
              "(declare -p / declare -f after sourcing the filtered text).")
LEVEL_NOTE = ("Partial by construction: that the scanner's statement boundaries coincide with bash's for every function body is not a theorem "
              "(the scanner is a heuristic); it is checked against bash on the sampled dumps. Open finding: a ${…} expansion containing a "
              "quoted closing brace ends at that brace.")

FINDING = "C34-quoted-brace-in-expansion"
FINDING_GROUP = "C34-closer-inside-group"
FINDING_TWO_HEREDOCS = "C34-two-heredocs-one-line"


def gen_tables(repo):
    def ranges(pred):
        out = []
        start = None
        for i in range(0x110000):
            ok = False if 0xD800 <= i <= 0xDFFF else pred(chr(i))
            if ok and start is None:
                start = i
            if not ok and start is not None:
                out.append((start, i - 1))
                start = None
        if start is not None:
            out.append((start, 0x10FFFF))
        return out

    def fmt(rs):
        lines = []
        cur = "  "
        for a, b in rs:
            item = f"({a}, {b}), "
            if len(cur) + len(item) > 110:
                lines.append(cur.rstrip())
                cur = "  "
            cur += item
        lines.append(cur.rstrip().rstrip(","))
        return "\n".join(lines)
    text = ("-- GENERATED from CPython (str.isspace / str.isalnum) by harness/props/c34.py (gen_tables); do not edit\n"
            "namespace Pkgcore.Generated.C34\n"
            f"def spaceRanges : List (Nat × Nat) := [\n{fmt(ranges(str.isspace))}]\n"
            f"def alnumRanges : List (Nat × Nat) := [\n{fmt(ranges(str.isalnum))}]\n"
            "end Pkgcore.Generated.C34\n")
    return {"Pkgcore/Generated/C34Tables.lean": text}


# ---------------------------------------------------------------- generators

VALUE_ATOMS = ["a", "foo", " ", "  ", "\t", "\n", "'", '"', "}", "{", "$", "$x", "${y}", "$(z)", "`", "\\", "\\\\", "#", ";", "&", "|", "(", ")",
               "<", ">", "<<EOF", "=", "*", "?", "[", "]", "~", "!", "é", "ß→", "\x01", "\x7f", "\x1b[0m", "-", "--opt=1", "/usr/bin", "a b", "x'y\"z",
               "}\n{", "$'", "\\'", "\r", "\x0b", " ", "%s", "function", "f() {"]

BODY_ATOMS = {
    "simple": "echo hi",
    "assign": "local x=1 y='a b'; z=\"$x\"",
    "quotes": "echo '}' \"}\" \\}",
    "quotes2": "echo '{' \"{\" \\{ 'it'\\''s'",
    "comment": "echo a # }\n    echo b",
    "comment2": "# just { a comment '\n    :",
    "heredoc": "cat <<EOF\n}\n$x `y`\nEOF",
    "heredoc_q": "cat <<'EOF'\n} $x `\n{\nEOF",
    "heredoc_dq": "cat <<\"E O F\"\n}\nE O F",
    "heredoc_dash": "cat <<-EOF\n\t}\n\tEOF",
    "heredoc_empty": "cat <<''\n}\n\n    :",
    "heredoc_pipe": "cat <<EOF | tr a b\n}\nEOF",
    "heredoc_two": "cat <<A <<B\n1\nA\n}\nB",
    "here_string": "cat <<< '}'",
    "case_brace": "case $1 in a) echo ;; b}) : ;; esac",
    "case_paren": "case $1 in a) echo x;; (b) : ;; *) echo '}' ;; esac",
    "case_multi": "case \"$1\" in\n  a|b) : ;;\n  \\}) : ;;\nesac",
    "arith": "(( x = 1 << 2 )); echo $(( 1 << 3 ))",
    "arith2": "x=$(( y > 1 ? 2 : 3 )); let 'z=1<<2'",
    "arith_for": "for ((i=0; i<3; i++)); do echo $i; done",
    "subshell": "( cd /; echo } )",
    "cmdsub": "x=$(echo '}'); y=`echo \\}`",
    "cmdsub_nested": "x=$(echo $(echo \"$(echo })\"))",
    "cmdsub_case": "x=$(case a in a) echo 1;; esac)",
    "nested_fn": "g() { echo }; }; g",
    "brace_group": "{ echo a; echo b; }",
    "pe_default": "echo ${x:-}} ${#y} ${z%%\\}*}",
    "pe_ops": "echo ${x#*/} ${x%%.*} ${x/a/b} ${x^^} ${!x} ${x:1:2} ${#x[@]}",
    "pe_nested": "echo ${x:-${y:-z}}",
    "dollar_quote": "x=$'}\\'{'; echo $x",
    "array": "a=(1 '}' 3); echo ${a[@]} ${a[1]}",
    "assoc": "declare -A m=([k]='}' [j]=2); echo ${m[k]}",
    "regex": "[[ $x =~ ^a{2}b\\}$ ]]",
    "cond": "[[ -n $x && ( $y == '}' || $z != *\\} ) ]]",
    "semicolon_brace": "echo a;}\n{ echo b",
    "hash_in_word": "echo a#} b${#x} $# c#",
    "dq_dollar": 'echo "a $(echo ")") b" "}"',
    "dq_escapes": 'echo "\\" } \\$x \\` \\\\"',
    "bq": 'echo `echo "}"`',
    "func_kw": "function h { echo }; }",
    "select": "select x in a b; do echo }; done",
    "procsub": "while read l; do echo \"$l}\"; done < <(echo })",
    "lone_brace_word": "echo }",
    "pe_pattern": "echo ${x//\\{/\\}}",
    "redirs": "echo a >&2 2>/dev/null <&- >|f &>g",
    "pipeline": "a | b |& c && d || ! e",
    "coproc": "time -p ls; [ -e f ]",
    "special": "echo $$ $! $? $- $0 $* $@ $_",
    "dollar_misc": "echo $ $\"x\" a$ $;",
    "backslash_nl": "echo a \\\n    b",
    "glob": "echo *.{a,b} [a-z]* ~/x ?x",
    "unicode": "echo 'é }' ß",
    "eval": "eval 'f() { :; }'",
    "trap": "trap 'echo }' EXIT",
}
# atoms in the class of the open finding: a `${…}` with a quoted closing brace
FINDING_ATOMS = {
    "qbrace_pe": "x=${y/'}'/z}; echo $x",
    "dq_brace_pe": 'x=${y/"}"/z}; echo $x',
    "qbrace_default": "echo ${x:-'}'}",
    "qbrace_nested": "echo ${x:-${y:-'}'}}",
}
WRAPPERS = [
    "%s",
    "if true; then\n%s\nfi",
    "for i in 1 2; do\n%s\ndone",
    "while false; do\n%s\ndone",
    "{\n%s\n}",
    "(\n%s\n)",
    "case $1 in\nx)\n%s\n;;\nesac",
    "if [[ -n $1 ]]; then :; else\n%s\nfi",
]
WRAPPER_WEIGHTS = [1, 1, 2, 2, 3, 3, 6, 6, 7, 7, 4, 5]
NOWRAP = {"semicolon_brace"}
NAMES = ["A", "B", "FOO", "foo_bar", "_x", "PATH2", "x1", "CFLAGS", "E_DEPEND", "T", "D", "PV", "var_with_long_name", "a", "Z9", "USE_x"]
FNAMES = ["f", "g2", "src_compile", "pkg_setup", "_helper", "econf2", "die2", "f-dash", "a.b", "x:y", "foo", "FOO"]


def gen_value(rng):
    k = rng.random()
    if k < 0.08:
        return ""
    n = rng.choice([1, 1, 2, 3, 4, 6])
    return "".join(rng.choice(VALUE_ATOMS) for _ in range(n))


def gen_body(rng, allow_finding):
    parts = []
    keys = []
    for _ in range(rng.choice([1, 1, 2, 2, 3, 4])):
        if allow_finding and rng.random() < 0.04:
            k = rng.choice(sorted(FINDING_ATOMS))
            atom = FINDING_ATOMS[k]
        else:
            k = rng.choice(sorted(BODY_ATOMS))
            atom = BODY_ATOMS[k]
        wi = rng.choice(WRAPPER_WEIGHTS) if (rng.random() < 0.4 and k not in NOWRAP) else 0
        parts.append(WRAPPERS[wi] % atom)
        keys.append(k)
        if wi in (4, 5):
            keys.append("wrap_group" if wi == 4 else "wrap_subshell")
    return "\n".join(parts), keys


def gen_case(rng, allow_finding=True):
    nv = rng.choice([0, 1, 2, 3, 4, 6, 8])
    nf = rng.choice([0, 1, 1, 2, 3, 5])
    if nv + nf == 0:
        nv = 2
    vnames = rng.sample(NAMES, nv)
    fnames = rng.sample(FNAMES, nf)
    vars_ = []
    for n in vnames:
        style = rng.choice(["A", "Q", "q", "p", "A", "Q", "arr"])
        if style == "arr":
            val = [gen_value(rng) for _ in range(rng.randint(0, 3))]
        else:
            val = gen_value(rng)
        vars_.append({"name": n, "style": style, "value": val})
    funcs = []
    atoms = []
    for n in fnames:
        body, keys = gen_body(rng, allow_finding)
        funcs.append({"name": n, "body": body})
        atoms += keys
    # patterns
    allv, allf = vnames, fnames

    def pats(names):
        if not names or rng.random() < 0.25:
            return []
        out = []
        for n in rng.sample(names, rng.randint(1, max(1, len(names) // 2))):
            k = rng.random()
            if k < 0.6:
                out.append(n.replace(".", "\\."))
            elif k < 0.8:
                out.append(n[:1] + ".*")
            else:
                out.append(".*" + n[-1:])
        if rng.random() < 0.15:
            out.append("nomatch[0-9]+")
        return out
    return {"vars": vars_, "funcs": funcs, "vpat": pats(allv), "fpat": pats(allf), "vwl": rng.random() < 0.25, "fwl": rng.random() < 0.25,
            "interleave": rng.random() < 0.2, "atoms": atoms}


def hexlit(s):
    return "$'" + "".join("\\x%02x" % b for b in s.encode("utf-8")) + "'"


def setup_script(case):
    lines = []
    for v in case["vars"]:
        if v["style"] == "arr":
            lines.append("%s=(%s)" % (v["name"], " ".join(hexlit(x) for x in v["value"])))
        else:
            lines.append("%s=%s" % (v["name"], hexlit(v["value"])))
    for f in case["funcs"]:
        lines.append("%s() {\n%s\n}" % (f["name"], f["body"]))
    return "\n".join(lines) + "\n"


def dump_script(case):
    """bash code that prints the dump of the case's definitions the way bash writes them"""
    out = []
    items = []
    for v in case["vars"]:
        n, st = v["name"], v["style"]
        if st == "A":
            items.append('printf "%%s\\n" "${%s@A}"' % n)
        elif st == "Q":
            items.append('printf "%%s=%%s\\n" %s "${%s@Q}"' % (n, n))
        elif st == "q":
            items.append('printf "%%s=%%q\\n" %s "${%s}"' % (n, n))
        elif st == "p":
            items.append('__x=$(declare -p %s); printf "%%s\\n" "${__x#declare -- }"' % n)
        elif st == "arr":
            items.append('__x=$(declare -p %s); printf "%%s\\n" "${__x#declare -a }"' % n)
    fitems = ["declare -f %s" % f["name"] for f in case["funcs"]]
    if case["interleave"]:
        merged = []
        a, b = list(items), list(fitems)
        while a or b:
            if a:
                merged.append(a.pop(0))
            if b:
                merged.append(b.pop(0))
        out = merged
    else:
        out = items + fitems
    return "\n".join(out) + "\n"


def probe_script(case):
    lines = []
    for v in case["vars"]:
        lines.append('echo "@@C34@@ V %s"; declare -p %s 2>/dev/null || echo "@@UNSET@@"' % (v["name"], v["name"]))
    for f in case["funcs"]:
        lines.append('echo "@@C34@@ F %s"; declare -f %s 2>/dev/null || echo "@@UNSET@@"' % (f["name"], f["name"]))
    return "\n".join(lines) + "\n"


BASH = ["bash", "--norc", "--noprofile"]
ENV = {"PATH": "/usr/bin:/bin", "LC_ALL": "C.UTF-8", "HOME": "/nonexistent"}


RUN_DIR = None   # scratch directory the bash helpers run in (half-parsed bodies may create files)


def run_bash(script, timeout=300):
    p = subprocess.run(BASH + ["-c", script], stdin=subprocess.DEVNULL, stdout=subprocess.PIPE, stderr=subprocess.PIPE, env=ENV,
                       timeout=timeout, cwd=RUN_DIR or tempfile.gettempdir())
    return p.returncode, p.stdout, p.stderr


def parse_probe(text):
    out = {}
    cur = None
    for line in text.split("\n"):
        if line.startswith("@@C34@@ "):
            cur = line[8:]
            out[cur] = []
        elif cur is not None:
            out[cur].append(line)
    return {k: "\n".join(v).rstrip("\n") for k, v in out.items()}


class Hang(Exception):
    pass


def _alarm(*a):
    raise Hang()


def real_filter(text, vpat, fpat, vwl, fwl):
    """(status, output text, var names seen, func names seen)"""
    from pkgcore.ebuild import filter_env
    out = io.BytesIO()
    vseen, fseen = [], []
    old = signal.signal(signal.SIGALRM, _alarm)
    signal.alarm(10)
    try:
        filter_env.main_run(out, text, vpat, fpat, vwl, fwl, global_envvar_callback=vseen.append,
                            func_callback=lambda lvl, name, body: fseen.append((lvl, name)))
        status = "ok"
    except Hang:
        status = "hang"
    except IndexError:
        status = "err:index"
    except Exception as e:  # noqa: BLE001
        status = "exc:" + type(e).__name__
    finally:
        signal.alarm(0)
        signal.signal(signal.SIGALRM, old)
    return status, out.getvalue().decode("utf-8", "surrogatepass"), vseen, fseen


def selected(names, pats, whitelist):
    from pkgcore.ebuild import filter_env
    if not pats:
        return None
    m = filter_env.build_regex_string(pats, invert=whitelist).match
    return sorted({n for n in names if m(n)})


def is_subsequence(small, big):
    it = iter(big)
    return all(c in it for c in small)


# ---------------------------------------------------------------- corpus

def _c(vars_=(), funcs=(), vpat=(), fpat=(), vwl=False, fwl=False):
    return {"vars": [{"name": n, "style": s, "value": v} for n, s, v in vars_], "funcs": [{"name": n, "body": b} for n, b in funcs],
            "vpat": list(vpat), "fpat": list(fpat), "vwl": vwl, "fwl": fwl, "interleave": False, "atoms": ["corpus"]}


CORPUS = [
    _c(funcs=[("pre", "echo pre"), ("mid", "cat <<''\nfoo\n\n    :"), ("post", "echo post")], fpat=["mid"]),      # used to hang
    _c(vars_=[("A", "A", "x")], funcs=[("f", "echo ${x:-a} '}'"), ("g", "echo g")], fpat=["f"]),
    _c(vars_=[("A", "Q", "it's"), ("B", "q", "a b}c"), ("C", "p", 'x"y$z`w\\'), ("D", "A", "l1\nl2")], vpat=["B", "D"]),
    _c(vars_=[("A", "A", "}"), ("B", "A", "{"), ("C", "arr", ["}", "x y", ""])], funcs=[("f", "echo '}'")], vpat=["A"], fpat=["f"]),
    _c(vars_=[("A", "A", "1"), ("B", "A", "2"), ("FOO", "A", "3")], vpat=["A", "FOO"], vwl=True),
    _c(funcs=[("f", "echo f"), ("g2", "echo g"), ("foo", "echo foo")], fpat=["f.*"], fwl=True),
    _c(funcs=[("f", "x=${y/'}'/z}; echo $x"), ("g", "echo g")], fpat=["g"]),   # open finding
    _c(funcs=[("f", "cat <<EOF\n}\nEOF"), ("g", "case $1 in a}) : ;; esac")], fpat=["f"]),
]
# raw texts (not produced by bash): boundary cases of the scanner itself
RAW = [
    ("f() { ", [], ["f"]), ("x='", ["x"], []), ("x=\"$", [], []), ("a <<", [], []), ("X=1 #", ["X"], []), ("X=\\", ["X"], []),
    ("function foo() {:;}", [], ["foo"]), ("functionfoo() {:;}", [], ["foo"]), ("f(){\nX=dar foon\n}\nY=dar\nf2(){Z=dar;}\n", ["Y"], ["f2"]),
    ("foo() {\n    :\n}\n\nbar() {\n    :\n}\n", [], ["bar"]), ("A=${B", ["A"], []), ("A=$(", ["A"], []), ("{", [], []), ("$'", [], []),
    ("cat <<''\nfoo\n\nX=1\n", ["X"], []), ("a=1;b=2;c=3\n", ["b"], []), ("a=1 b=2\nc=3\n", ["b"], []), ("", ["a"], ["b"]),
    ("x=`echo }`\ny=2\n", ["x"], []), ("x=(1 2\n3)\ny=2\n", ["x"], []), ("  \t x=1\n", ["x"], []), ("x=1\n#x=2\nx=3", ["x"], []),
]


# ---------------------------------------------------------------- run

def run(ctx):
    rng = ctx.rng
    global RUN_DIR
    scratch = tempfile.mkdtemp(prefix="c34-")
    RUN_DIR = os.path.join(scratch, "cwd")
    os.makedirs(RUN_DIR)
    try:
        cases = [dict(c) for c in CORPUS]
        for _ in range(ctx.n(150, 5000)):
            cases.append(gen_case(rng))
        _run_dumps(ctx, rng, cases, scratch)
        _run_raw(ctx, rng)
    finally:
        shutil.rmtree(scratch, ignore_errors=True)


def _run_dumps(ctx, rng, cases, scratch):
    # ---- step 1: let bash write the dumps (batched)
    B = 40
    for start in range(0, len(cases), B):
        batch = cases[start:start + B]
        script = []
        for i, c in enumerate(batch):
            d = os.path.join(scratch, "c%d" % (start + i))
            c["dir"] = d
            os.makedirs(d)
            with open(os.path.join(d, "setup.sh"), "w") as f:
                f.write(setup_script(c))
            with open(os.path.join(d, "dump.sh"), "w") as f:
                f.write(dump_script(c))
            script.append("( source %s/setup.sh; source %s/dump.sh ) > %s/dump.txt 2> %s/dump.err" % (d, d, d, d))
        run_bash("\n".join(script))
    # ---- step 2: the real filter and the model
    reqs = []
    for c in cases:
        d = c["dir"]
        try:
            text = open(os.path.join(d, "dump.txt"), encoding="utf-8").read()
        except (OSError, UnicodeDecodeError):
            text = None
        c["text"] = text
        if not text or "\0" in text:
            c["skip"] = "bash produced no usable dump: " + open(os.path.join(d, "dump.err"), errors="replace").read()[:120]
            continue
        status, out, vseen, fseen = real_filter(text, c["vpat"], c["fpat"], c["vwl"], c["fwl"])
        c["status"], c["out"], c["vseen"], c["fseen"] = status, out, vseen, fseen
        c["vsel"] = selected(vseen, c["vpat"], c["vwl"])
        c["fsel"] = selected([n for _, n in fseen], c["fpat"], c["fwl"])
        with open(os.path.join(d, "filtered.txt"), "w", encoding="utf-8", errors="surrogatepass") as f:
            f.write(out.replace("\0", ""))
        with open(os.path.join(d, "probe.sh"), "w") as f:
            f.write(probe_script(c))
        reqs.append({"cmd": "c34.run", "data": text, "vars": c["vsel"], "funcs": c["fsel"]})
    live = [c for c in cases if "skip" not in c]
    for c, rep in zip(live, ctx.model(reqs)):
        c["model"] = rep
    # ---- step 3: bash as oracle (batched): source unfiltered / filtered text in a clean shell and report the definitions
    for start in range(0, len(live), B):
        script = []
        for c in live[start:start + B]:
            d = c["dir"]
            script.append("( source %s/dump.txt >/dev/null 2>&1; source %s/probe.sh ) > %s/orig.txt 2>/dev/null" % (d, d, d))
            script.append("( source %s/filtered.txt >/dev/null 2>%s/src.err; source %s/probe.sh ) > %s/got.txt 2>/dev/null" % (d, d, d, d))
        run_bash("\n".join(script))
    # ---- step 4: verdicts
    for c in cases:
        case = {k: c[k] for k in ("vars", "funcs", "vpat", "fpat", "vwl", "fwl", "interleave")}
        if "skip" in c:
            ctx.count("skipped_no_dump")
            ctx.note(c["skip"])
            continue
        text, out, status = c["text"], c["out"], c["status"]
        finding = None
        if any(k in FINDING_ATOMS for k in c["atoms"]) or any("${y/'}'" in f["body"] for f in c["funcs"]):
            finding = FINDING
        elif any(k in ("wrap_group", "wrap_subshell") for k in c["atoms"]):
            finding = FINDING_GROUP
        elif "heredoc_two" in c["atoms"]:
            finding = FINDING_TWO_HEREDOCS
        ndefs = len(c["vars"]) + len(c["funcs"])
        vsel = set(c["vsel"] or [])
        fsel = set(c["fsel"] or [])
        nsel = len([v for v in c["vars"] if v["name"] in vsel]) + len([f for f in c["funcs"] if f["name"] in fsel])
        ctx.case(case, ndefs >= 2 and 0 < nsel < ndefs, key=text + json.dumps([c["vpat"], c["fpat"], c["vwl"], c["fwl"]]))
        ctx.count("nvars_%d" % len(c["vars"]))
        ctx.count("nfuncs_%d" % len(c["funcs"]))
        ctx.count("dump_len_%s" % ("<200" if len(text) < 200 else "<1000" if len(text) < 1000 else ">=1000"))
        for v in c["vars"]:
            ctx.count("style_" + v["style"])
        for k in c["atoms"]:
            ctx.count("atom_" + k)
        if c["vwl"] or c["fwl"]:
            ctx.count("whitelist_mode")
        # the real code must terminate normally
        if status != "ok":
            ctx.violation(case, f"filter_env.main_run did not finish normally on a dump written by bash: {status}")
            continue
        # no stray bytes
        if "\0" in out:
            ctx.violation(case, "the filtered text contains the NUL sentinel")
        if not is_subsequence(out, text):
            ctx.violation(case, "the filtered text is not made of pieces of the input in order")
        # edge A: model
        m = c["model"]
        if isinstance(m, str):
            ctx.mismatch(case, f"Lean model answered {m}, real code finished normally")
        else:
            if m["out"] != out:
                ctx.mismatch(case, "filtered text differs from the Lean model's: " + first_diff(out, m["out"]))
            if m["out"] != m["spec"]:
                ctx.mismatch(case, "Lean model output is not 'input minus the filtered statements': " + first_diff(m["out"], m["spec"]))
            mv = [s[3] for s in m["stmts"] if not s[0]]
            mf = [s[3] for s in m["stmts"] if s[0]]
            if mv != c["vseen"] or mf != [n for lvl, n in c["fseen"] if lvl == 0]:
                ctx.mismatch(case, f"statements recognised differ: real vars {c['vseen']} funcs {c['fseen']}; model vars {mv} funcs {mf}")
        # edge C: bash as oracle
        d = c["dir"]
        orig = parse_probe(open(os.path.join(d, "orig.txt"), errors="replace").read())
        got = parse_probe(open(os.path.join(d, "got.txt"), errors="replace").read())
        problems = []
        for v in c["vars"]:
            key = "V " + v["name"]
            want = "@@UNSET@@" if v["name"] in vsel else orig.get(key)
            if orig.get(key) in (None, "@@UNSET@@"):
                continue   # bash itself could not re-read its own dump of this value
            if got.get(key) != want:
                problems.append(f"variable {v['name']}: expected {want!r}, after sourcing the filtered text {got.get(key)!r}")
        for f in c["funcs"]:
            key = "F " + f["name"]
            want = "@@UNSET@@" if f["name"] in fsel else orig.get(key)
            if orig.get(key) in (None, "@@UNSET@@"):
                continue
            if got.get(key) != want:
                problems.append(f"function {f['name']}: expected {'removed' if want == '@@UNSET@@' else 'unchanged'}, "
                                f"got {(got.get(key) or '')[:80]!r}")
        if problems:
            ctx.violation(case, "; ".join(problems[:3]), finding=finding)
        ctx.traces += 1


def first_diff(a, b):
    i = 0
    while i < min(len(a), len(b)) and a[i] == b[i]:
        i += 1
    return f"at offset {i}: real …{a[max(0, i - 20):i + 30]!r} model …{b[max(0, i - 20):i + 30]!r} (lengths {len(a)}/{len(b)})"


def _run_raw(ctx, rng):
    """texts not written by bash (hand-made and single-edit mutations of dumps): robustness + model agreement only"""
    items = [(t, v, f) for t, v, f in RAW]
    seeds = []
    for _ in range(ctx.n(100, 4000)):
        c = gen_case(rng)
        base = setup_script(c)     # not a bash dump, but the same constructs in source form
        k = rng.random()
        if k < 0.5 and base:
            i = rng.randrange(len(base))
            edit = rng.random()
            if edit < 0.4:
                base = base[:i] + base[i + 1:]
            elif edit < 0.8:
                base = base[:i] + rng.choice(["'", '"', "{", "}", "(", ")", "$", "`", "\\", "#", "<<", "\n", ";", "=", " "]) + base[i:]
            else:
                base = base[:i]
        seeds.append((base, [v["name"] for v in c["vars"]][:2], [f["name"] for f in c["funcs"]][:1]))
    items += seeds
    reqs = []
    reals = []
    for text, vnames, fnames in items:
        text = text.replace("\0", "")
        status, out, vseen, fseen = real_filter(text, vnames, fnames, False, False)
        vsel = selected(vseen, vnames, False)
        fsel = selected([n for _, n in fseen], fnames, False)
        reals.append((text, vnames, fnames, status, out, vseen, fseen))
        reqs.append({"cmd": "c34.run", "data": text, "vars": vsel, "funcs": fsel})
    for (text, vnames, fnames, status, out, vseen, fseen), m in zip(reals, ctx.model(reqs)):
        case = {"raw": text, "vars": vnames, "funcs": fnames}
        ctx.case(case, len(vseen) + len(fseen) >= 1 and out != text, key="raw|" + text + json.dumps([vnames, fnames]))
        ctx.count("raw_" + status)
        if status == "hang":
            ctx.violation(case, "filter_env.main_run does not terminate")
            continue
        if status.startswith("exc"):
            ctx.violation(case, f"filter_env.main_run raised {status}")
            continue
        if status == "err:index":
            if m != "err:index":
                ctx.mismatch(case, f"real code raised IndexError, Lean model answered {str(m)[:80]}")
            continue
        if "\0" in out:
            ctx.violation(case, "the filtered text contains the NUL sentinel")
        if not is_subsequence(out, text):
            ctx.violation(case, "the filtered text is not made of pieces of the input in order")
        if isinstance(m, str):
            ctx.mismatch(case, f"Lean model answered {m}, real code finished normally")
            continue
        if m["out"] != out:
            ctx.mismatch(case, "filtered text differs from the Lean model's: " + first_diff(out, m["out"]))
        elif m["out"] != m["spec"]:
            ctx.mismatch(case, "Lean model output is not 'input minus the filtered statements': " + first_diff(m["out"], m["spec"]))
        mv = [s[3] for s in m["stmts"] if not s[0]]
        mf = [s[3] for s in m["stmts"] if s[0]]
        if mv != vseen or mf != [n for lvl, n in fseen if lvl == 0]:
            ctx.mismatch(case, f"statements recognised differ: real vars {vseen} funcs {fseen}; model vars {mv} funcs {mf}")
