"""C33 — install helpers create exactly the requested image entries (ebd_ipc.py, misc.get_relative_dosym_target)."""
import json
import os
import shutil
import stat
import subprocess
import tempfile

PID = "C33"
LEAN_MODULES = ["Pkgcore.Props.C33"]
OBLIGATIONS = [
    "Pkgcore.C33.relpath_resolves",
    "Pkgcore.C33.relative_target_resolves",
    "Pkgcore.C33.eapi_table_is_pms",
    "Pkgcore.C33.helper_default_modes",
    "Pkgcore.C33.run_frame",
    "Pkgcore.C33.run_ancestors_are_dirs",
    "Pkgcore.C33.run_last_entry",
    "Pkgcore.C33.requested_mode_and_owner",
    "Pkgcore.C33.request_independent_of_history",
    "Pkgcore.C33.basename_install_placement",
    "Pkgcore.C33.directory_needs_recursive",
    "Pkgcore.C33.recursive_install_mirrors_tree",
    "Pkgcore.C33.dohtml_recursive_mirrors_filtered_tree",
    "Pkgcore.C33.recursive_dir_level",
    "Pkgcore.C33.doman_placement",
    "Pkgcore.C33.doman_without_section_rejected",
    "Pkgcore.C33.doman_plan_entries",
    "Pkgcore.C33.domo_placement",
    "Pkgcore.C33.dodir_keepdir_placement",
    "Pkgcore.C33.dosym_placement",
    "Pkgcore.C33.dosym_rejections",
    "Pkgcore.C33.dohard_placement",
    "Pkgcore.C33.dohard_trailing_slash_rejected",
]
TRUSTED = [
    "shlex/argparse parsing of --dest/--insoptions/--diroptions and of -r/-i18n= is not modelled (the model starts from the parsed values); "
    "it is exercised on every correspondence case because the real helpers are driven through IpcCommand.__call__ with option strings",
    "the kernel's path resolution: repeated slashes ignored; '.'/'..' components and symlinked directories inside the image are outside the "
    "model (the model answers 'unmodelled', such cases are counted and skipped)",
    "os.walk order and os.stat/islink/isdir answers are taken from the structural description of the generated source tree",
    "regular expressions detect_lang_re / valid_mandir_re / archive_exts_regex are re-expressed as structural recognisers "
    "(ASCII names without newlines); differential-tested through the real doman on generated names",
    "ownership (-o/-g) is modelled and compared (uid/gid of every image entry) when the run is root — otherwise those options are not "
    "generated and the evidence says so; the kernel's clearing of set-id bits on chown is not modelled (the code chowns before it chmods); "
    "timestamps (-p) are not observed",
    "tables (per-EAPI helper options, archive extensions, helper default modes, dohtml extensions) are regenerated from the imported modules on every run",
    "the bash half (helper scripts computing --dest from into/insinto/exeinto/docinto) is run for real through pkgcore-ipc-helper "
    "with the Python helper answering on the pipe; its result is compared with a PMS destination table kept in this file (not in Lean)",
]
ASSUMPTIONS = [
    "directory modes with the set-group-id bit are not generated: the kernel then hands the directory's group (and the bit) to entries "
    "created below it, which is a property of the file system, not of the helpers, and is not modelled",
    "fallback to the external install(1) command (unparsable mode strings, unknown install options) is property C32's territory and not generated here",
    "source arguments are plain relative names below the working directory; directory arguments are real directories (not symlinks to directories)",
]
RULE = ("random source trees (files, nested directories, symlinks to files/directories, broken links) and sequences of 1-6 helper requests "
        "served by ONE long-lived helper table on one image (as ebd does), half of them the previous request repeated after an "
        "into/insinto/insopts/diropts change (other --dest, other options) or — dosym/dohard — the same link requested again, re-pointed, "
        "or chained from the name just created, the image compared after every request; install options "
        "with set-id/sticky modes and -o/-g (uids/gids 0, 250, 251) "
        "(doins/dodoc/dohtml with and without -r, directory arguments spelled dir, dir/, dir//, ./dir, a//b and dir/. = its contents, doexe/dobin/dosbin/dolib*/doinfo, doman with sections/languages/compression/-i18n, domo, "
        "dodir, keepdir, dosym incl. -r, dohard) over EAPIs 0-8, random --dest, option strings in several spellings and a random umask; "
        "non-trivial = the request names at least one source or link and the image after it has at least two entries, or it is rejected for a PMS reason")
LEVEL_TEXT = ("Kernel-checked Lean 4 theorems about a model of the helpers in two layers (what each helper asks of the file system; what those "
              "operations do to an abstract image): the relative dosym target computed by get_relative_dosym_target resolves to the requested "
              "absolute path for all strings; nothing outside the requested paths and their ancestors changes, ancestors are directories, the last "
              "entry written is the prescribed one; per-helper placement (basename installs, recursive trees, dohtml's argument filters and doc prefix, doman section/language rules, domo, "
              "dodir/keepdir, dosym/dohard) equals an independently written PMS table and the PMS rejections are exactly the rejected requests. "
              "The model is tied to the code by running the real helper classes (through IpcCommand.__call__, with the whole helper table "
              "instantiated as ebd does, under a random umask) on scratch images and comparing image snapshots with the model and with the spec.")
LEVEL_NOTE = ("Partial: timestamps exist only on the real file system; modes and ownership are modelled and compared in the sampled runs (as root); "
              "argument/option parsing and the bash helper scripts are covered by the sampled correspondence only; for recursive installs, dohtml and "
              "dohard with a link name ending in a slash the rejections are proved to coincide (reject iff reject), not their reasons.")

EAPIS = ["0", "1", "2", "3", "4", "5", "6", "7", "8"]
HELPER_CLASSES = [  # order of construction in ebd.py
    ("doins", "Doins"), ("dodoc", "Dodoc"), ("dohtml", "Dohtml"), ("doinfo", "Doinfo"), ("dodir", "Dodir"),
    ("doexe", "Doexe"), ("dobin", "Dobin"), ("dosbin", "Dosbin"), ("dolib", "Dolib"), ("dolib.so", "Dolib_so"),
    ("dolib.a", "Dolib_a"), ("doman", "Doman"), ("domo", "Domo"), ("dosym", "Dosym"), ("dohard", "Dohard"),
    ("keepdir", "Keepdir"),
]
BASENAME_HELPERS = ["doexe", "dobin", "dosbin", "dolib", "dolib.so", "dolib.a", "doinfo"]


# ---------------------------------------------------------------- fakes around the real helper classes

class _Obs:
    def __init__(self):
        self.lines = []

    def warn(self, m):
        self.lines.append(m)

    info = warn

    def write(self, m, **kw):
        self.lines.append(m)

    def flush(self):
        pass


class _Op:
    def __init__(self, pkg, ED):
        self.pkg = pkg
        self.ED = ED
        self.observer = _Obs()
        self.env = {}
        self.domain = None
        self.userpriv = False


class _Ebd:
    def __init__(self, lines):
        self.lines = list(lines)
        self.out = []

    def read(self):
        return self.lines.pop(0) + "\n"

    def write(self, data):
        self.out.append(data)


def make_helpers(eapi, ED, category="cat", pn="pn", slot="0"):
    """the helper table exactly as ebd.py builds it (all helpers instantiated, in that order)"""
    from pkgcore.ebuild import ebd_ipc
    from pkgcore.test.misc import FakePkg
    pkg = FakePkg(f"{category}/{pn}-1", eapi=eapi, slot=slot)
    op = _Op(pkg, ED)
    table = {name: getattr(ebd_ipc, cls)(op) for name, cls in HELPER_CLASSES}
    op._ipc_helpers = table
    return op, table


def call_helper(helper, cwd, options, args, nonfatal=True):
    """drive IpcCommand.__call__ the way the daemon does; returns ('ok', None) | ('reject', msg) | ('internal', repr)"""
    from pkgcore.ebuild import ebd_ipc
    ebd = _Ebd(["true" if nonfatal else "false", cwd, "install", options, "".join(a + "\0" for a in args)])
    try:
        helper(ebd)
    except ebd_ipc.IpcInternalError as e:
        return "internal", repr(e.__cause__)
    except ebd_ipc.IpcCommandError as e:
        return "reject", e.msg
    if len(ebd.out) != 1:
        return "internal", f"{len(ebd.out)} replies"
    r = ebd.out[0]
    if r == 0 or r == "0" or (isinstance(r, str) and r.startswith("0\x07")):
        return "ok", None
    return "reject", str(r).split("\x07", 1)[-1]


REASONS = [
    ("the following arguments are required", "noTargets"),
    ("nonexistent path", "nonexistent"),
    ("is a directory", "isDirectory"),
    ("cannot stat", "cannotStat"),
    ("failed copying file", "copyFailed"),
    ("invalid man page", "invalidManPage"),
    ("missing filename target", "missingLinkName"),
    ("-r not permitted", "relNotPermitted"),
    ("-r is only meaningful", "relNeedsAbs"),
    ("failed creating", "oserror"),
    ("failed removing", "oserror"),
    ("failed setting", "oserror"),
    ("are identical", "oserror"),
]


def reason_of(msg):
    for needle, r in REASONS:
        if needle in msg:
            return r
    return "other:" + msg[:60]


def snapshot(root, ids):
    """[[path, kind, mode, id-or-text]] sorted; file identity from its content"""
    out = []
    for dp, dn, fn in os.walk(root):
        for n in dn + fn:
            p = os.path.join(dp, n)
            st = os.lstat(p)
            rel = os.path.relpath(p, root)
            if stat.S_ISLNK(st.st_mode):
                out.append([rel, "l", 0, os.readlink(p), st.st_uid, st.st_gid])
            elif stat.S_ISDIR(st.st_mode):
                out.append([rel, "d", st.st_mode & 0o7777, "", st.st_uid, st.st_gid])
            else:
                data = open(p, "rb").read()
                out.append([rel, "f", st.st_mode & 0o7777, ids.get(data, -1) if data else 0, st.st_uid, st.st_gid])
    return sorted(out)


# ---------------------------------------------------------------- tables

def gen_tables(repo):
    from pkgcore.ebuild import ebd_ipc
    from pkgcore.ebuild.eapi import get_eapi
    scratch = tempfile.mkdtemp(prefix="c33tab")
    try:
        def b(x):
            return "true" if x else "false"
        rows = []
        for m in EAPIS:
            e = get_eapi(m)
            o = e.options
            exts = ", ".join(json.dumps(x) for x in sorted(e.archive_exts))
            rows.append(f'  ⟨"{m}", {b(o.dodoc_allow_recursive)}, {b(o.doman_language_detect)}, {b(o.doman_language_override)}, '
                        f'{b(o.dosym_relative)}, {b(o.unpack_case_insensitive)}, [{exts}]⟩')
        # helper default modes, obtained by letting the real parsers digest a minimal request
        os.makedirs(os.path.join(scratch, "w"))
        open(os.path.join(scratch, "w", "f"), "w").close()
        hrows = []
        for name, cls in HELPER_CLASSES:
            def modes(extra):
                op, table = make_helpers("7", os.path.join(scratch, "ED") + "/")
                h = table[name]
                h.opts = ebd_ipc.arghparse.Namespace()
                args = {"dodir": ["x"], "keepdir": ["x"], "dosym": ["a", "b"], "dohard": ["a", "b"]}.get(name, ["f"])
                cwd = os.getcwd()
                os.chdir(os.path.join(scratch, "w"))
                try:
                    h.parse_args(["--dest=/x"] + extra, args)
                finally:
                    os.chdir(cwd)
                im = getattr(h.insoptions, "mode", None) if h.insoptions else None
                dm = getattr(h.diroptions, "mode", None) if h.diroptions else None
                io = getattr(h.insoptions, "owner", -1) if h.insoptions else -1
                ig = getattr(h.insoptions, "group", -1) if h.insoptions else -1
                return im, dm, (None if io == -1 else io), (None if ig == -1 else ig)
            im, dm, io, ig = modes([])
            im2 = modes(["--insoptions=-m0604"])[0]
            forced = im2 != 0o604

            def opt(x):
                return "none" if x is None else f"some {x}"
            hrows.append(f'  ⟨"{name}", {opt(im)}, {opt(dm)}, {b(forced)}, {opt(io)}, {opt(ig)}⟩')
        html = ", ".join(json.dumps(x) for x in ebd_ipc.Dohtml.default_allowed_file_exts)
    finally:
        shutil.rmtree(scratch, ignore_errors=True)
    text = ("-- GENERATED from /repo by harness/props/c33.py (gen_tables); do not edit\n"
            "namespace Pkgcore.Generated.C33\n"
            "structure EapiRow where\n  magic : String\n  dodocAllowRecursive : Bool\n  domanDetect : Bool\n  domanOverride : Bool\n"
            "  dosymRelative : Bool\n  unpackCI : Bool\n  archiveExts : List String\n"
            "structure HelperRow where\n  name : String\n  insMode : Option Nat\n  dirMode : Option Nat\n  forcedIns : Bool\n"
            "  insOwner : Option Nat\n  insGroup : Option Nat\n"
            "def eapis : List EapiRow := [\n" + ",\n".join(rows) + "]\n"
            "def helpers : List HelperRow := [\n" + ",\n".join(hrows) + "]\n"
            f"def dohtmlDefaultExts : List String := [{html}]\n"
            "end Pkgcore.Generated.C33\n")
    return {"Pkgcore/Generated/C33Tables.lean": text}


# ---------------------------------------------------------------- generators

NAMES = ["a", "b.txt", "lib.so", "x.html", "y.png", "README", "foo.1", "main.c", "z-9", "tool", ".hid", "n.tar.gz", "UP.TXT"]
DIRNAMES = ["d", "sub", "docs", "inc", "e.d", "html"]
DESTS = ["/usr/share/x", "/usr/bin", "", "/", "opt//t/", "/usr/share/doc/pn-1", "etc/conf.d", "/usr/lib64", "/a/b/c/d"]
MAN_STEMS = ["foo", "apt-get", "a.b", "x_y", "Foo9", ".hid", "", "foo.de", "lib.so"]
MAN_LANGS = ["de", "pt_BR", "fr", "ptBR", "d", "deu", "en_gb", "EN", "zh_CN", "de_D", "de_", "_DE"]
MAN_SECS = ["1", "3", "8", "n", "3pm", "1p", "5f", "0", "9x", "l", "", "10", "1.gz", "3.bz2", "n.Z", "1.GZ", "1.xz", "1.zip", "gz", "3pm.gz", "1pq"]


class TreeGen:
    """a scratch working directory with a random tree; `describe` gives the node JSON of a path"""

    def __init__(self, rng, root):
        self.rng = rng
        self.root = root
        self.next_id = 1
        self.ids = {}      # content bytes -> id
        self.nodes = {}    # relative path -> node json
        os.makedirs(root)

    def new_file(self, rel):
        i = self.next_id
        self.next_id += 1
        data = ("content-%d\n" % i).encode()
        with open(os.path.join(self.root, rel), "wb") as f:
            f.write(data)
        os.chmod(os.path.join(self.root, rel), self.rng.choice([0o644, 0o600, 0o755, 0o640]))
        self.ids[data] = i
        return {"t": "file", "id": i}

    def new_link(self, rel, text, kind):
        os.symlink(text, os.path.join(self.root, rel))
        return {"t": "link", "text": text, "kind": kind}

    def fill(self, rel, depth):
        """populate directory `rel` ('' = root); returns kids list [[name, node]] in os.listdir-independent form"""
        rng = self.rng
        kids = []
        names = rng.sample(NAMES, rng.randint(1 if depth else 3, 5 if depth else 8))
        files = []
        for n in names:
            p = os.path.join(rel, n)
            kids.append([n, self.new_file(p)])
            files.append(n)
        subdirs = []
        if depth < 2:
            for n in rng.sample(DIRNAMES, rng.randint(0 if depth else 1, 2)):
                p = os.path.join(rel, n)
                os.mkdir(os.path.join(self.root, p))
                kids.append([n, {"t": "dir", "kids": self.fill(p, depth + 1)}])
                subdirs.append(n)
        r = rng.random()
        if r < 0.35 and files:
            kids.append(["lnk", self.new_link(os.path.join(rel, "lnk"), rng.choice(files), "file")])
        if r > 0.75 and subdirs:
            kids.append(["dlnk", self.new_link(os.path.join(rel, "dlnk"), rng.choice(subdirs), "dir")])
        if 0.5 < r < 0.56:
            kids.append(["dead", self.new_link(os.path.join(rel, "dead"), "nowhere", "broken")])
        return kids

    def build(self):
        self.top = self.fill("", 0)
        self.index("", self.top)

    def index(self, rel, kids):
        for n, node in kids:
            p = os.path.join(rel, n)
            self.nodes[p] = node
            if node["t"] == "dir":
                self.index(p, node["kids"])

    def add_named_files(self, names):
        """extra top-level files with given names (man pages, .mo files)"""
        out = []
        for n in names:
            if n in self.nodes or "/" in n or n in ("", ".", ".."):
                continue
            self.nodes[n] = self.new_file(n)
            out.append(n)
        return out

    def order_like_walk(self):
        """make kids order irrelevant: the model's result does not depend on it, nothing to do"""

    def describe(self, rel):
        key = os.path.normpath(rel)
        return self.nodes.get(key, {"t": "missing"})

    def paths(self, pred):
        return sorted(p for p, n in self.nodes.items() if pred(p, n))


NOT_PRESENT = {"present": False, "empty": False, "mode": None, "owner": None, "group": None}
IS_ROOT = os.geteuid() == 0
IDS = [0, 0, 250, 251]


def spell_mode(rng, m):
    o = "%o" % m
    return rng.choice(["-m0%s" % o, "-m%s" % o, "-m 0%s" % o, "--mode=0%s" % o, "--mode 0%s" % o, "-m0%s -p" % o, "-p -m0%s" % o])


def spell_id(rng, flag, long, i):
    name = "root" if i == 0 and rng.random() < 0.4 else str(i)
    return rng.choice(["-%s%s" % (flag, name), "-%s %s" % (flag, name), "--%s=%s" % (long, name), "--%s %s" % (long, name)])


def gen_raw(rng, p_present=0.7, files=True):
    """(option value or None, RawOpts json); ownership options only when the run can chown (root)"""
    if rng.random() > p_present:
        return None, dict(NOT_PRESENT)
    k = rng.random()
    if k < 0.08:
        return "", {"present": True, "empty": True, "mode": None, "owner": None, "group": None}
    parts = []
    raw = {"present": True, "empty": False, "mode": None, "owner": None, "group": None}
    if k < 0.16:
        parts.append("-p")
    else:
        modes = [0o644, 0o755, 0o600, 0o700, 0o444, 0o750, 0o4755, 0o664, 0o2755, 0o6755, 0o4711, 0o2750] if files else \
                [0o755, 0o700, 0o750, 0o1777, 0o775, 0o1770, 0o711, 0o751]
        raw["mode"] = rng.choice(modes)
        parts.append(spell_mode(rng, raw["mode"]))
    if IS_ROOT and rng.random() < 0.45:
        if rng.random() < 0.7:
            raw["owner"] = rng.choice(IDS)
            parts.append(spell_id(rng, "o", "owner", raw["owner"]))
        if rng.random() < 0.7:
            raw["group"] = rng.choice(IDS)
            parts.append(spell_id(rng, "g", "group", raw["group"]))
    rng.shuffle(parts)
    return " ".join(parts), raw


def opt_string(dest, ins, dirs):
    parts = []
    if dest is not None:
        parts.append('--dest="%s"' % dest)
    if ins is not None:
        parts.append('--insoptions="%s"' % ins)
    if dirs is not None:
        parts.append('--diroptions="%s"' % dirs)
    return " ".join(parts)


def spell_dir(rng, d):
    """a directory argument in one of the spellings ebuilds use: dir, dir/, dir//, ./dir, a//b and — meaning "the contents of
    dir" — dir/. , dir/./ , dir//. (the last component `.` names the directory itself, no dir/ level is created)"""
    if rng.random() < 0.15:
        d = d.replace("/", rng.choice(["//", "/./"]))
    if rng.random() < 0.12:
        d = "./" + d
    return d + rng.choice(["", "", "", "/", "//", "/.", "/.", "/./", "//.", "/.//"])


def dir_spelling(arg):
    a = arg.rstrip("/")
    return ("dirarg_dot" if a.endswith("/.") else "dirarg_trailing_slash" if a != arg else "dirarg_plain") + \
           ("_inner" if "//" in a or "/./" in a or a.startswith("./") else "")


def gen_request(rng, tree, eapi, image_paths):
    """one helper request: (json for the driver, helper name, option string, argv) ; paths relative to tree.root"""
    kind = rng.choice(["doins", "doins", "dodoc", "dohtml", "basename", "basename", "doman", "doman", "domo",
                       "dodir", "keepdir", "dosym", "dosym", "dohard"])
    if image_paths and rng.random() < 0.12:
        kind = "dohard"      # needs an image entry to link to: rarely useful as a first request
    ins_s, ins = gen_raw(rng)
    dir_s, dirs = gen_raw(rng, 0.5, files=False)
    dest = rng.choice(DESTS)
    files = tree.paths(lambda p, n: n["t"] == "file")
    top_files = [p for p in files if "/" not in p]
    dirs_top = tree.paths(lambda p, n: n["t"] == "dir")
    links = tree.paths(lambda p, n: n["t"] == "link" and n["kind"] != "dir")
    req = {"eapi": eapi, "dest": dest, "ins": ins, "dir": dirs, "kind": kind}

    def targets(args):
        return [{"arg": a, "node": tree.describe(a)} for a in args]

    if kind in ("doins", "dodoc", "dohtml", "basename"):
        name = kind if kind != "basename" else rng.choice(BASENAME_HELPERS)
        req["name"] = name
        k = rng.randint(1, 4)
        args = rng.sample(files, min(k, len(files)))
        if links and rng.random() < 0.3:
            args.append(rng.choice(links))
        want_dir = rng.random() < (0.55 if kind != "basename" else 0.08)
        if want_dir and dirs_top:
            d = rng.choice(dirs_top)
            args.insert(rng.randint(0, len(args)), spell_dir(rng, d))
            if rng.random() < 0.2 and len(dirs_top) > 1:
                args.append(spell_dir(rng, rng.choice(dirs_top)))
        if rng.random() < 0.04:
            args.append("no-such-file")
        if rng.random() < 0.03:
            args = []
        if rng.random() < 0.15 and args:
            args[0] = "./" + args[0]
        argv = list(args)
        recursive = kind != "basename" and rng.random() < 0.6
        if kind != "basename":
            req["recursive"] = recursive
            if recursive:
                argv.insert(0, "-r")
        if kind == "dohtml":
            a = rng.choice([[], [], ["txt", "c"], ["html"]])
            A = rng.choice([[], [], ["txt"], ["1", "so"]])
            f = rng.choice([[], [], ["README", "tool"]])
            x = rng.choice([[], [], [d for d in dirs_top[:1]]])
            p = rng.choice(["", "", "sub", "/pre/fix"])
            req.update({"a": a, "A": A, "f": f, "x": x, "p": p})
            pre = []
            if a:
                pre += ["-a", ",".join(a)]
            if A:
                pre += ["-A", ",".join(A)]
            if f:
                pre += ["-f", ",".join(f)]
            if x:
                pre += ["-x", ",".join(x)]
            if p:
                pre += ["-p", p]
            argv = pre + argv
        req["targets"] = targets(args)
        if name in ("dobin", "dosbin"):
            pass
        return req, name, opt_string(dest, ins_s, dir_s), argv
    if kind == "doman":
        req["name"] = "doman"
        names = []
        for _ in range(rng.randint(1, 4)):
            stem = rng.choice(MAN_STEMS)
            parts = [stem]
            if rng.random() < 0.5:
                parts.append(rng.choice(MAN_LANGS))
            parts.append(rng.choice(MAN_SECS if rng.random() < 0.5 else MAN_SECS[:6]))
            names.append(".".join(parts) if rng.random() < 0.93 else stem)
        made = tree.add_named_files(names)
        args = made or ["foo.1"]
        if not made:
            tree.add_named_files(["foo.1"])
        if rng.random() < 0.1 and dirs_top:
            args.append(dirs_top[0])
        i18n = rng.choice(["", "", "", "fr", "pt_BR", "x/y"])
        req["i18n"] = i18n
        req["targets"] = targets(args)
        argv = ([rng.choice(["-i18n=" + i18n, "-i18n=" + i18n, "-i18n " + i18n]).split(" ")] if i18n else [[]])[0] + args
        dest = rng.choice(["/usr/share/man", "/usr/share/man", dest])
        req["dest"] = dest
        if rng.random() < 0.7:
            ins_s, req["ins"] = None, dict(NOT_PRESENT)
        if rng.random() < 0.7:
            dir_s, req["dir"] = None, dict(NOT_PRESENT)
        return req, "doman", opt_string(dest, ins_s, dir_s), argv
    if kind == "domo":
        req["name"] = "domo"
        pn = "pn"
        names = rng.sample(["de.mo", "pt_BR.mo", "fr.gmo", "x", "sr@latin.mo", ".mo", "a.b.mo"], rng.randint(1, 3))
        made = tree.add_named_files(names) or tree.add_named_files(["de.mo"]) or ["de.mo"]
        req["pn"] = pn
        req["targets"] = targets(made)
        dest = rng.choice(["/usr/share/locale", dest])
        req["dest"] = dest
        if rng.random() < 0.7:
            ins_s, req["ins"] = None, dict(NOT_PRESENT)
        req["dir"] = dict(NOT_PRESENT)
        return req, "domo", opt_string(dest, ins_s, None), list(made)
    if kind in ("dodir", "keepdir"):
        req["name"] = kind
        ds = [rng.choice(["/usr/x/y", "var/z", "/etc", "/a/b/c/d/e", "opt//t/", "/usr/share/x", "k", "/usr/bin/"] + image_paths[:6])
              for _ in range(rng.randint(1, 3))]
        ds = [("/" + d if rng.random() < 0.5 and not d.startswith("/") else d) for d in ds]
        req["dirs"] = ds
        req["dest"] = "/"
        req["category"], req["pn"], req["slot"] = "cat", "pn", "0"
        req["ins"] = dict(NOT_PRESENT)
        return req, kind, opt_string(None, None, dir_s), ds
    if kind == "dosym":
        req["name"] = "dosym"
        relative = rng.random() < 0.5
        src = rng.choice(["/usr/bin/a", "../lib/x", "a", "/usr/lib64", "/opt/t/tool", "/usr/../a//b/./c", "/", "//usr/x", "rel/path"])
        if relative and rng.random() < 0.85 and not src.startswith("/"):
            src = "/" + src
        tgt = rng.choice(["/usr/lib/b", "/usr/lib", "lnk2", "/usr/lib/", "a/b/c/l", "/opt/t/x/y/z", "/usr/bin/tool", "x/../y/l"] + image_paths[:8])
        if tgt.count("..") and rng.random() < 0.7:
            tgt = "/usr/share/x/l"
        req.update({"source": src, "target": tgt, "relative": relative, "dest": "/", "ins": dict(NOT_PRESENT), "dir": dict(NOT_PRESENT)})
        argv = (["-r"] if relative else []) + [src, tgt]
        if rng.random() < 0.03:
            argv = argv[:-1]
            return None, "dosym-missing-arg", "", argv
        return req, "dosym", "", argv
    if kind == "dohard":
        req["name"] = "dohard"
        cand = [p for p in image_paths if p] or ["usr/bin/a"]
        src = rng.choice(cand + ["nonexistent/file"])
        if rng.random() < 0.6:
            src = "/" + src
        tgt = rng.choice(["/usr/bin/hl", "hl2", "/new/dir/hl", "/usr/lib/"] + cand[:3])
        req.update({"source": src, "target": tgt, "dest": "/", "ins": dict(NOT_PRESENT), "dir": dict(NOT_PRESENT)})
        return req, "dohard", "", [src, tgt]
    raise AssertionError(kind)


def vary_request(rng, tree, eapi, prev, image_paths):
    """the previous request once more — same helper, same arguments — after an `into`/`insinto`/`insopts`/`diropts`
    change: another --dest and other install options (what a helper does must not depend on its earlier requests)"""
    req, name, options, argv = prev
    kind = req["kind"]
    if kind in ("dosym", "dohard"):
        # the same link requested again (a helper loop run twice, eclass and ebuild both creating it), the same link name
        # re-pointed to another source, or the name just created used as the source of the next link
        k = rng.random()
        new = json.loads(json.dumps(req))
        files = [p for p in image_paths if p]
        if k < 0.45:
            pass
        elif k < 0.7:
            new["source"] = rng.choice(["/usr/bin/a", "../lib/x", "/opt/t/tool"]) if kind == "dosym" else \
                rng.choice(["", "/"]) + rng.choice(files or ["usr/bin/a"])
        elif k < 0.9:
            new["source"] = req["target"] if kind == "dohard" or not req.get("relative") else "/" + req["target"].lstrip("/")
            new["target"] = rng.choice(["/usr/bin/hl", "hl2", "/usr/lib/b", "lnk2"] + [p for p in files[:4]])
        else:
            return gen_request(rng, tree, eapi, image_paths)
        nargv = (["-r"] if new.get("relative") else []) + [new["source"], new["target"]]
        return new, name, options, nargv
    new = json.loads(json.dumps(req))
    ins_s, ins = gen_raw(rng, 0.75)
    dir_s, dirs = gen_raw(rng, 0.6, files=False)
    if kind in ("dodir", "keepdir"):
        new["dir"] = dirs
        return new, name, opt_string(None, None, dir_s), list(argv)
    dest = rng.choice([d for d in DESTS + ["/usr/share/man", "/usr/share/locale", "/opt/t/share/man"] if d != req["dest"]])
    if rng.random() < 0.25:
        dest = req["dest"]
    new["dest"], new["ins"], new["dir"] = dest, ins, dirs
    return new, name, opt_string(dest, ins_s, dir_s), list(argv)


# ---------------------------------------------------------------- dosym -r pairs

def lexical_resolve(p):
    st = []
    for c in p.split("/"):
        if c in ("", "."):
            continue
        if c == "..":
            if st:
                st.pop()
        else:
            st.append(c)
    return st


def gen_abs_path(rng, allow_rel=False):
    comps = []
    for _ in range(rng.randint(0, 6)):
        comps.append(rng.choice(["a", "b", "usr", "lib", "x y", "..", ".", "", "lib64", "é", "..", "...", ".a", "a."]))
    s = "/".join(comps)
    lead = rng.choice(["/", "/", "/", "//", "///"]) if not allow_rel or rng.random() < 0.6 else ""
    return lead + s + rng.choice(["", "", "/", "//"])


REL_CORPUS = [
    ("/usr/bin/a", "/usr/lib/q/b"), ("/foo", "/foo/bar/baz"), ("/fo . o/b ar", "/baz / qu .. ux/qu x"),
    ("/", "/a"), ("/", "/"), ("/a", "a"), ("/a/b", "b"), ("//a", "/b/c"), ("/a/../..", "x/y/../z"), ("/a/b/c", "/a/b/c"),
    ("/a/b/c", "/a/b/c/"), ("/a/b", "/a/b/c/d/e"), ("/x", "//y/z"), ("/.", "/./././l"), ("/a//b", "///c//d"),
    ("/usr/../a//b/./c", "x/../y/z"), ("/a/b/c/d", "/a/b/x/y/l"), ("/a", ""), ("/..", "../../l"),
]


# ---------------------------------------------------------------- bash half: --dest computed by the helper scripts

def pms_dest(helper, eapi, into, insinto, exeinto, docinto, libdir, pf):
    """destination directory PMS prescribes (DESTTREE etc. already applied); None = not checked"""
    e = int(eapi)
    if helper == "dobin":
        return into + "/bin"
    if helper == "dosbin":
        return into + "/sbin"
    if helper in ("dolib", "dolib.so", "dolib.a"):
        return into + "/" + libdir
    if helper == "doins":
        return insinto
    if helper == "doexe":
        return exeinto
    if helper == "dodoc":
        return "/usr/share/doc/" + pf + "/" + docinto
    if helper == "doinfo":
        return "/usr/share/info"
    if helper == "doman":
        return "/usr/share/man"
    if helper == "domo":
        return (into + "/share/locale") if e < 7 else "/usr/share/locale"
    if helper == "doconfd":
        return "/etc/conf.d"
    if helper == "doenvd":
        return "/etc/env.d"
    if helper == "doinitd":
        return "/etc/init.d"
    if helper == "doheader":
        return "/usr/include"
    return None


def run_bash_helper(repo, eapi_obj, helper, args, env_extra, cwd, table, timeout=20):
    """run the real helper script through pkgcore-ipc-helper; answer its IPC request with the real Python helper.
    returns (exit status, ipc command name, option string seen, reply)"""
    ebd_path = repo
    r_req, w_req = os.pipe()   # bash -> python
    r_rep, w_rep = os.pipe()   # python -> bash
    paths = list(eapi_obj.helpers.get("global", ())) + list(eapi_obj.helpers.get("src_install", ()))
    script = None
    for d in list(eapi_obj.helpers.get("src_install", ())):
        if os.path.exists(os.path.join(d, helper)):
            script = os.path.join(d, helper)
            break
    if script is None:
        return None
    env = dict(eapi_obj.ebd_env)
    env.update({"PATH": os.pathsep.join(paths + ["/usr/bin", "/bin"]), "PKGCORE_EBD_PATH": ebd_path,
                "PKGCORE_EBD_READ_FD": str(r_rep), "PKGCORE_EBD_WRITE_FD": str(w_req), "EBUILD_PHASE": "install",
                "PKGCORE_NONFATAL": "true", "PKGCORE_PREFIX_SUPPORT": "false", "HOME": cwd, "LC_ALL": "C"})
    env.update(env_extra)
    proc = subprocess.Popen(["bash", os.path.join(ebd_path, "helpers", "common", "pkgcore-ipc-helper"), script] + args,
                            cwd=cwd, env=env, pass_fds=(r_rep, w_req), stdout=subprocess.PIPE, stderr=subprocess.PIPE)
    os.close(r_rep)
    os.close(w_req)
    seen = {}
    try:
        with os.fdopen(r_req, "r", newline="\n") as rf, os.fdopen(w_rep, "w") as wf:
            line = rf.readline()
            if line:
                name = line.rstrip("\n")
                seen["cmd"] = name

                class Pipe:
                    def __init__(s):
                        s.n = 0

                    def read(s):
                        l = rf.readline()
                        s.n += 1
                        if s.n == 4:
                            seen["options"] = l.rstrip("\n")
                        return l

                    def write(s, data):
                        seen["reply"] = data
                        wf.write(str(data) + "\n")
                        wf.flush()
                if name in table:
                    try:
                        table[name](Pipe())
                    except Exception as e:   # fatal IPC error: the daemon would die; tell bash
                        seen["reply"] = "EXC %r" % (e,)
                        wf.write("1\x07internal\n")
                        wf.flush()
        out, err = proc.communicate(timeout=timeout)
    finally:
        if proc.poll() is None:
            proc.kill()
    return proc.returncode, seen.get("cmd"), seen.get("options"), seen.get("reply"), err.decode("utf-8", "replace")[-300:]


# ---------------------------------------------------------------- run

def run(ctx):
    from pkgcore.ebuild import misc
    from pkgcore.ebuild.eapi import get_eapi
    rng = ctx.rng
    base = tempfile.mkdtemp(prefix="c33-")
    old_umask = os.umask(0o022)
    os.umask(old_umask)
    try:
        _run_rel(ctx, rng, misc)
        _run_man_names(ctx, rng)
        _run_sequences(ctx, rng, base)
        _run_bash(ctx, rng, base, get_eapi)
    finally:
        os.umask(old_umask)
        shutil.rmtree(base, ignore_errors=True)


def _run_rel(ctx, rng, misc):
    pairs = list(REL_CORPUS)
    for _ in range(ctx.n(1500, 60000)):
        pairs.append((gen_abs_path(rng), gen_abs_path(rng, allow_rel=True)))
    if not ctx.quick():
        comps = ["a", "b", "..", ".", ""]
        import itertools
        small = ["/" + "/".join(c) for k in range(0, 4) for c in itertools.product(comps, repeat=k)]
        small = list(dict.fromkeys(small))
        for s in small:
            for t in small[::3]:
                pairs.append((s, t))
                pairs.append((s, t.lstrip("/")))
        ctx.extra["exhaustive_relpath_pairs"] = len(small) * len(small[::3]) * 2
    reps = ctx.model([{"cmd": "c33.rel", "source": s, "target": t} for s, t in pairs])
    for (s, t), rep in zip(pairs, reps):
        case = {"dosym_r": [s, t]}
        try:
            impl = misc.get_relative_dosym_target(s, t)
        except Exception as e:
            ctx.violation(case, f"get_relative_dosym_target raised {type(e).__name__}: {e}")
            continue
        link_dir = os.path.join("/", os.path.dirname(t))
        via = lexical_resolve(link_dir + "/" + impl)
        want = lexical_resolve(s)
        ctx.case(case, via != [] and len(want) >= 1 and impl != ".", key="rel|%s|%s" % (s, t))
        ctx.count("rel_up_%d" % min(impl.split("/").count(".."), 4))
        if via != want:
            ctx.violation(case, f"relative link text {impl!r} placed in {link_dir!r} resolves to /{'/'.join(via)}, requested /{'/'.join(want)}")
        if rep == "bad-op" or rep == "err":
            ctx.mismatch(case, f"driver answered {rep}")
            continue
        if rep["rel"] != impl:
            ctx.mismatch(case, f"get_relative_dosym_target gives {impl!r}, Lean model gives {rep['rel']!r}")
        if rep["source"] != want or rep["via"] != rep["source"]:
            ctx.mismatch(case, f"Lean spec resolution differs: source {rep['source']} via {rep['via']} python {want}")


def _run_man_names(ctx, rng):
    """model vs spec on a wide set of man page names (cheap; the real doman is exercised in the sequences)"""
    reqs = []
    names = []
    for stem in MAN_STEMS + ["a..b", "..", "a.", "x.y.z"]:
        for lang in [None] + MAN_LANGS:
            for sec in MAN_SECS:
                n = ".".join([stem] + ([lang] if lang is not None else []) + [sec])
                names.append(n)
    names += MAN_STEMS
    names = list(dict.fromkeys(names))
    if ctx.quick():
        names = rng.sample(names, 600)
    for n in names:
        e = rng.choice(EAPIS)
        i18n = rng.choice(["", "", "fr", "pt_BR"])
        reqs.append({"cmd": "c33.man", "eapi": e, "i18n": i18n, "arg": rng.choice(["", "sub/", "./"]) + n})
    for r, rep in zip(reqs, ctx.model(reqs)):
        case = {"man_name": r["arg"], "eapi": r["eapi"], "i18n": r["i18n"]}
        if rep in ("bad-op", "err"):
            ctx.mismatch(case, f"driver answered {rep}")
            continue
        ctx.count("man_model_" + ("placed" if rep["model"] else "invalid"))
        if rep["model"] != rep["spec"]:
            ctx.mismatch(case, f"Lean model of Doman places {rep['model']}, Lean PMS table says {rep['spec']}")
    ctx.evaluations += len(reqs)


def _run_sequences(ctx, rng, base):
    nseq = ctx.n(300, 12000)
    if not IS_ROOT:
        ctx.note("not running as root: -o/-g install options (ownership) are not exercised")
    batches = []
    corpus = list(SEQ_CORPUS) + (list(ROOT_CORPUS) if IS_ROOT else [])
    for i in range(nseq + len(corpus)):
        eapi = rng.choice(EAPIS)
        um = rng.choice([0o022, 0o022, 0o027, 0o077, 0o002])
        W = os.path.join(base, "w%d" % i)
        ED = os.path.join(base, "e%d" % i) + "/"
        os.makedirs(ED)
        tree = TreeGen(rng, W)
        tree.build()
        op, table = make_helpers(eapi, ED)
        impl_results = []
        reqs = []
        image_paths = []
        scripted = corpus[i] if i < len(corpus) else None
        nreq = len(scripted) if scripted else rng.choice([1, 2, 3, 4, 5, 6])
        prev = None
        for k in range(nreq):
            if scripted:
                req, name, options, argv = scripted[k](tree, eapi)
            elif prev is not None and prev[0] is not None and rng.random() < 0.5:
                req, name, options, argv = vary_request(rng, tree, eapi, prev, image_paths)
            else:
                req, name, options, argv = gen_request(rng, tree, eapi, image_paths)
            if req is not None and name in ("dosym", "dohard"):
                existing = os.path.normpath(req["target"].strip("/") or ".") in image_paths
                same = prev is not None and prev[0] is not None and prev[1] == name and prev[3] == argv
                ctx.count("%s_link_name_%s" % (name, "requested_twice" if same else "exists" if existing else "new"))
            prev = (req, name, options, argv)
            os.umask(um)
            try:
                status, msg = call_helper(table[name.split("-")[0]], W, options, argv)
            finally:
                os.umask(0o022)
            snap = snapshot(ED, tree.ids)
            impl_results.append((req, name, options, argv, status, msg, snap))
            if req is None:
                break
            reqs.append(req)
            image_paths = [e[0] for e in snap]
            if status != "ok":
                break
        batches.append((eapi, um, impl_results, reqs))
        shutil.rmtree(W, ignore_errors=True)
        shutil.rmtree(ED, ignore_errors=True)
    model_reqs = [{"cmd": "c33.seq", "umask": {"dir": 0o777 & ~um, "file": 0o666 & ~um, "uid": os.geteuid(), "gid": os.getegid()},
                   "reqs": reqs}
                  for _, um, _, reqs in batches]
    replies = ctx.model([r for r in model_reqs if r["reqs"]])
    it = iter(replies)
    for (eapi, um, impl_results, reqs), mr in zip(batches, model_reqs):
        rep = next(it) if mr["reqs"] else []
        for idx, (req, name, options, argv, status, msg, snap) in enumerate(impl_results):
            case = {"eapi": eapi, "umask": "%03o" % um, "helper": name, "options": options, "argv": argv, "step": idx,
                    "request": req}
            if req is None:   # argument-count rejection handled by argparse only
                ctx.case(case, True, key=json.dumps([name, argv]))
                if status != "reject":
                    ctx.violation(case, f"{name}: a missing link name was not rejected ({status} {msg})")
                continue
            if rep in ("bad-op", "err") or idx >= len(rep):
                ctx.mismatch(case, f"driver answered {rep if isinstance(rep, str) else 'too few results'}")
                break
            r = rep[idx]
            impl_reason = None if status == "ok" else (reason_of(msg) if status == "reject" else "internal")
            ctx.count("helper_" + name)
            for t in req.get("targets", []):
                if t["node"].get("t") == "dir":
                    ctx.count(dir_spelling(t["arg"]) + ("_r" if req.get("recursive") else "_nor"))
            ctx.count("eapi_" + eapi)
            ctx.count("umask_%03o" % um)
            ctx.count("impl_" + (impl_reason or "ok").split(":")[0])
            if "unmodelled" in (str(r.get("model")), str(r.get("spec"))) or "reject:unmodelled" in (r.get("model"), r.get("spec")):
                ctx.count("skipped_unmodelled")
                break
            nontriv = (status == "ok" and len(snap) >= 2) or (impl_reason in ("isDirectory", "invalidManPage", "missingLinkName",
                                                                               "relNotPermitted", "relNeedsAbs", "noTargets"))
            ctx.case(case, nontriv, key=json.dumps([eapi, um, name, options, argv, idx, snap], sort_keys=True))
            model, spec = r["model"], r["spec"]
            m_ok = not isinstance(model, str)
            s_ok = not isinstance(spec, str)
            # ---- edge C: the property on the real code, against the PMS table (spec)
            if status == "internal":
                if s_ok:
                    ctx.violation(case, f"{name} died with an internal error ({msg}) on a request PMS allows")
                else:
                    ctx.note(f"{name}: a rejected request surfaces as IpcInternalError ({msg[:80]}) instead of an IpcCommandError")
            elif (status == "ok") != s_ok:
                ctx.violation(case, f"{name}: real helper {'accepts' if status == 'ok' else 'rejects (' + str(msg) + ')'} "
                                    f"but PMS placement table says {spec if not s_ok else 'accept'}")
            elif status == "ok":
                want = sorted(map(list, spec))
                if snap != want:
                    ctx.violation(case, "image differs from the prescribed entries: " + diff_snap(snap, want))
            # ---- edge A: model vs code
            if status != "internal":
                if (status == "ok") != m_ok:
                    ctx.mismatch(case, f"real helper: {status} {msg}; Lean model: {model if not m_ok else 'ok'}")
                elif status == "ok":
                    got = sorted(map(list, model))
                    if snap != got:
                        ctx.mismatch(case, "image differs from the Lean model's: " + diff_snap(snap, got))
                else:
                    mreason = model.split(":", 1)[1]
                    # a file-system level failure (entry in the way, a directory handed to _install) can surface before or
                    # after a request-level rejection: the helper creates --dest first, the model plans first; both reject
                    fs_level = {"copyFailed", "oserror"}
                    if mreason != impl_reason and not (mreason in fs_level or impl_reason in fs_level):
                        ctx.mismatch(case, f"rejection reason differs: real helper {impl_reason} ({msg}); Lean model {mreason}")
            if status != "ok":
                break


def diff_snap(got, want):
    g = {e[0]: e for e in got}
    w = {e[0]: e for e in want}
    out = []
    for k in sorted(set(g) | set(w)):
        if g.get(k) != w.get(k):
            out.append(f"{k}: real {g.get(k)} expected {w.get(k)}")
    return "; ".join(out[:6])


# scripted sequences: every defect found while building this check, and the boundary cases of the property text
def _raw(opt):
    """RawOpts of a simple option string made of -mMODE, -oN, -gN words"""
    raw = {"present": opt is not None, "empty": opt == "", "mode": None, "owner": None, "group": None}
    for w in (opt or "").split():
        if w.startswith("-m"):
            raw["mode"] = int(w[2:], 8)
        elif w.startswith("-o"):
            raw["owner"] = int(w[2:])
        elif w.startswith("-g"):
            raw["group"] = int(w[2:])
    return raw


def _mk(kind, name, dest, argv_fn, extra=None, ins=None, dirs=None, options=None):
    def f(tree, eapi):
        argv, fields = argv_fn(tree)
        req = {"eapi": eapi, "kind": kind, "name": name, "dest": dest, "ins": _raw(ins), "dir": _raw(dirs)}
        req.update(fields)
        if extra:
            req.update(extra)
        o = options if options is not None else opt_string(dest, ins, dirs)
        return req, name, o, argv
    return f


def _files(tree, n=2):
    return tree.paths(lambda p, nd: nd["t"] == "file" and "/" not in p)[:n]


def _tg(tree, args):
    return {"targets": [{"arg": a, "node": tree.describe(a)} for a in args]}


def _man(names, i18n=""):
    def f(tree):
        tree.add_named_files(names)
        argv = (["-i18n=" + i18n] if i18n else []) + names
        d = _tg(tree, names)
        d["i18n"] = i18n
        return argv, d
    return f


def _dirarg(recursive, suffix="", nested=False):
    def f(tree):
        ds = tree.paths(lambda p, nd: nd["t"] == "dir" and ("/" in p) == nested)
        d = (ds or tree.paths(lambda p, nd: nd["t"] == "dir"))[0] + suffix
        fs = _files(tree, 1)
        d2 = _tg(tree, [d] + fs)
        d2["recursive"] = recursive
        return (["-r"] if recursive else []) + [d] + fs, d2
    return f


SEQ_CORPUS = [
    # doins of a directory without -r must be rejected (was silently skipped)
    [_mk("doins", "doins", "/usr/share/x", _dirarg(False), ins="-m0644", dirs="-m0755")],
    [_mk("doins", "doins", "/usr/share/x", _dirarg(True), ins="-m0600", dirs="-m0700")],
    [_mk("dodoc", "dodoc", "/usr/share/doc/pn-1", _dirarg(True))],
    [_mk("dodoc", "dodoc", "/usr/share/doc/pn-1", _dirarg(False))],
    # `-r dir/.` = the contents of dir directly under the destination; dir/ and dir// = dir itself
    [_mk("doins", "doins", "/etc/demo", _dirarg(True, "/."), ins="-m0644", dirs="-m0755")],
    [_mk("doins", "doins", "/etc/demo", _dirarg(True, "/.", nested=True), ins="-m0600")],
    [_mk("dodoc", "dodoc", "/usr/share/doc/pn-1/html", _dirarg(True, "/./"))],
    [_mk("doins", "doins", "/usr/share/x", _dirarg(True, "//"), dirs="-m0750"),
     _mk("doins", "doins", "/usr/share/x", _dirarg(True, "/."), dirs="-m0700")],
    [_mk("doins", "doins", "/usr/share/x", _dirarg(False, "/."))],
    # doman: language forms, -i18n (used to crash), names with dashes/dots, missing section, compression
    [_mk("doman", "doman", "/usr/share/man", _man(["foo.1", "foo.de.1", "foo.pt_BR.1", "foo.ptBR.1", "apt-get.de.8", "a.b.de.1"]))],
    [_mk("doman", "doman", "/usr/share/man", _man(["foo.1", "foo.de.1"], "fr"))],
    [_mk("doman", "doman", "/usr/share/man", _man(["foo.1.gz", "foo.3pm", "foo.n", "bar.de.3.bz2"]))],
    [_mk("doman", "doman", "/usr/share/man", _man(["foo"]))],
    [_mk("doman", "doman", "/usr/share/man", _man([".1"]))],
    [_mk("doman", "doman", "/usr/share/man", _man(["foo.1x"]))],
    # default modes must be the helper's own (0644) even with the whole helper table instantiated and a tight umask
    [_mk("domo", "domo", "/usr/share/locale", lambda t: (t.add_named_files(["de.mo"]) or ["de.mo"], dict(_tg(t, ["de.mo"]), pn="pn")))],
    [_mk("basename", "doinfo", "/usr/share/info", lambda t: (_files(t), _tg(t, _files(t))))],
    [_mk("basename", "dobin", "/usr/bin", lambda t: (_files(t), _tg(t, _files(t))), ins="-m0600")],
    # dosym: link name that is a directory of the host but not of the image; directory in the image; trailing slash
    [_mk("dosym", "dosym", "/", lambda t: (["lib64", "/usr/lib"], {"source": "lib64", "target": "/usr/lib", "relative": False}), options="")],
    [_mk("dodir", "dodir", "/", lambda t: (["/usr/lib"], {"dirs": ["/usr/lib"], "category": "cat", "pn": "pn", "slot": "0"}), options=""),
     _mk("dosym", "dosym", "/", lambda t: (["lib64", "/usr/lib"], {"source": "lib64", "target": "/usr/lib", "relative": False}), options="")],
    [_mk("dosym", "dosym", "/", lambda t: (["a", "/usr/lib/"], {"source": "a", "target": "/usr/lib/", "relative": False}), options="")],
    [_mk("dosym", "dosym", "/", lambda t: (["-r", "/usr/bin/a", "/usr/lib/q/b"], {"source": "/usr/bin/a", "target": "/usr/lib/q/b", "relative": True}), options="")],
    [_mk("dosym", "dosym", "/", lambda t: (["-r", "usr/bin/a", "/usr/lib/q/b"], {"source": "usr/bin/a", "target": "/usr/lib/q/b", "relative": True}), options="")],
    # dohard with an absolute source names an image entry
    [_mk("basename", "dobin", "/usr/bin", lambda t: (_files(t, 1), _tg(t, _files(t, 1)))),
     _mk("dohard", "dohard", "/", lambda t: (["/usr/bin/" + _files(t, 1)[0], "/usr/bin/hl"],
                                                {"source": "/usr/bin/" + _files(t, 1)[0], "target": "/usr/bin/hl"}), options="")],
    # dohard with a link name ending in a slash: no up-front test in the code, the request fails when os.link meets the directory
    [_mk("basename", "dobin", "/usr/bin", lambda t: (_files(t, 1), _tg(t, _files(t, 1)))),
     _mk("dohard", "dohard", "/", lambda t: (["/usr/bin/" + _files(t, 1)[0], "/usr/bin/dd/"],
                                                {"source": "/usr/bin/" + _files(t, 1)[0], "target": "/usr/bin/dd/"}), options="")],
    # the same hard link requested twice, and a link name re-pointed through a third name
    [_mk("basename", "dobin", "/usr/bin", lambda t: (_files(t, 2), _tg(t, _files(t, 2)))),
     _mk("dohard", "dohard", "/", lambda t: (["/usr/bin/" + _files(t, 1)[0], "/usr/bin/hl"],
                                                {"source": "/usr/bin/" + _files(t, 1)[0], "target": "/usr/bin/hl"}), options=""),
     _mk("dohard", "dohard", "/", lambda t: (["/usr/bin/" + _files(t, 1)[0], "/usr/bin/hl"],
                                                {"source": "/usr/bin/" + _files(t, 1)[0], "target": "/usr/bin/hl"}), options=""),
     _mk("dohard", "dohard", "/", lambda t: (["usr/bin/hl", "/usr/bin/h3"], {"source": "usr/bin/hl", "target": "/usr/bin/h3"}), options=""),
     _mk("dohard", "dohard", "/", lambda t: (["/usr/bin/" + _files(t, 1)[0], "/usr/bin/h3"],
                                                {"source": "/usr/bin/" + _files(t, 1)[0], "target": "/usr/bin/h3"}), options=""),
     _mk("dohard", "dohard", "/", lambda t: (["/usr/bin/" + _files(t, 2)[1], "/usr/bin/h3"],
                                                {"source": "/usr/bin/" + _files(t, 2)[1], "target": "/usr/bin/h3"}), options="")],
    [_mk("dosym", "dosym", "/", lambda t: (["a", "/usr/lib/l"], {"source": "a", "target": "/usr/lib/l", "relative": False}), options=""),
     _mk("dosym", "dosym", "/", lambda t: (["a", "/usr/lib/l"], {"source": "a", "target": "/usr/lib/l", "relative": False}), options=""),
     _mk("dosym", "dosym", "/", lambda t: (["../b", "/usr/lib/l"], {"source": "../b", "target": "/usr/lib/l", "relative": False}), options="")],
    [_mk("keepdir", "keepdir", "/", lambda t: (["/var/lib/x", "run"], {"dirs": ["/var/lib/x", "run"], "category": "cat", "pn": "pn", "slot": "0"}), dirs="-m0750",
         options='--diroptions="-m0750"')],
    # one long-lived helper object, several requests: the same page into another destination, and again with other diropts
    [_mk("doman", "doman", "/usr/share/man", _man(["foo.1", "bar.de.3"])),
     _mk("doman", "doman", "/opt/t/share/man", _man(["foo.1", "bar.de.3"])),
     _mk("doman", "doman", "/opt/t/share/man", _man(["foo.1"]), dirs="-m0700"),
     _mk("doman", "doman", "/usr/share/man", _man(["foo.1"], "fr"), ins="-m0600")],
    [_mk("domo", "domo", "/usr/share/locale", lambda t: (t.add_named_files(["de.mo"]) or ["de.mo"], dict(_tg(t, ["de.mo"]), pn="pn"))),
     _mk("domo", "domo", "/opt/t/share/locale", lambda t: (["de.mo"], dict(_tg(t, ["de.mo"]), pn="pn")), dirs="-m0750")],
    [_mk("doins", "doins", "/usr/share/x", _dirarg(True), ins="-m0644", dirs="-m0755"),
     _mk("doins", "doins", "/etc", _dirarg(True), ins="-m0600", dirs="-m0700"),
     _mk("doins", "doins", "/usr/share/x", _dirarg(True), ins="-m0640", dirs="-m0750")],
]
# ownership needs root
ROOT_CORPUS = [
    # set-id bits survive only when the owner is changed before the mode
    [_mk("basename", "doexe", "/usr/libexec", lambda t: (_files(t), _tg(t, _files(t))), ins="-m4755 -o0 -g0")],
    [_mk("doins", "doins", "/usr/share/x", lambda t: (_files(t), dict(_tg(t, _files(t)), recursive=False)), ins="-m2755 -g250", dirs="-m0755 -g251")],
    [_mk("basename", "dolib.so", "/usr/lib64", lambda t: (_files(t, 1), _tg(t, _files(t, 1))), ins="-m6755 -o250 -g251"),
     _mk("basename", "dolib.so", "/usr/lib64", lambda t: (_files(t, 1), _tg(t, _files(t, 1))), ins="-m0644")],
    [_mk("dodir", "dodir", "/", lambda t: (["/var/lib/g"], {"dirs": ["/var/lib/g"], "category": "cat", "pn": "pn", "slot": "0"}), dirs="-m1775 -o250 -g251",
         options='--diroptions="-m1775 -o250 -g251"'),
     _mk("keepdir", "keepdir", "/", lambda t: (["/var/lib/g"], {"dirs": ["/var/lib/g"], "category": "cat", "pn": "pn", "slot": "0"}), dirs="-m0750",
         options='--diroptions="-m0750"')],
]


def _run_bash(ctx, rng, base, get_eapi):
    """the bash helper scripts (into/insinto/exeinto/docinto → --dest) through the real pkgcore-ipc-helper"""
    import pkgcore.ebuild.const as econst
    repo = os.environ.get("VERIF_REPO", "/repo")
    if not econst.EBD_PATH.startswith(repo):
        ctx.note(f"EBD_PATH {econst.EBD_PATH} is not below {repo}; the bash helpers of that path are used")
    repo_ebd_root = econst.EBD_PATH
    helpers = ["dobin", "dosbin", "dolib.so", "dolib.a", "doins", "doexe", "dodoc", "doinfo", "doman", "domo",
               "doconfd", "doenvd", "doinitd", "doheader"]
    n = ctx.n(45, 500)
    cases = [("domo", "7", "/opt/t"), ("domo", "6", "/opt/t"), ("domo", "8", "/"), ("dobin", "7", "/"), ("doins", "5", "/")]
    for _ in range(n):
        cases.append((rng.choice(helpers), rng.choice(EAPIS), rng.choice(["/usr", "/usr", "/opt/t", "/", "/usr/local"])))
    for i, (helper, eapi, into) in enumerate(cases):
        e = get_eapi(eapi)
        if helper == "doheader" and int(eapi) < 5:
            continue
        W = os.path.join(base, "bw%d" % i)
        ED = os.path.join(base, "be%d" % i) + "/"
        os.makedirs(W)
        os.makedirs(ED)
        fname = {"doman": "foo.1", "domo": "de.mo"}.get(helper, "file.x")
        with open(os.path.join(W, fname), "w") as f:
            f.write("x")
        insinto = rng.choice(["/usr/share/x", "/etc", "/", "/opt/t/data"])
        exeinto = rng.choice(["/usr/libexec/x", "/", "/opt/t/bin"])
        docinto = rng.choice(["", "", "html", "examples/a"])
        libdir = rng.choice(["lib", "lib64"])
        blank = lambda v: "" if v == "/" else v   # noqa: E731  (into / == empty DESTTREE, as the bash functions do)
        env = {"D": ED, "ED": ED, "T": W, "PF": "pn-1", "ABI": "x", "LIBDIR_x": libdir,
               "PKGCORE_DESTTREE": blank(into), "PKGCORE_INSDESTTREE": blank(insinto), "PKGCORE_EXEDESTTREE": blank(exeinto),
               "PKGCORE_DOCDESTTREE": blank(docinto), "INSOPTIONS": "-m0644", "EXEOPTIONS": "-m0755", "LIBOPTIONS": "-m0644",
               "DIROPTIONS": "-m0755"}
        op, table = make_helpers(eapi, ED)
        res = run_bash_helper(repo_ebd_root, e, helper, [fname], env, W, table)
        case = {"bash_helper": helper, "eapi": eapi, "into": into, "insinto": insinto, "exeinto": exeinto, "docinto": docinto, "libdir": libdir}
        if res is None:
            ctx.count("bash_helper_absent")
            continue
        rc, cmd, options, reply, err = res
        want_dir = pms_dest(helper, eapi, blank(into), blank(insinto), blank(exeinto), blank(docinto), libdir, "pn-1")
        found = [os.path.relpath(os.path.join(dp, f), ED) for dp, _, fs in os.walk(ED) for f in fs]
        ctx.case(case, True, key=json.dumps(case, sort_keys=True))
        ctx.count("bash_" + helper)
        ctx.traces += 1
        want_name = {"doman": "man1/foo.1", "domo": "de/LC_MESSAGES/pn.mo"}.get(helper, fname)
        want = os.path.normpath(os.path.join(want_dir.lstrip("/"), want_name)) if want_dir is not None else None
        if rc != 0 or len(found) != 1 or (want is not None and found[0] != want):
            ctx.violation(case, f"helper script {helper} (ipc {cmd}, options {options!r}) exit {rc}, reply {reply!r}: "
                                f"installed {found}, PMS destination {want} ({err.strip()[-160:]})")
        shutil.rmtree(W, ignore_errors=True)
        shutil.rmtree(ED, ignore_errors=True)
