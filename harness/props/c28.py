"""C28 — Manifest generation is deterministic, idempotent, parseable and atomic."""
import errno
import gc
import hashlib
import os
import resource
import shutil
import signal
import tempfile

from props import c24 as _c24        # shared audit-hook tracer (one hook per process)

PID = "C28"
LEAN_MODULES = ["Pkgcore.Props.C28"]
OBLIGATIONS = [
    "Pkgcore.C28.manifest_parse_render",
    "Pkgcore.C28.manifest_order_independent",
    "Pkgcore.C28.manifest_idempotent",
    "Pkgcore.C28.manifest_write_atomic",
    "Pkgcore.C28.manifest_failed_write_keeps_old",
    "Pkgcore.C28.manifest_regen_describes_current",
    "Pkgcore.C28.manifest_regen_history_independent",
    "Pkgcore.C28.manifest_inplace_write_counterexample",
    "Pkgcore.C28.manifest_whitespace_name_counterexample",
    "Pkgcore.C28.sortBy_eq_of_perm",
    "Pkgcore.C28.kindOf_classify",
]
TRUSTED = [
    "the directory scan (iter_scan/os.listdir/lstat) and the hashing are inputs of the model: the harness lists the package directory itself and hashes "
    "the files with hashlib, so the scan and checksum glue of pkgcore is compared, not proved",
    "str.split(), sorted(), str.upper/lower on ASCII, '%x'/rjust, str(int)/int() re-expressed in Lean (white-space table and checksum widths "
    "regenerated from Python/snakeoil on every run); gpg.skip_signatures is not modelled (generated Manifests are unsigned)",
    "AtomicWriteFile = [open(.update.Manifest,'w'), write*, close, rename]; the real os-level operations are recorded with an audit hook and compared "
    "with the model's list; rename(2) atomic; process-crash model (no fsync); locale encoding UTF-8",
]
ASSUMPTIONS = [
    "regular, non-excluded files of the package directory are at the top level or below files/ (anything else makes update() raise ValueError)",
    "fetchables have distinct base names; chksums contain 'size' and checksum types known to snakeoil",
    "file and distfile names contain no white space (GLEP 44 cannot represent them: open finding C28-whitespace-in-filename)",
]
RULE = ("package directories built on disk: 0-4 ebuilds, metadata.xml/ChangeLog/other misc files, a files/ tree with nested directories, hidden files, "
        "empty files, non-ASCII names, plus things that must be skipped (Manifest, CVS/, .svn/, symlinks, a stale .update.Manifest); 0-5 fetchables with "
        "random checksum dicts; random subsets of 8 checksum types; thick and thin; update() run with os.listdir shuffled and the fetchables shuffled, "
        "then again (must write nothing), parsed back; then the package evolves for 1-2 rounds (the file or distfile of the last/first Manifest "
        "line removed, a random file removed/added/modified, a distfile dropped, everything removed) and the Manifest is regenerated in place; a subset is made to fail at every os-level operation (death before it, error return once, error "
        "return persistently), by SIGXFSZ mid-write and by exceptions raised from the write itself (RuntimeError, KeyboardInterrupt, OSError). ~3% of "
        "directories contain a name with white space (finding class), ~2% an unexpected subdirectory. "
        "non-trivial = at least 3 covered files in at least 2 of the 4 entry types and at least 2 checksum types")

HASHES = ["md5", "sha1", "sha256", "sha512", "blake2b", "blake2s", "sha3_256", "sha3_512"]


def probe(digest):
    """the exclusion set and the result order of parse_manifest are literals inside functions: recover them by running the code"""
    d = tempfile.mkdtemp(prefix="verif-c28-t-")
    try:
        pk = os.path.join(d, "c", "p")
        os.makedirs(os.path.join(pk, "files"))
        cand = ["CVS", ".svn", "Manifest", ".update.Manifest", ".git", "files", "x"]
        for c in cand:
            if c != "files":
                with open(os.path.join(pk, c), "w") as f:
                    f.write(c)
        digest.Manifest(os.path.join(pk, "Manifest")).update([], chfs=("size",))
        with open(os.path.join(pk, "Manifest")) as f:
            listed = {l.split()[1] for l in f}
        excludes = sorted(c for c in cand if c != "files" and c not in listed)
        order = []
        with open(os.path.join(pk, "Manifest"), "w") as f:
            f.write("MISC m 1\nEBUILD e 1\nAUX a 1\nDIST d 1\n")
        res = digest.parse_manifest(os.path.join(pk, "Manifest"))
        for r in res:
            order.append({"d": "DIST", "a": "AUX", "e": "EBUILD", "m": "MISC"}[next(iter(r))])
    finally:
        shutil.rmtree(d, ignore_errors=True)
    return excludes, order


def gen_tables(repo):
    from snakeoil.chksum import get_handlers
    from pkgcore.ebuild import digest
    import inspect
    widths = [(k, h.str_size) for k, h in get_handlers().items() if k != "size"]
    src = inspect.getsource(digest.Manifest.update)
    excludes, order = probe(digest)
    sp = [c for c in range(0x110000) if chr(c).isspace()]
    text = ("-- GENERATED from /repo by harness/props/c28.py (gen_tables); do not edit\n"
            "namespace Pkgcore.Generated.C28\n"
            "def chfWidths : List (String × Nat) := [%s]\n" % ", ".join('("%s", %d)' % w for w in widths) +
            "def excludes : List String := [%s]\n" % ", ".join('"%s"' % e for e in excludes) +
            "def typeOrder : List String := [%s]\n" % ", ".join('"%s"' % t for t in order) +
            f"def pySpaces : List Nat := {sp}\n"
            "end Pkgcore.Generated.C28\n")
    if order != ["DIST", "AUX", "EBUILD", "MISC"] or "AtomicWriteFile" not in src:
        raise ValueError("parse_manifest result order or the write path of Manifest.update changed; the Lean model no longer applies")
    return {"Pkgcore/Generated/C28Tables.lean": text}


# ------------------------------------------------------------------ generators

NAMES = ["a.patch", "fix-build.patch", "init.d", "conf", "README", "é.patch", "日本.diff", ".hidden", "x", "b-1.2.3.patch", "Makefile.in", "0001-foo.patch", "UPPER", "a+b", "t~"]
WS_NAMES = ["my patch.diff", "tab\tname", "trail ", "nb\xa0sp", "two  blanks"]
MISC = ["metadata.xml", "ChangeLog", "ChangeLog-2015", ".gitignore", "notes.txt", "files.txt", "x.ebuild.bak", "ebuild", "é.xml"]


EXCLUDES = ["CVS", ".svn", "Manifest", ".update.Manifest"]      # replaced in run() by what the code really excludes


def gen_dir(rng, pkgdir, finding=None):
    """populate pkgdir; returns nothing (the harness lists it afterwards)"""
    os.makedirs(pkgdir)

    def put(rel, data=None):
        p = os.path.join(pkgdir, rel)
        os.makedirs(os.path.dirname(p), exist_ok=True)
        with open(p, "wb") as f:
            f.write(data if data is not None else rng.randbytes(rng.choice([0, 1, 5, 40, 300])))
    pn = rng.choice(["pkg", "foo-bar", "x"])
    for i in range(rng.choice([0, 1, 1, 2, 4])):
        put("%s-%d.%d.ebuild" % (pn, i, rng.randrange(10)))
    if rng.random() < 0.1:
        put(".ebuild")
    for n in rng.sample(MISC, rng.randrange(0, 4)):
        put(n)
    if rng.random() < 0.8:
        for n in rng.sample(NAMES, rng.randrange(0, 6)):
            sub = rng.choice(["", "", "sub/", "sub/deep/", "é/", "patches-1.0/"])
            put("files/" + sub + n)
        if rng.random() < 0.2:
            os.makedirs(os.path.join(pkgdir, "files", "emptydir"), exist_ok=True)
    # things that must not be covered
    if rng.random() < 0.3:
        put("files/CVS/Entries")
    if rng.random() < 0.2:
        put(".svn/entries")
    if rng.random() < 0.2:
        put("files/Manifest")
    if rng.random() < 0.2 and ".update.Manifest" in EXCLUDES:
        put(".update.Manifest", b"DIST stale 1\n")            # left behind by an interrupted run
    if rng.random() < 0.3:
        os.makedirs(os.path.join(pkgdir, "files"), exist_ok=True)
        os.symlink("a.patch", os.path.join(pkgdir, "files", "link"))
    if rng.random() < 0.1:
        os.mkfifo(os.path.join(pkgdir, "fifo"))
    if finding == "ws":
        put(rng.choice(["files/", "files/sub/", ""]) + rng.choice(WS_NAMES))
    if finding == "baddir":
        put(rng.choice(["extra/x", "filesX/y", "sub/deep/z"]))


def gen_fetchables(rng, finding=None):
    out = []
    names = rng.sample(["pkg-1.tar.gz", "pkg-2.tar.xz", "a-0.zip", "foo_1.0.orig.tar.bz2", "é.tgz", "UPPER.TGZ", "x"], rng.choice([0, 1, 2, 3, 5]))
    if finding == "ws" and rng.random() < 0.5:
        names.append("dist file.tar")
    for n in names:
        chf = rng.sample(HASHES, rng.randrange(0, 4))
        ck = {"size": rng.choice([0, 1, 10, 2 ** 40, rng.randrange(10 ** 9)])}
        for c in chf:
            bits = hashlib.new(c).digest_size * 8
            ck[c] = rng.choice([0, 1, 2 ** bits - 1, rng.getrandbits(bits)])
        out.append((n, ck))
    return out


def same_length_other(rng, cur):
    """different bytes of exactly the same length (cur is not empty)"""
    while True:
        new = rng.randbytes(len(cur))
        if new != cur:
            return new


def stale_manifest(rng, listing, fetch, thin, chfs):
    """text of a Manifest as an earlier state of this very package would have it: the same names and sizes, the requested checksum types, but for
    some entries the checksums of other content (rendered here, independently of pkgcore)"""
    exp = expected_py(listing, fetch, thin)
    out = []
    for t in ("AUX", "DIST", "EBUILD", "MISC"):
        for n in sorted(exp[t]):
            if any(ch.isspace() for ch in n):
                continue
            ck = exp[t][n]
            toks = [t, n, str(ck["size"])]
            for c in sorted(k for k in ck if k != "size"):
                w = hashlib.new(c).digest_size * 2
                v = ck[c] if rng.random() < 0.4 else rng.getrandbits(4 * w)
                toks += [c.upper(), "%0*x" % (w, v)]
            out.append(" ".join(toks) + "\n")
    return "".join(out)


def list_dir(pkgdir, chfs):
    """independent scan of the package directory: (path relative with leading '/', is regular file, size, {chf: int})"""
    out = []
    for dp, dns, fns in os.walk(pkgdir):
        for n in dns + fns:
            p = os.path.join(dp, n)
            rel = "/" + os.path.relpath(p, pkgdir)
            st = os.lstat(p)
            import stat as _st
            if _st.S_ISREG(st.st_mode):
                with open(p, "rb") as f:
                    data = f.read()
                out.append((rel, True, len(data), {c: int(hashlib.new(c, data).hexdigest(), 16) for c in chfs if c != "size"}))
            else:
                out.append((rel, False, 0, {}))
    return out


def expected_py(listing, fetch, thin):
    """what the Manifest covers, from the property text / GLEP 44 (by path components)"""
    exp = {"DIST": {}, "AUX": {}, "EBUILD": {}, "MISC": {}}
    for n, ck in fetch:
        exp["DIST"][os.path.basename(n)] = dict(ck)
    if not thin:
        for rel, reg, size, sums in listing:
            parts = rel.split("/")[1:]
            if not reg or any(p in EXCLUDES for p in parts):
                continue
            d = dict(sums, size=size)
            if parts[0] == "files" and len(parts) > 1:
                exp["AUX"]["/".join(parts[1:])] = d
            elif len(parts) == 1:
                exp["EBUILD" if parts[0].endswith(".ebuild") else "MISC"][parts[0]] = d
    return exp


def canon_parsed(res):
    return {t: {k: dict(v) for k, v in d.items()} for t, d in zip(("DIST", "AUX", "EBUILD", "MISC"), res)}


def canon_model(p):
    return {t: {n: dict([("size", int(s["size"]))] + [(c, int(v)) for c, v in s["others"]]) for n, s in p[t]} for t in ("DIST", "AUX", "EBUILD", "MISC")}


def req_sums(size, sums):
    return {"size": str(size), "others": [[c, str(v)] for c, v in sums.items()]}


def has_ws(listing, fetch, thin):
    names = [os.path.basename(n) for n, _ in fetch]
    if not thin:
        names += [rel for rel, reg, _, _ in listing if reg]
    return any(any(ch.isspace() for ch in n) for n in names)


def run(ctx):
    from pkgcore.ebuild import digest
    from pkgcore.fetch import fetchable
    from pkgcore.package import errors as perrors

    rng = ctx.rng
    EXCLUDES[:] = probe(digest)[0]
    root = os.path.realpath(tempfile.mkdtemp(prefix="verif-c28-"))
    real_listdir = os.listdir

    def shuffled_listdir(p="."):
        l = real_listdir(p)
        rng.shuffle(l)
        return l

    def do_update(path, fetch, chfs, thin, shuffle):
        f = [fetchable(n, chksums=dict(ck)) for n, ck in fetch]
        if shuffle:
            rng.shuffle(f)
            os.listdir = shuffled_listdir
        try:
            return digest.Manifest(path, thin=thin).update(f, chfs=chfs), None
        except Exception as e:
            return None, type(e).__name__
        finally:
            os.listdir = real_listdir

    def read(path):
        try:
            with open(path, encoding="utf8", newline="") as f:
                return f.read()
        except FileNotFoundError:
            return None

    try:
        reqs, meta = [], []
        ereqs, emeta = [], []
        hreqs, hmeta = [], []
        ncases = ctx.n(200, 4000)
        for idx in range(ncases):
            r = rng.random()
            finding = "ws" if r < 0.03 else "baddir" if r < 0.05 else None
            thin = rng.random() < 0.25
            chfs = ["size"] + rng.sample(HASHES, rng.choice([0, 1, 2, 2, 3, 8]))
            rng.shuffle(chfs)
            pkgdir = os.path.join(root, "r%d" % idx, "cat", "pkg")
            gen_dir(rng, pkgdir, finding)
            fetch = gen_fetchables(rng, finding)
            path = os.path.join(pkgdir, "Manifest")
            r_old = rng.random()
            old_kind = "none" if r_old >= 0.55 else "unrelated" if r_old < 0.3 else "earlier-state"
            if r_old < 0.3:                              # an older Manifest is there
                with open(path, "w") as f:
                    f.write("DIST old-1.tar 1 SHA512 %0128x\n" % 1)
            elif r_old < 0.55:                           # ... one of an earlier state of the same package: right names and sizes, other checksums;
                with open(path, "w", encoding="utf8") as f:  # written after the files (newer stamp), or stamped into the future / the past
                    f.write(stale_manifest(rng, [l for l in list_dir(pkgdir, chfs) if l[0] != "/Manifest"], fetch, thin, chfs))
                stamp = rng.choice([None, None, 2 ** 31 - 10, 10 ** 9])
                if stamp is not None:
                    os.utime(path, (stamp, stamp))
            old = read(path)
            tmp_before = os.path.exists(os.path.join(pkgdir, ".update.Manifest"))
            listing = list_dir(pkgdir, chfs)
            listing = [l for l in listing if l[0] != "/Manifest"] + [l for l in listing if l[0] == "/Manifest"]
            case = {"dir": sorted(l[0] + ("" if l[1] else " (not a regular file)") for l in listing), "fetch": [[n, {k: str(v) for k, v in ck.items()}] for n, ck in fetch],
                    "thin": thin, "chfs": chfs, "old_manifest": old_kind}
            # first update, traced, with shuffled listing / fetchables
            _c24.trace_on(root)
            ret1, err1 = do_update(path, fetch, tuple(chfs), thin, shuffle=True)
            ev1 = _c24.trace_off()
            text1 = read(path)
            # second and third update: nothing may be written
            _c24.trace_on(root)
            ret2, err2 = do_update(path, fetch, tuple(chfs), thin, shuffle=True)
            ev2 = _c24.trace_off()
            text2 = read(path)
            if idx % 3 == 0:
                ret3, err3 = do_update(path, list(reversed(fetch)), tuple(chfs), thin, shuffle=False)
                text3 = read(path)
            else:
                ret3, err3, text3 = False, None, text2
            parsed, perr = None, None
            if text1 is not None:
                try:
                    parsed = canon_parsed(digest.parse_manifest(path))
                except (perrors.ParseChksumError, perrors.MetadataException) as e:
                    perr = "raise"
            # (a stale temp file put there by the generator stays when no update had anything to write)
            tmp_left = os.path.exists(os.path.join(pkgdir, ".update.Manifest")) and not (tmp_before and not ev1 and not ev2)
            reqs.append({"cmd": "c28.text", "thin": thin,
                         "scan": [dict(path=rel, reg=reg, **req_sums(size, sums)) for rel, reg, size, sums in listing],
                         "fetch": [dict(filename=n, **req_sums(ck["size"], {k: v for k, v in ck.items() if k != "size"})) for n, ck in fetch]})
            reqs.append({"cmd": "c28.parse", "text": text1 if text1 is not None else ""})
            meta.append((case, finding, thin, listing, fetch, old, pkgdir, (ret1, err1, ev1, text1), (ret2, err2, ev2, text2), (ret3, err3, text3), parsed, perr, tmp_left))
            # ---- the package evolves: files/distfiles go, come or change, and the Manifest is regenerated in place
            if err1 is None and finding is None and text1 is not None:
                fetch2 = list(fetch)

                def state_req(lst, ft):
                    return {"scan": [dict(path=rel, reg=reg, **req_sums(size, sums)) for rel, reg, size, sums in lst],
                            "fetch": [dict(filename=n, **req_sums(ck["size"], {kk: v for kk, v in ck.items() if kk != "size"})) for n, ck in ft]}
                hreq = {"cmd": "c28.regen", "thin": thin, "dir": pkgdir, "old": old, "hist": [state_req(listing, fetch)]}
                hseen = [text1]
                for rnd in range(rng.choice([1, 1, 2])):
                    covered = sorted(rel for rel, reg, _, _ in list_dir(pkgdir, ["size"]) if reg and not any(p in EXCLUDES for p in rel.split("/")))
                    # what the lines of an up-to-date Manifest of the current state name, in file order (computed, not read back)
                    e_now = expected_py(list_dir(pkgdir, ["size"]), fetch2, thin)
                    lines = ([("file", "/files/" + n) for n in sorted(e_now["AUX"])] + [("fetch", n) for n in sorted(e_now["DIST"])]
                             + [("file", "/" + n) for n in sorted(e_now["EBUILD"])] + [("file", "/" + n) for n in sorted(e_now["MISC"])])
                    k = rng.choice(["remove-last-line", "remove-last-line", "remove-first-line", "remove-random", "add", "modify", "drop-last-fetchable", "remove-all",
                                    "rewrite-keep-stamp", "rewrite-keep-stamp", "rewrite-old-stamp", "rewrite-fresh-stamp", "replace-by-rename", "swap-two", "touch",
                                    "manifest-stamp-future"])
                    nonempty = [rel for rel in covered if os.path.getsize(os.path.join(pkgdir, rel.lstrip("/"))) > 0]
                    how = None
                    if k in ("remove-last-line", "remove-first-line") and lines:
                        kind2, what = lines[-1] if k == "remove-last-line" else lines[0]
                        if kind2 == "fetch":
                            fetch2 = [x for x in fetch2 if os.path.basename(x[0]) != what]
                        else:
                            os.unlink(os.path.join(pkgdir, what.lstrip("/")))
                    elif k == "remove-random" and covered:
                        os.unlink(os.path.join(pkgdir, rng.choice(covered).lstrip("/")))
                    elif k == "add":
                        with open(os.path.join(pkgdir, rng.choice(["zz-added", "AAA", "mid.txt", "z.ebuild"])), "wb") as f:
                            f.write(rng.randbytes(7))
                    elif k == "modify" and covered:
                        with open(os.path.join(pkgdir, rng.choice(covered).lstrip("/")), "ab") as f:
                            f.write(b"more")
                    elif k == "drop-last-fetchable" and fetch2:
                        fetch2 = sorted(fetch2)[:-1]
                    elif k == "remove-all":
                        for rel in covered:
                            os.unlink(os.path.join(pkgdir, rel.lstrip("/")))
                        fetch2 = fetch2[:1]
                    elif k in ("rewrite-keep-stamp", "rewrite-old-stamp", "rewrite-fresh-stamp", "replace-by-rename") and nonempty:
                        # other content of the SAME length; the time stamps are kept (cp -p, rsync -t, tar x), set back, fresh, or the
                        # file is replaced by a new inode carrying the old stamps
                        rel = rng.choice(nonempty)
                        p = os.path.join(pkgdir, rel.lstrip("/"))
                        st = os.stat(p)
                        with open(p, "rb") as f:
                            cur = f.read()
                        new = same_length_other(rng, cur)
                        if k == "replace-by-rename":
                            with open(p + ".incoming", "wb") as f:
                                f.write(new)
                            os.rename(p + ".incoming", p)
                        else:
                            with open(p, "r+b") as f:
                                f.write(new)
                        if k in ("rewrite-keep-stamp", "replace-by-rename"):
                            os.utime(p, ns=(st.st_atime_ns, st.st_mtime_ns))
                        elif k == "rewrite-old-stamp":
                            back = rng.choice([1, 3600, 10 ** 7])
                            os.utime(p, (st.st_mtime - back, st.st_mtime - back))
                        how = {"file": rel, "size": len(cur), "mtime_delta_ns": os.stat(p).st_mtime_ns - st.st_mtime_ns}
                    elif k == "swap-two" and len(covered) >= 2:
                        # two covered files trade places (rename keeps their stamps); of equal size when there are two such
                        by_size = {}
                        for rel in nonempty:
                            by_size.setdefault(os.path.getsize(os.path.join(pkgdir, rel.lstrip("/"))), []).append(rel)
                        same = [v for v in by_size.values() if len(v) >= 2]
                        a, b = rng.sample(rng.choice(same), 2) if same else rng.sample(covered, 2)
                        pa, pb = os.path.join(pkgdir, a.lstrip("/")), os.path.join(pkgdir, b.lstrip("/"))
                        os.rename(pa, pa + ".swap")
                        os.rename(pb, pa)
                        os.rename(pa + ".swap", pb)
                        how = {"files": [a, b], "equal_size": bool(same)}
                    elif k == "touch" and covered:
                        # only the time stamp moves (forward or back): nothing to rewrite
                        rel = rng.choice(covered)
                        p = os.path.join(pkgdir, rel.lstrip("/"))
                        d = rng.choice([-10 ** 6, -5, 5, 10 ** 6])
                        st = os.stat(p)
                        os.utime(p, (st.st_mtime + d, st.st_mtime + d))
                        how = {"file": rel, "mtime_delta": d}
                    elif k == "manifest-stamp-future" and nonempty and os.path.exists(path):
                        # the Manifest carries a stamp from the future (clock skew, NFS); then a file is rewritten normally
                        os.utime(path, (2 ** 31 - 10, 2 ** 31 - 10))
                        rel = rng.choice(nonempty)
                        p = os.path.join(pkgdir, rel.lstrip("/"))
                        with open(p, "rb") as f:
                            cur = f.read()
                        with open(p, "r+b") as f:
                            f.write(same_length_other(rng, cur))
                        how = {"file": rel, "size": len(cur)}
                    before = read(path)
                    listing2 = list_dir(pkgdir, chfs)
                    listing2 = [l for l in listing2 if l[0] != "/Manifest"]
                    ret4, err4 = do_update(path, fetch2, tuple(chfs), thin, shuffle=True)
                    text4 = read(path)
                    try:
                        parsed4 = canon_parsed(digest.parse_manifest(path)) if text4 is not None else None
                    except Exception:
                        parsed4 = "raise"
                    ereqs.append({"cmd": "c28.text", "thin": thin,
                                  "scan": [dict(path=rel, reg=reg, **req_sums(size, sums)) for rel, reg, size, sums in listing2],
                                  "fetch": [dict(filename=n, **req_sums(ck["size"], {kk: v for kk, v in ck.items() if kk != "size"})) for n, ck in fetch2]})
                    hreq["hist"].append(state_req(listing2, fetch2))
                    hseen.append(text4)
                    emeta.append((dict(case, then=k, how=how, round=rnd, dir_now=sorted(l[0] for l in listing2 if l[1]), fetch_now=[n for n, _ in fetch2]),
                                  thin, listing2, list(fetch2), before, ret4, err4, text4, parsed4))
                hreqs.append(hreq)
                hmeta.append((dict(case, history=[e[0]["then"] for e in emeta[len(emeta) - (len(hseen) - 1):]]), hseen))
            if idx % 50 == 49:
                shutil.rmtree(os.path.join(root, "r%d" % idx), ignore_errors=True)
        # the whole history through the model's `regen` (theorem manifest_regen_describes_current): the Manifest after every regeneration
        for (case, hseen), rep in zip(hmeta, ctx.model(hreqs)):
            ctx.count("history_len_%d" % len(hseen))
            if rep != hseen:
                bad_at = next(i for i, (x, y) in enumerate(zip(rep, hseen)) if x != y)
                ctx.mismatch(case, f"Manifest after regeneration no. {bad_at} of the history differs from the model's regen (which depends on the current state only)")
        for (case, thin, listing2, fetch2, before, ret4, err4, text4, parsed4), rep in zip(emeta, ctx.model(ereqs)):
            ctx.case(case, True, key=repr(case))
            ctx.count("evolve_" + case["then"])
            if thin and not fetch2:
                if text4 != before:
                    ctx.violation(case, "thin Manifest without distfiles was touched")
                continue
            if err4 is not None:
                ctx.violation(case, f"regenerating after the change raised {err4}")
                continue
            exp2 = expected_py(listing2, fetch2, thin)
            if rep["text"] is not None and text4 != rep["text"]:
                ctx.mismatch(case, f"Manifest after the change differs from the model's text for the new state ({len(text4 or '')} vs {len(rep['text'])} chars)")
            if parsed4 != exp2:
                stale = {t: sorted(set(parsed4[t]) - set(exp2[t])) for t in exp2} if isinstance(parsed4, dict) else parsed4
                missing = {t: sorted(set(exp2[t]) - set(parsed4[t])) for t in exp2} if isinstance(parsed4, dict) else None
                wrong = {t: {n: sorted(c for c in exp2[t][n] if parsed4[t][n].get(c) != exp2[t][n][c]) for n in exp2[t] if n in parsed4[t] and parsed4[t][n] != exp2[t][n]}
                         for t in exp2} if isinstance(parsed4, dict) else None
                ctx.violation(case, f"after the package changed and the Manifest was regenerated it does not describe the package: entries that should not be there {stale}, "
                              f"entries that are missing {missing}, entries whose recorded checksums are not those of the file now on disk "
                              f"{ {t: w for t, w in (wrong or {}).items() if w} }, update() returned {ret4}")
            elif ret4 is not (before != text4):
                ctx.violation(case, f"update() returned {ret4} but the file {'changed' if before != text4 else 'did not change'}")
        replies = ctx.model(reqs)
        oreqs, ometa = [], []
        for i, (case, finding, thin, listing, fetch, old, pkgdir, u1, u2, u3, parsed, perr, tmp_left) in enumerate(meta):
            mtext, mparse = replies[2 * i], replies[2 * i + 1]
            ret1, err1, ev1, text1 = u1
            exp = expected_py(listing, fetch, thin)
            ntypes = sum(1 for t in exp if exp[t])
            nfiles = sum(len(exp[t]) for t in exp)
            ws = has_ws([l for l in listing if not any(p in EXCLUDES for p in l[0].split("/"))], fetch, thin)
            ctx.case(case, nfiles >= 3 and ntypes >= 2 and len(case["chfs"]) >= 3 and not ws and finding != "baddir", key=repr(case))
            ctx.count("thin" if thin else "thick")
            ctx.count("entries_%d" % min(nfiles, 10))
            ctx.count("chfs_%d" % (len(case["chfs"]) - 1))
            ctx.count("old_manifest_" + case["old_manifest"])
            if ws:
                ctx.count("class_whitespace_name")
            if finding == "baddir":
                ctx.count("unexpected_directory")
            model_text = mtext["text"]
            thin_noop = thin and not fetch
            # --- edge A: text
            if err1 is not None:
                ctx.count("update_raised_" + err1)
                if model_text is not None and not thin_noop:
                    ctx.mismatch(case, f"update() raised {err1}, the model produces a text")
                if finding != "baddir":
                    ctx.violation(case, f"update() raised {err1}")
                continue
            if thin_noop:
                if ret1 is not False or text1 != old or ev1:
                    ctx.violation(case, "thin Manifest without distfiles was touched")
                continue
            if model_text is None:
                ctx.mismatch(case, "the model expects ValueError (unexpected directory), update() succeeded")
                continue
            if text1 != model_text:
                ctx.mismatch(case, f"Manifest text differs from the model: {str(text1)[:200]!r} vs {model_text[:200]!r}")
            wrote = old != model_text
            if ret1 is not wrote:
                ctx.violation(case, f"update() returned {ret1} although the file {'needed' if wrote else 'did not need'} rewriting")
            oreqs.append({"cmd": "c28.ops", "thin": thin, "nofetch": not fetch, "old": old, "text": model_text, "dir": pkgdir, "chunks": [model_text]})
            ometa.append((case, ev1))
            ctx.traces += 1
            # --- edge C: idempotence and order independence on the real code
            ret2, err2, ev2, text2 = u2
            ret3, err3, text3 = u3
            if err2 or err3:
                ctx.violation(case, f"regeneration raised {err2 or err3}")
            if text2 != text1 or text3 != text1:
                ctx.violation(case, "the text depends on listing/fetchable order: a second run with shuffled inputs produced a different Manifest")
            if ret2 is not False or ret3 is not False or ev2:
                ctx.violation(case, f"regenerating an up-to-date Manifest wrote again (returned {ret2}/{ret3}, operations {ev2})")
            if tmp_left:
                ctx.violation(case, "a temporary file is left behind after update()")
            # --- parse back
            if perr is not None:
                if mparse != "raise":
                    ctx.mismatch(case, "parse_manifest raised, the model parses the text")
                ctx.violation(case, "the generated Manifest does not parse", finding="C28-whitespace-in-filename" if ws else None)
                continue
            if mparse == "raise":
                ctx.mismatch(case, "the model cannot parse the text, parse_manifest can")
            elif canon_model(mparse["ok"]) != parsed:
                ctx.mismatch(case, "parse_manifest result differs from the model's")
            if canon_model(mtext["expected"]) != exp and not ws:
                ctx.mismatch(case, "Lean Spec.expected disagrees with the harness' reading of what a Manifest covers")
            if parsed != exp:
                bad = [t for t in exp if parsed[t] != exp[t]]
                ctx.violation(case, f"parsed Manifest differs from the files/distfiles it covers in {bad}: "
                              f"{str({t: sorted(set(parsed[t]) ^ set(exp[t])) for t in bad})[:300]}",
                              finding="C28-whitespace-in-filename" if ws else None)
        for (case, ev1), mops in zip(ometa, ctx.model(oreqs)):
            want = [o for o in mops if o[0] not in ("write", "close")]
            have = [list(e) for e in ev1]
            if have != want:
                ctx.mismatch(case, f"os-level operations of update() {have} differ from the model's {want}")

        # ---------------- crash injection
        creqs, cmeta = [], []
        for ci in range(ctx.n(7, 80)):
            pkgdir = os.path.join(root, "c%d" % ci, "cat", "pkg")
            thin = ci % 4 == 3
            chfs = ("size", "sha512", "blake2b")
            gen_dir(rng, pkgdir, None)
            if ci == 0:                                  # a Manifest larger than one stdio buffer
                for j in range(120):
                    with open(os.path.join(pkgdir, "files", "p%03d.patch" % j) if os.path.isdir(os.path.join(pkgdir, "files"))
                              else os.path.join(pkgdir, "m%03d" % j), "wb") as f:
                        f.write(b"x" * j)
            fetch = gen_fetchables(rng) or [("d-1.tar", {"size": 1, "sha512": 2})]
            path = os.path.join(pkgdir, "Manifest")
            old_text = "DIST old-1.tar 1 SHA512 %0128x\n" % 1 if ci % 3 else None
            if old_text is not None:
                with open(path, "w") as f:
                    f.write(old_text)
            # reference run (uncrashed) to learn the new text and the audited operations
            _c24.trace_on(root)
            do_update(path, fetch, chfs, thin, shuffle=False)
            events = _c24.trace_off()
            new_text = read(path)
            exp = expected_py(list_dir(pkgdir, chfs), fetch, thin)
            exp_old = {"DIST": {"old-1.tar": {"size": 1, "sha512": 1}}, "AUX": {}, "EBUILD": {}, "MISC": {}}
            points = [("event", j) for j in range(len(events))] + [("fsize", rng.randrange(0, max(1, len(new_text.encode("utf8"))))) for _ in range(2)]
            # error returns (once / persistent) from every os-level call, and exceptions raised by the write itself
            if ci > 0 or not ctx.quick():           # (the 120-file directory is hashed anew on every attempt: crash points only in the quick tier)
                points += [("fault", j) for j in range(len(events))] + [("persist", j) for j in range(len(events))]
                points += [("write-raises", nm) for nm in ("RuntimeError", "KeyboardInterrupt", "OSError")]
            for pkind, arg in points:
                if old_text is None:
                    os.path.exists(path) and os.unlink(path)
                else:
                    with open(path, "w") as f:
                        f.write(old_text)
                tmp = os.path.join(pkgdir, ".update.Manifest")
                os.path.exists(tmp) and os.unlink(tmp)
                crashed, raised = False, None
                if pkind in ("event", "fsize"):
                    pid = os.fork()
                    if pid == 0:
                        try:
                            if pkind == "event":
                                _c24.trace_on(root, crash_at=arg)
                            else:
                                signal.signal(signal.SIGXFSZ, signal.SIG_DFL)
                                resource.setrlimit(resource.RLIMIT_FSIZE, (arg, arg))
                            do_update(path, fetch, chfs, thin, shuffle=False)
                        finally:
                            os._exit(0)
                    _, status = os.waitpid(pid, 0)
                    crashed = (os.WIFEXITED(status) and os.WEXITSTATUS(status) == 99) or os.WIFSIGNALED(status)
                else:
                    RealAWF = digest.AtomicWriteFile
                    if pkind == "write-raises":
                        mk = {"RuntimeError": lambda: RuntimeError("injected"), "KeyboardInterrupt": KeyboardInterrupt,
                              "OSError": lambda: OSError(errno.EIO, "injected")}[arg]

                        class FaultyAWF(RealAWF):
                            __slots__ = ()

                            def write(self, data, _mk=mk):
                                self.raw.write(data[: len(data) // 2])
                                raise _mk()
                        digest.AtomicWriteFile = FaultyAWF
                        _c24.trace_on(root)
                    else:
                        _c24.trace_on(root, faults={arg: "oserror" if pkind == "fault" else "persist"})
                    try:
                        f = [fetchable(n, chksums=dict(ck)) for n, ck in fetch]
                        digest.Manifest(path, thin=thin).update(f, chfs=chfs)
                    except BaseException as e:
                        raised = type(e).__name__
                    finally:
                        gc.collect()
                        _c24.trace_off()
                        digest.AtomicWriteFile = RealAWF
                after = read(path)
                tmp_text = None
                if os.path.exists(tmp):
                    with open(tmp, "rb") as f:
                        tmp_text = f.read().decode("utf8", "ignore")
                case = {"crash": pkind, "at": arg, "thin": thin, "old_manifest": old_text is not None, "new_len": len(new_text)}
                ctx.case(case, True, key=repr((ci, pkind, arg)))
                ctx.count("crash_" + pkind)
                ctx.count("crashed" if crashed else "update_raised" if raised else "completed")
                if pkind == "event" and not crashed:
                    ctx.mismatch(case, f"the child did not crash at operation {arg}")
                if raised is not None:
                    case["update_raised"] = raised
                    if after != old_text:
                        ctx.violation(case, f"update() failed with {raised} but the Manifest is no longer the old file "
                                      f"({None if after is None else len(after)} chars, old {None if old_text is None else len(old_text)})")
                if after not in (old_text, new_text):
                    ctx.violation(case, f"after the crash the Manifest is neither the complete old nor the complete new file ({None if after is None else len(after)} chars; "
                                  f"old {None if old_text is None else len(old_text)}, new {len(new_text)})")
                elif after is not None:
                    try:
                        got = canon_parsed(digest.parse_manifest(path))
                        if got not in (exp, exp_old):
                            ctx.violation(case, "after the crash the Manifest parses to neither the old nor the new contents")
                    except Exception as e:
                        ctx.violation(case, f"after the crash the Manifest does not parse: {type(e).__name__}")
                if pkind not in ("event", "fsize"):
                    continue
                if pkind == "event":
                    k = 0 if arg == 0 else 3               # ops: creat write close rename; events: creat, rename
                    chunks = [new_text]
                else:
                    part = tmp_text or ""
                    chunks, k = [part, new_text[len(part):]], 2
                creqs.append({"cmd": "c28.crash", "thin": thin, "nofetch": not fetch, "old": old_text, "text": new_text, "dir": pkgdir, "chunks": chunks, "k": k})
                cmeta.append((case, after, tmp_text, pkind))
        for (case, after, tmp_text, pkind), rep in zip(cmeta, ctx.model(creqs)):
            if rep["target"] != after:
                ctx.mismatch(case, "file system after the crash: Manifest differs from the model's prefix state")
            if pkind == "event" and (rep["tmp"] is None) != (tmp_text is None):
                ctx.mismatch(case, f"after the crash the temp file {'exists' if tmp_text is not None else 'is absent'}, the model says {rep['tmp'] is not None}")
    finally:
        os.listdir = real_listdir
        _c24.trace_off()
        shutil.rmtree(root, ignore_errors=True)


LEVEL_TEXT = ("Kernel-checked Lean 4 theorems about a model of Manifest.update/_manifest_line/parse_manifest: for every directory listing and distfile set "
              "of the domain (any size, thick and thin) the generated text parses back to exactly the covered files' sizes and checksums, where 'covered' "
              "is specified on path components (manifest_parse_render, kindOf_classify); the text is invariant under every permutation of the listing and of "
              "the fetchables (manifest_order_independent, sortBy_eq_of_perm); a second update performs no file operation (manifest_idempotent); after any history of package states and any earlier Manifest, "
              "regeneration leaves exactly the text of the current state, which parses back to the current files (manifest_regen_describes_current, "
              "manifest_regen_history_independent: no time stamps, no memory of earlier hashing enter the result); every "
              "prefix of the write's operation list leaves the complete old or the complete new Manifest and touches nothing else (manifest_write_atomic; "
              "the pre-fix in-place write is proved non-atomic: manifest_inplace_write_counterexample). Tied to the code by differential runs on package "
              "directories built on disk with shuffled os.listdir, recorded os-level traces and real crashes.")
LEVEL_NOTE = ("Trusted: Lean kernel, standard axioms; directory scan and hashing (compared against an independent listing + hashlib, not proved); Python "
              "string primitives as re-expressed; atomic rename(2); process-crash model.")
