"""C21 — protected configuration files are never silently overwritten or removed."""
import fnmatch
import os
import posixpath
import shutil
import tempfile

PID = "C21"
LEAN_MODULES = ["Pkgcore.Props.C21"]
OBLIGATIONS = [
    "Pkgcore.C21.glob_match_spec",
    "Pkgcore.C21.protect_filter_spec",
    "Pkgcore.C21.ignore_filter_spec",
    "Pkgcore.C21.cfg_name_roundtrip",
    "Pkgcore.C21.cfg_number_fresh_or_reused",
    "Pkgcore.C21.install_trigger_sound",
    "Pkgcore.C21.protected_never_overwritten",
    "Pkgcore.C21.protected_never_overwritten_through_links",
    "Pkgcore.C21.update_written_beside",
    "Pkgcore.C21.uninstall_keeps_modified",
    "Pkgcore.C21.uninstall_removes_the_rest",
    "Pkgcore.C21.history_keeps_wf",
    "Pkgcore.C21.history_protected_never_overwritten",
    "Pkgcore.C21.history_uninstall_keeps_modified",
]
TRUSTED = [
    "file contents are compared through snakeoil checksums (simple_chksum_compare); the model compares content identities, i.e. assumes no hash collision",
    "env.d parsing (collapse_envd / read_bash_dict) is not modelled: the model starts from the token lists; the check writes real env.d files (several files, "
    "skipped names, repeated tokens) and lets the real code parse them",
    "fnmatch.translate + re.match are re-expressed as a structural glob matcher for patterns built from literals, * and ?; bracket classes are not generated",
    "the merge / unmerge triggers themselves are abstracted to 'every file entry of the install cset is written to its location' / 'every entry of the uninstall "
    "cset is unlinked' (their own correctness is C18/C20); the check runs the real ones on a scratch root and compares the whole tree",
    "os.path.normpath / dirname / basename / join: the C22 character-level model (imported)",
]
ASSUMPTIONS = [
    "CONFIG_PROTECT / CONFIG_PROTECT_MASK entries name directories (an entry naming a single file protects nothing: the filter is a '<entry>/' prefix test)",
    "protection is flat as in the property text: under some CONFIG_PROTECT entry (or /etc), under no CONFIG_PROTECT_MASK entry, matched by no COLLISION_IGNORE pattern "
    "(no longest-prefix precedence between protect and mask entries)",
    "the incoming entry for a protected file is a regular file (a symlink or directory arriving over a protected file is outside the property's 'incoming file')",
    "pending updates are named ._cfgNNNN_<name> with four ASCII digits (Python's int() would also accept '+001', ' 001', '0_01' in that slot; not generated)",
    "at unmerge time only env.d settings protect (ConfigProtectUninstall is constructed without the domain's extra CONFIG_PROTECT entries, as in GenerateTriggers)",
    "offset '/' cannot be merged into inside the sandbox: for the root offset only the two filters are compared (read-only, on the sandbox's own /etc/env.d); "
    "complete engine runs use scratch roots with plain and unnormalised offsets. The theorems hold for every offset",
    "the package ships no ._cfgNNNN_ files and its entries have distinct locations (update_written_beside); pending update numbers stay below 9999",
]
RULE = ("[also: live roots on which up to three of the configuration directories (or /etc, /opt, /usr/share, /var/lib themselves) are symlinks to directories kept "
        "elsewhere on the root while the image ships real directories; trees are read back the way path names reach them] random scratch roots: env.d files (several, with skipped names) setting CONFIG_PROTECT / CONFIG_PROTECT_MASK / COLLISION_IGNORE (globs, directory entries, "
        "suffix-lookalikes), live config files, pending ._cfgNNNN_ updates (identical, different, gaps, malformed names), package images with identical and differing "
        "replacements, install / replace / uninstall engines with the ebuild config-protect triggers registered, plain and unnormalised offsets; single operations on fresh "
        "roots and histories of 2-4 operations of this one process on one root with config files and env.d edited in between (env.d files rewritten in place, "
        "created, removed; the root spelled differently) — every operation judged against the settings env.d holds when it runs; non-trivial = at "
        "least one file is protected-and-differing and at least one file is merged or removed normally")

DIRS = ["/etc", "/etc/app", "/etc/app/conf.d", "/opt/cfg", "/usr/share/x", "/var/lib/y", "/etc/ign", "/opt/cfg/sub", "/etc/w[0-9]", "/opt/c*g/sub"]
# file names from a hostile alphabet: glob / regex / shell metacharacters, spaces, leading dots and dashes
NAMES = ["foo", "bar.conf", "a b", ".keep", ".keep_x-0", "é", "x_y", "wg[0].conf", "a*b", "q?.conf", "[ab]", "x[y", "p+q(r)", "d$l^r", "b\\s", "{b,c}", "-n", "~t", "._cfg0000_nest", "c.d|e"]
CONTENTS = ["alpha\n", "beta\n", "gamma\n", "", "delta\n"]


def valid_envd_name(x):
    return not (x.endswith((".bak", "~")) or x.startswith("._cfg") or len(x) <= 2 or not x[0:2].isdigit())


def gen_case(rng, prev_envd=None, links=True, dir_links=True):
    """one operation on a scratch root.  With `prev_envd` (the env.d files of the operation before, same root) the new settings are spread over exactly
    the same file names, so that going from one to the other rewrites existing env.d files in place and neither creates nor removes a directory entry"""
    mode = rng.choice(["install", "install", "install", "replace", "uninstall"])
    protects = [rng.choice(["/opt/cfg", "/opt/cfg/", "/usr/share/x", "/var/lib", "/etc/app", "/opt//cfg/.", "/opt", "/opt/c*g", "/opt/c*g/sub"]) for _ in range(rng.choice([0, 0, 1, 1, 2]))]
    masks = [rng.choice(["/etc/app", "/etc/app/conf.d", "/opt/cfg/sub", "/etc/ign/", "/usr/share", "/etc/ap"]) for _ in range(rng.choice([0, 0, 1, 1, 2]))]
    ignores = [rng.choice(["/etc/foo", "/foo", "/etc/ign", "/etc/app/*", "/etc/*.conf", "*/bar.conf", "/opt/cfg/?oo", "/etc/ign/", "/etc/app/conf.d", "foo", "/etc/a*"])
               for _ in range(rng.choice([0, 0, 0, 1, 1, 2]))]
    # env.d files
    envd = []
    names = ["00basic", "50app", "99local", "70x"]
    rng.shuffle(names)
    keep = [f for f in (prev_envd or []) if valid_envd_name(f["name"])]
    if keep:
        names = [f["name"] for f in keep]
    buckets = [dict() for _ in range(len(keep) or rng.choice([1, 2, 3]))]
    for tok in protects:
        rng.choice(buckets).setdefault("CONFIG_PROTECT", []).append(tok)
    for tok in masks:
        rng.choice(buckets).setdefault("CONFIG_PROTECT_MASK", []).append(tok)
    if ignores:
        buckets[-1].setdefault("COLLISION_IGNORE", []).extend(ignores)     # not incremental: only the last definition counts
        if len(buckets) > 1 and rng.random() < 0.5:
            buckets[0]["COLLISION_IGNORE"] = ["/etc/overridden-by-later-file"]
    used = sorted(names[: len(buckets)])
    for n, b in zip(used, buckets):
        envd.append({"name": n, "vars": b})
    if keep:
        envd += [f for f in prev_envd if not valid_envd_name(f["name"])]
    elif rng.random() < 0.4:
        envd.append({"name": rng.choice(["50app.bak", "._cfg0000_50app", "x", "README", "60gcc~"]), "vars": {"CONFIG_PROTECT": ["/usr/share/x"], "CONFIG_PROTECT_MASK": ["/etc"]}})
    extra_protects = [rng.choice(["/var/lib/y", "/usr/share/x"])] if rng.random() < 0.25 else []
    extra_masks = [rng.choice(["/etc/app/conf.d", "/opt/cfg"])] if rng.random() < 0.15 else []

    live, image, old = {}, {}, {}
    paths = []
    for _ in range(rng.randint(1, 6)):
        p = rng.choice(DIRS) + "/" + rng.choice(NAMES)
        if p not in paths:
            paths.append(p)
    for p in paths:
        c_live = rng.choice(CONTENTS)
        r = rng.random()
        if mode in ("install", "replace"):
            if r < 0.55:
                live[p] = c_live
                image[p] = ["f", rng.choice(CONTENTS) if rng.random() < 0.7 else c_live]
            elif r < 0.65:
                image[p] = ["f", rng.choice(CONTENTS)]          # new file
            elif r < 0.70 and links:
                live[p] = c_live
                image[p] = ["l", "target"]                        # a symlink arriving over a live file
            else:
                live[p] = c_live
                image[p] = ["f", rng.choice(CONTENTS)]
            if mode == "replace" and rng.random() < 0.6:
                old[p] = rng.choice([c_live, c_live, rng.choice(CONTENTS)])
        if mode in ("uninstall",) or (mode == "replace" and rng.random() < 0.5 and p not in image):
            live[p] = c_live
            old[p] = rng.choice([c_live, rng.choice(CONTENTS)])
    if mode == "replace":
        for _ in range(rng.randint(0, 3)):       # files only the old version owned
            p = rng.choice(DIRS) + "/" + rng.choice(NAMES)
            if p not in image:
                c = rng.choice(CONTENTS)
                live[p] = c
                old[p] = rng.choice([c, rng.choice(CONTENTS)])
    # pending updates next to some of the incoming files
    for p, (k, c) in list(image.items()):
        if k != "f" or rng.random() < 0.35:
            continue
        d, b = posixpath.split(p)
        for _ in range(rng.randint(1, 3)):
            num = rng.choice(["0000", "0001", "0002", "0005", "0042", "9998", "12", "00a1", "00011"])
            sep = rng.choice(["_", "_", "_", "-"])
            other = rng.choice([b, b, b, "zzz"])
            live.setdefault(f"{d}/._cfg{num}{sep}{other}", rng.choice([c, c, rng.choice(CONTENTS)]))
    # directories named by COLLISION_IGNORE entries
    live_dirs = [x.rstrip("/") for x in ignores if rng.random() < 0.6 and x.startswith("/") and "*" not in x and "?" not in x and not any(l == x.rstrip("/") for l in list(live) + list(image) + list(old))]   # never a directory where a file lives or arrives
    case = {"mode": mode, "envd": envd, "extra_protects": extra_protects, "extra_masks": extra_masks, "live": live, "live_dirs": live_dirs,
            "image": image, "old": old, "offset_style": rng.choice(["plain", "plain", "plain", "trailing", "dotted", "double"]),
            "plugins": rng.random() < 0.03}
    if dir_links and rng.random() < 0.35:
        case["dir_links"] = gen_dir_links(rng, [case])
    return case


# directories that may be symlinks on the live root (the admin keeps a configuration directory on another volume: /etc/app -> ../srv/store0), while the
# package image ships them as real directories
LINKABLE = ["/etc/app", "/etc/app", "/etc/app/conf.d", "/opt/cfg", "/opt/cfg", "/opt", "/usr/share/x", "/usr/share", "/var/lib/y", "/var/lib", "/etc/ign",
            "/opt/cfg/sub", "/etc/w[0-9]", "/opt/c*g", "/opt/c*g/sub", "/etc"]
STORES = ["/srv/store%d", "/srv/store%d", "/usr/local/store%d", "/srv/st%%ore [%d]"]


def gen_dir_links(rng, steps):
    """{directory of the root that is a symlink: the real directory (path in the root) it points to}; links are not nested and only directories
    that some file of the case lives under are chosen"""
    used = set()
    for c in steps:
        for p in list(c["live"]) + list(c["image"]) + list(c["old"]) + [d + "/x" for d in c["live_dirs"]]:
            d = posixpath.dirname(p)
            while d not in ("/", ""):
                used.add(d)
                d = posixpath.dirname(d)
    files = set()
    for c in steps:
        files.update(c["live"], c["image"], c["old"])
    def below(c, key, d):
        return any(p.startswith(d + "/") for p in c[key])
    # an unmerge works on what it finds on the live root where the package recorded something: a recorded directory that is a symlink there is taken
    # for a symlink of the package and unlinked (unmerge semantics, C20) -- not the subject here.  So a directory is only made a link if every operation
    # that has recorded entries below it also installs below it (the link then belongs to what is merged and stays).
    cand = [d for d in LINKABLE if d in used and d not in files and all(below(c, "image", d) or not below(c, "old", d) for c in steps)]
    rng.shuffle(cand)
    links = {}
    for d in cand:
        if len(links) >= rng.choice([1, 1, 2, 3]):
            break
        if any(d == l or d.startswith(l + "/") or l.startswith(d + "/") for l in links):
            continue
        links[d] = rng.choice(STORES) % len(links)
    return links


def gen_history(rng):
    """2-4 operations of ONE process on ONE root (what pmerge does for a package list).  Between two operations the admin / other tools edit files of the
    root (`live` of a later step = files written before that step, existing ones rewritten in place) and env.d: mostly by rewriting the existing env.d
    files in place, otherwise by an arbitrary new set of files (created, rewritten, removed)."""
    steps = []
    for i in range(rng.choice([2, 2, 3, 3, 4])):
        prev = steps[-1]["envd"] if steps and rng.random() < 0.7 else None
        c = gen_case(rng, prev_envd=prev, links=False, dir_links=False)
        c["plugins"] = False
        if steps and rng.random() < 0.5:
            c["offset_style"] = steps[0]["offset_style"]
        steps.append(c)
    # a path is a file or a directory for the whole history
    files = set()
    for c in steps:
        files.update(c["live"], c["image"], c["old"])
    for c in steps:
        c["live_dirs"] = [d for d in c["live_dirs"] if d not in files]
    if rng.random() < 0.3:
        # the same directories are symlinks for the whole history
        links = gen_dir_links(rng, steps)
        for c in steps:
            c["dir_links"] = dict(links)
    return {"steps": steps}


def settings_of(case):
    """token lists the real collapse_envd must come up with"""
    prot, mask, ign = [], [], None
    for f in sorted(case["envd"], key=lambda f: f["name"]):
        if not valid_envd_name(f["name"]):
            continue
        prot += f["vars"].get("CONFIG_PROTECT", [])
        mask += f["vars"].get("CONFIG_PROTECT_MASK", [])
        if "COLLISION_IGNORE" in f["vars"]:
            ign = list(f["vars"]["COLLISION_IGNORE"])
    return prot, mask, (ign or [])


def C(mode, envd, live, image=None, old=None, **kw):
    d = {"mode": mode, "envd": [{"name": n, "vars": v} for n, v in envd], "extra_protects": [], "extra_masks": [], "live": live, "live_dirs": [],
         "image": image or {}, "old": old or {}, "offset_style": "plain", "plugins": False}
    d.update(kw)
    return d


CORPUS = [
    # protected directories that are symlinks on the live root (kept on another volume); the image ships them as real directories
    C("install", [], {"/etc/app/app.conf": "admin edit\n", "/etc/app/same.conf": "same\n"},
      {"/etc/app/app.conf": ["f", "pkg v2\n"], "/etc/app/same.conf": ["f", "same\n"], "/etc/app/new.conf": ["f", "n\n"], "/usr/bin/app": ["f", "bin\n"]},
      dir_links={"/etc/app": "/srv/store0"}),
    C("replace", [("50local", {"CONFIG_PROTECT": ["/var/lib/y"]})], {"/var/lib/y/svc.ini": "admin ini\n", "/var/lib/y/._cfg0000_svc.ini": "pkg ini v1\n", "/var/lib/y/gone": "v1\n"},
      {"/var/lib/y/svc.ini": ["f", "pkg ini v2\n"]}, old={"/var/lib/y/svc.ini": "pkg ini v1\n", "/var/lib/y/gone": "v1\n"}, dir_links={"/var/lib/y": "/srv/store0"}),
    C("install", [("50x", {"CONFIG_PROTECT": ["/opt/cfg"], "CONFIG_PROTECT_MASK": ["/opt/cfg/sub"]})],
      {"/opt/cfg/a": "old\n", "/opt/cfg/._cfg0003_a": "new\n", "/opt/cfg/sub/b": "old\n", "/etc/foo": "old\n"},
      {"/opt/cfg/a": ["f", "new\n"], "/opt/cfg/sub/b": ["f", "new\n"], "/etc/foo": ["f", "new\n"]}, dir_links={"/opt": "/srv/store0", "/etc": "/usr/local/store1"}, offset_style="dotted"),
    C("install", [], {"/etc/wg[0].conf": "old\n", "/etc/._cfg0000_wg[0].conf": "pending\n", "/etc/._cfg0002_wg[0].conf": "new\n", "/etc/._cfg0001_wg0.conf": "neighbour\n"},
      {"/etc/wg[0].conf": ["f", "new\n"]}),
    C("install", [], {"/etc/a*b": "old\n", "/etc/._cfg0000_a*b": "p0\n", "/etc/._cfg0000_axb": "other file\n", "/etc/q?.conf": "old\n", "/etc/._cfg0003_q?.conf": "p3\n"},
      {"/etc/a*b": ["f", "new\n"], "/etc/q?.conf": ["f", "new\n"], "/etc/axb": ["f", "n\n"]}),
    C("install", [("50x", {"CONFIG_PROTECT": ["/opt/c*g"]})], {"/opt/c*g/sub/x[y": "old\n", "/opt/c*g/sub/._cfg0000_x[y": "p\n", "/opt/cfg/sub/x[y": "old\n"},
      {"/opt/c*g/sub/x[y": ["f", "new\n"], "/opt/cfg/sub/x[y": ["f", "new\n"]}),
    # offset root (fixed: nothing was protected under an offset)
    C("install", [], {"/etc/foo": "old\n"}, {"/etc/foo": ["f", "new\n"], "/usr/bin/x": ["f", "x\n"]}),
    C("install", [], {"/etc/foo": "same\n"}, {"/etc/foo": ["f", "same\n"]}),
    # identical pending update is reused (fixed: the live file was compared instead of the pending one)
    C("install", [], {"/etc/foo": "old\n", "/etc/._cfg0003_foo": "new\n", "/etc/._cfg0001_foo": "other\n"}, {"/etc/foo": ["f", "new\n"]}),
    C("install", [], {"/etc/foo": "old\n", "/etc/._cfg0003_foo": "x\n", "/etc/._cfg0007_foo": "y\n", "/etc/._cfg0009_bar": "z\n", "/etc/._cfg00a1_foo": "q\n"}, {"/etc/foo": ["f", "new\n"]}),
    # COLLISION_IGNORE set in env.d (fixed: AttributeError swallowed by the engine, no protection at all)
    C("install", [("50x", {"COLLISION_IGNORE": ["/etc/foo"]})], {"/etc/foo": "old\n", "/etc/bar": "old\n"}, {"/etc/foo": ["f", "new\n"], "/etc/bar": ["f", "new\n"]}),
    # directory entry in COLLISION_IGNORE (fixed: list.rstrip)
    C("install", [("50x", {"COLLISION_IGNORE": ["/etc/ign"]})], {"/etc/ign/a": "old\n", "/etc/b": "old\n"}, {"/etc/ign/a": ["f", "new\n"], "/etc/b": ["f", "new\n"]}),
    # a glob must match the whole path (fixed: suffix match took /etc/foo out of protection for COLLISION_IGNORE=/foo)
    C("install", [("50x", {"COLLISION_IGNORE": ["/foo"]})], {"/etc/foo": "old\n"}, {"/etc/foo": ["f", "new\n"]}, offset_style="plain"),
    C("install", [("10a", {"CONFIG_PROTECT": ["/opt/cfg"], "CONFIG_PROTECT_MASK": ["/etc/sub"]}), ("20b", {"CONFIG_PROTECT": ["/var/lib/y/"]})],
      {"/etc/foo": "old\n", "/opt/cfg/a": "old\n", "/etc/sub/b": "old\n", "/var/lib/y/c": "old\n", "/var/lib/yy/d": "old\n"},
      {"/etc/foo": ["f", "new\n"], "/opt/cfg/a": ["f", "new\n"], "/etc/sub/b": ["f", "new\n"], "/var/lib/y/c": ["f", "new\n"], "/var/lib/yy/d": ["f", "new\n"]}),
    # unmerge (fixed: offset never applied; every live file compared with itself)
    C("uninstall", [("50x", {"CONFIG_PROTECT_MASK": ["/etc/m"]})], {"/etc/foo": "edited\n", "/etc/bar": "orig\n", "/usr/x": "edited\n", "/etc/m/q": "edited\n"},
      old={"/etc/foo": "orig\n", "/etc/bar": "orig\n", "/usr/x": "orig\n", "/etc/m/q": "orig\n"}),
    C("replace", [], {"/etc/foo": "edited\n", "/etc/gone": "edited\n", "/etc/gone2": "orig\n"}, {"/etc/foo": ["f", "new\n"]},
      old={"/etc/foo": "orig\n", "/etc/gone": "orig\n", "/etc/gone2": "orig\n"}),
    C("install", [], {"/etc/foo": "old\n", "/etc/lnk": "old\n", "/etc/bar": "old\n"}, {"/etc/foo": ["f", "new\n"], "/etc/lnk": ["l", "foo"], "/etc/bar": ["f", "new\n"]}),
    C("install", [], {"/etc/foo": "old\n"}, {"/etc/foo": ["f", "new\n"]}, offset_style="double"),
    C("install", [], {"/etc/.keep": "old\n", "/etc/.keep_app-0": "old\n", "/etc/x": "old\n"}, {"/etc/.keep": ["f", ""], "/etc/.keep_app-0": ["f", ""], "/etc/x": ["f", "n\n"]}),
]


V1 = {"/opt/cfg/app.conf": ["f", "v1 defaults\n"], "/usr/share/x/site.conf": ["f", "v1 site\n"], "/usr/bin/app": ["f", "1\n"], "/etc/app/a.conf": ["f", "v1 a\n"]}
V2 = {"/opt/cfg/app.conf": ["f", "v2 defaults\n"], "/usr/share/x/site.conf": ["f", "v2 site\n"], "/usr/bin/app": ["f", "2\n"], "/etc/app/a.conf": ["f", "v2 a\n"]}
EDITS = {"/opt/cfg/app.conf": "v1 defaults, edited\n", "/usr/share/x/site.conf": "v1 site, edited\n", "/etc/app/a.conf": "v1 a, edited\n"}
# several operations of one process on one root; `live` of a later step = what is written to the root before that operation (existing files in place)
HISTORY_CORPUS = [
    # CONFIG_PROTECT grows by an in-place edit of an existing env.d file between two merges, then shrinks again before the unmerge
    {"steps": [C("install", [("99local", {"CONFIG_PROTECT": ["/opt/cfg"]})], {}, V1),
               C("install", [("99local", {"CONFIG_PROTECT": ["/opt/cfg", "/usr/share/x"]})], EDITS, V2),
               C("uninstall", [("99local", {"CONFIG_PROTECT": ["/usr/share/x"]})], {}, old={p: v[1] for p, v in V2.items()})]},
    # a mask appears (in place): what was protected for the first merge is merged normally by the second
    {"steps": [C("install", [("50app", {"CONFIG_PROTECT": ["/opt/cfg"]}), ("99local", {})], {"/etc/app/a.conf": "mine\n", "/opt/cfg/app.conf": "mine\n"}, V1),
               C("install", [("50app", {"CONFIG_PROTECT": ["/opt/cfg"]}), ("99local", {"CONFIG_PROTECT_MASK": ["/etc/app", "/opt/cfg"]})], {}, V2)]},
    # merge, admin edits + protects, unmerge in the same process
    {"steps": [C("install", [("99local", {"CONFIG_PROTECT": []})], {}, V1),
               C("uninstall", [("99local", {"CONFIG_PROTECT": ["/usr/share/x", "/opt"]})], EDITS, old={p: v[1] for p, v in V1.items()})]},
    # COLLISION_IGNORE entry dropped in place; the root spelled differently by the second operation
    {"steps": [C("install", [("50x", {"COLLISION_IGNORE": ["/etc/app/*"]})], {"/etc/app/a.conf": "mine\n"}, V1),
               C("install", [("50x", {"COLLISION_IGNORE": ["/etc/nothing"]})], {"/etc/app/a.conf": "mine again\n"}, V2, offset_style="double")]},
    # env.d files created and removed between the operations
    {"steps": [C("install", [("10a", {"CONFIG_PROTECT": ["/opt/cfg"]})], {}, V1),
               C("install", [("20b", {"CONFIG_PROTECT": ["/usr/share/x"]})], EDITS, V2),
               C("replace", [("10a", {"CONFIG_PROTECT_MASK": ["/etc"]}), ("20b", {"CONFIG_PROTECT": ["/usr/share/x"]})], {"/etc/app/a.conf": "third\n"}, V1, old={p: v[1] for p, v in V2.items()})]},
]


# ------------------------------------------------------------------ the property, from its text

class Oracle:
    def __init__(self, case, root):
        self.case = case
        prot, mask, ign = settings_of(case)
        self.inst_prot = prot + list(case["extra_protects"]) + ["/etc"]
        self.inst_mask = mask + list(case["extra_masks"])
        self.un_prot = prot + ["/etc"]
        self.un_mask = mask
        self.ign = ign + ["*/.keep", "*/.keep_*"]
        self.root = root
        self.live_dirs = set(case["live_dirs"])
        for p in case["live"]:
            d = posixpath.dirname(p)
            while d not in ("/", ""):
                self.live_dirs.add(d)
                d = posixpath.dirname(d)

    @staticmethod
    def under(p, d):
        d = posixpath.normpath("/" + d.lstrip("/")).rstrip("/") + "/"
        return p.startswith(d)

    def ignored(self, p):
        for pat in self.ign:
            if pat.startswith("/"):
                if not pat.endswith("/*") and pat.rstrip("/") in self.live_dirs or (pat.rstrip("/") == "" and not pat.endswith("/*")):
                    pat = pat.rstrip("/") + "/*"
                if fnmatch.fnmatchcase(p, pat):
                    return True
            elif fnmatch.fnmatchcase(self.root + p, pat):
                return True
        return False

    def protected(self, p, uninstall=False):
        prot, mask = (self.un_prot, self.un_mask) if uninstall else (self.inst_prot, self.inst_mask)
        return any(self.under(p, d) for d in prot) and not any(self.under(p, m) for m in mask) and not self.ignored(p)


def parse_cfg(name):
    if len(name) >= 10 and name.startswith("._cfg") and name[5:9].isascii() and name[5:9].isdigit() and name[9] == "_":
        return int(name[5:9]), name[10:]
    return None


# ------------------------------------------------------------------ running the real engine

def put(base, rel, data):
    p = base + rel
    os.makedirs(os.path.dirname(p), exist_ok=True)
    with open(p, "w") as f:
        f.write(data)


def walk_logical(root, links):
    """(logical path, physical path, kind) of everything on the root, read the way a path name reaches it: the directory symlinks the case declares
    (`links`: logical directory -> real directory it points to) are followed and what lies behind them is reported under the link's name; the real
    directories themselves are not listed a second time.  kind: 'f' file, 'l' any other symlink, 'd' directory (real or declared link),
    'x' a declared link that is no longer the symlink it was"""
    stores = set(links.values())
    out = []
    stack = [("", root)]
    while stack:
        ldir, pdir = stack.pop()
        for name in sorted(os.listdir(pdir)):
            lp, pp = ldir + "/" + name, os.path.join(pdir, name)
            if lp in stores and pdir == root + ldir:
                continue
            if os.path.islink(pp):
                if lp in links and os.path.realpath(pp) == os.path.realpath(root + links[lp]):
                    out.append((lp, pp, "d"))
                    stack.append((lp, root + links[lp]))
                else:
                    out.append((lp, pp, "l"))
            elif os.path.isdir(pp):
                out.append((lp, pp, "x" if lp in links else "d"))
                stack.append((lp, pp))
            else:
                out.append((lp, pp, "f"))
    return out


def tree(root, links=None):
    out = {}
    for rel, p, kind in walk_logical(root, links or {}):
        if rel.startswith("/etc/env.d/") or rel in ("/etc/ld.so.conf", "/etc/ld.so.cache"):
            continue
        if kind == "l":
            out[rel] = ["l", os.readlink(p)]
        elif kind == "f":
            with open(p, "r") as fh:
                out[rel] = ["f", fh.read()]
        elif kind == "x":
            out[rel] = ["d", "a real directory now; it was a symlink to " + links[rel]]
    return out


class Recorder:
    def __init__(self):
        self.lines = []

    def warn(self, msg, *a, **k):
        self.lines.append(("warn", msg))

    def info(self, msg, *a, **k):
        self.lines.append(("info", msg))

    error = debug = write = info

    def flush(self):
        pass


def sync_envd(root, envd):
    """make /etc/env.d hold exactly `envd`; a file that exists already is rewritten in place (same inode, the directory itself is not touched),
    as `echo … > file`, an editor or a pkg_postinst appending to it would do"""
    d = root + "/etc/env.d"
    os.makedirs(d, exist_ok=True)
    want = {f["name"]: "".join('%s="%s"\n' % (k, " ".join(v)) for k, v in f["vars"].items()) for f in envd}
    kinds = set()
    for name in os.listdir(d):
        if name not in want:
            os.unlink(os.path.join(d, name))
            kinds.add("removed")
    for name, text in want.items():
        p = os.path.join(d, name)
        if os.path.exists(p):
            with open(p) as f:
                if f.read() == text:
                    continue
            kinds.add("rewritten")
        else:
            kinds.add("created")
        with open(p, "w") as f:
            f.write(text)
    return kinds


def list_dirs(root, links=None):
    return sorted(rel for rel, p, kind in walk_logical(root, links or {}) if kind in ("d", "x"))


def make_dir_links(root, links):
    """the declared directory symlinks (relative targets, valid under any offset) and the directories they point to"""
    for l, t in links.items():
        os.makedirs(root + t, exist_ok=True)
        if not os.path.lexists(root + l):
            os.makedirs(os.path.dirname(root + l), exist_ok=True)
            os.symlink(posixpath.relpath(t, posixpath.dirname(l)), root + l)


def run_steps(steps, scratch, mods):
    """the operations of `steps` one after the other on one scratch root, in this process.  Returns [(effective case, result)]: the effective case of a
    step is the step with `live` / `live_dirs` = everything that is on the root when the operation starts."""
    base = tempfile.mkdtemp(dir=scratch)
    root = os.path.join(base, "root")
    os.makedirs(root)
    out = []
    try:
        for i, case in enumerate(steps):
            links = case.get("dir_links") or {}
            make_dir_links(root, links)
            for p, c in case["live"].items():
                put(root, p, c)
            for d in case["live_dirs"]:
                os.makedirs(root + d, exist_ok=True)
            edits = sync_envd(root, case["envd"])
            eff = case
            if i:
                before = tree(root, links)
                eff = dict(case)
                eff["live"] = {p: v[1] for p, v in before.items() if v[0] == "f"}
                eff["live_dirs"] = [d for d in list_dirs(root, links) if d != "/etc/env.d"]
            res = run_op(eff, base, root, i, mods)
            res["envd_edits"] = sorted(edits) if i else []
            out.append((eff, res))
            if res["exc"]:
                break
    finally:
        shutil.rmtree(base, ignore_errors=True)
    return out


def run_op(case, base, root, i, mods):
    contents, livefs, engine, mtriggers, etriggers, observer_mod, Pkg = mods
    style = case["offset_style"]
    offset = {"plain": root, "trailing": root + "/", "dotted": base + "/./root", "double": base + "//root"}[style]

    def scan(files, name):
        img = os.path.join(base, "%s%d" % (name, i))
        os.makedirs(img)
        for p, v in files.items():
            if v[0] == "f":
                put(img, p, v[1])
            elif v[0] == "l":
                os.makedirs(os.path.dirname(img + p), exist_ok=True)
                os.symlink(v[1], img + p)
        cs = contents.contentsSet(livefs.iter_scan(img, offset=img))
        for x in cs.iterfiles():
            dict(x.chksums)          # what a vdb records
        return cs

    new_cs = scan(case["image"], "image") if case["mode"] != "uninstall" else None
    old_cs = scan({p: ["f", c] for p, c in case["old"].items()}, "oldimage") if case["mode"] != "install" else None
    rec = Recorder()
    obs = observer_mod.repo_observer(rec)
    tmp = os.path.join(base, "tmp%d" % i)
    kw = dict(offset=offset, observer=obs, disable_plugins=not case["plugins"])
    res = {"exc": None, "recorded": None}
    try:
        if case["mode"] == "install":
            eng = engine.MergeEngine.install(tmp, Pkg(new_cs), **kw)
            phases = ("sanity_check", "pre_merge", "merge", "post_merge")
        elif case["mode"] == "uninstall":
            eng = engine.MergeEngine.uninstall(tmp, Pkg(old_cs), **kw)
            phases = ("sanity_check", "pre_unmerge", "unmerge", "post_unmerge")
        else:
            eng = engine.MergeEngine.replace(tmp, Pkg(old_cs), Pkg(new_cs), **kw)
            phases = ("sanity_check", "pre_merge", "merge", "post_merge", "pre_unmerge", "unmerge", "post_unmerge")
        if not case["plugins"]:
            mtriggers.merge().register(eng)
            mtriggers.unmerge().register(eng)
        etriggers.ConfigProtectInstall(case["extra_protects"], case["extra_masks"]).register(eng)
        etriggers.ConfigProtectUninstall().register(eng)
        for ph in phases:
            getattr(eng, ph)()
            if ph == "post_merge":
                res["recorded"] = sorted(x.location for x in eng.get_merged_cset() if not x.is_dir)
        eng.final()
    except Exception as e:
        res["exc"] = "%s: %s" % (type(e).__name__, e)
    for kind, msg in rec.lines:
        if "unhandled exception" in msg:
            res["exc"] = "a trigger raised and the engine suppressed it: " + msg.strip().splitlines()[-1]
    res["tree"] = tree(root, case.get("dir_links"))
    res["root"] = root
    return res


def expected_tree(case, orc):
    """(expected files {path: ['f', content] | ['l', target]}, constraints) by the property text; numbering left to `numbers`"""
    live = {p: ["f", c] for p, c in case["live"].items()}
    notes = {"protected": [], "merged": [], "kept": [], "removed": []}
    numbering = {}        # protected path -> (dir, base, incoming content)
    if case["mode"] in ("install", "replace"):
        for p, v in case["image"].items():
            if v[0] == "f" and p in case["live"] and case["live"][p] != v[1] and orc.protected(p):
                notes["protected"].append(p)
                numbering[p] = v[1]
            else:
                live[p] = list(v)
                notes["merged"].append(p)
    if case["mode"] in ("uninstall", "replace"):
        for p, c in case["old"].items():
            if case["mode"] == "replace" and p in case["image"]:
                continue
            if p not in live:
                continue
            if live[p][0] == "f" and live[p][1] != c and orc.protected(p, uninstall=True):
                notes["kept"].append(p)
            else:
                del live[p]
                notes["removed"].append(p)
    return live, numbering, notes


def check_property(case, res, orc):
    """returns a failure description or None; evaluates the property text on the real result"""
    exp, numbering, notes = expected_tree(case, orc)
    got = dict(res["tree"])
    # protected files: untouched, update beside them under a correct number
    for p, content in numbering.items():
        if got.get(p) != ["f", case["live"][p]]:
            return f"protected {p} (content {case['live'][p]!r}) was overwritten/removed: now {got.get(p)}"
        d, b = posixpath.split(p)
        pend = {}
        for q, c in case["live"].items():
            if posixpath.dirname(q) == d:
                pc = parse_cfg(posixpath.basename(q))
                if pc and pc[1] == b:
                    pend[pc[0]] = c
        new = [q for q in got if posixpath.dirname(q) == d and parse_cfg(posixpath.basename(q)) and parse_cfg(posixpath.basename(q))[1] == b
               and (q not in case["live"] or got[q] != ["f", case["live"][q]])]
        ident = [n for n, c in pend.items() if c == content]
        if ident:
            # must reuse: no new ._cfg file for this name, identical pending ones untouched
            if new:
                return f"an identical pending update exists for {p} (numbers {sorted(ident)}) but new update file(s) {new} were written"
        else:
            if len(new) != 1:
                return f"expected exactly one new ._cfg update for {p}, found {new}"
            n = parse_cfg(posixpath.basename(new[0]))[0]
            if got[new[0]] != ["f", content]:
                return f"update {new[0]} does not hold the incoming content"
            if pend and n <= max(pend):
                return f"new update number {n} for {p} does not exceed the existing numbers {sorted(pend)}"
        for q in new:
            exp[q] = got[q]
        for n in ident:
            pass
    if res["recorded"] is not None:
        want = sorted(p for p, v in case["image"].items())
        if res["recorded"] != want:
            return f"recorded contents {res['recorded']} differ from the package's real names {want}"
    for p in notes["kept"]:
        if got.get(p) != ["f", case["live"][p]]:
            return f"modified protected file {p} was removed/changed by unmerge: now {got.get(p)}"
    # everything else: merged / removed normally, nothing else touched
    if got != exp:
        diff = {k: (exp.get(k), got.get(k)) for k in set(exp) | set(got) if exp.get(k) != got.get(k)}
        return f"live tree differs from the expected one (expected, got): {dict(sorted(diff.items()))}"
    return None


def model_settings(case, root, offset, uninstall):
    prot, mask, ign = settings_of(case)
    if not uninstall:
        prot = prot + list(case["extra_protects"])
        mask = mask + list(case["extra_masks"])
    dirs = set(case["live_dirs"])
    for p in list(case["live"]) + ["/etc/env.d/x"]:
        d = posixpath.dirname(p)
        while d not in ("/", ""):
            dirs.add(d)
            d = posixpath.dirname(d)
    return {"offset": offset, "protects": prot, "masks": mask, "ignores": ign, "dirs": sorted(root + d for d in dirs) + [root]}


def split(root, p):
    d, b = posixpath.split(p)
    return (root + d).rstrip("/") if d != "/" else root, b


def model_requests(case, root, offset, ids):
    """(kind, request) list for one case; contents are mapped to small integers"""
    def cid(c):
        return ids.setdefault(c, len(ids) + 1)
    live = [{"dir": split(root, p)[0], "base": split(root, p)[1], "content": cid(c)} for p, c in case["live"].items()]
    reqs = []
    if case["mode"] in ("install", "replace"):
        inst = [{"dir": split(root, p)[0], "base": split(root, p)[1], "reg": v[0] == "f", "content": cid(v[1]) if v[0] == "f" else 0} for p, v in case["image"].items()]
        r = {"cmd": "c21.install", "live": live, "install": inst}
        r.update(model_settings(case, root, offset, False))
        reqs.append(("install", r))
    if case["mode"] in ("uninstall", "replace"):
        rec = [{"dir": split(root, p)[0], "base": split(root, p)[1], "reg": True, "content": cid(c)} for p, c in case["old"].items()
               if not (case["mode"] == "replace" and p in case["image"])]
        r = {"cmd": "c21.uninstall", "live": live, "recorded": rec}
        r.update(model_settings(case, root, offset, True))
        reqs.append(("uninstall", r))
    return reqs


def filter_differential(ctx, etriggers, scratch):
    """the two filters of the real code against the model on many locations, several settings"""
    rng = ctx.rng
    pats = ["/etc/foo", "/foo", "/etc/ign", "/etc/app/*", "/etc/*.conf", "*/bar.conf", "/opt/cfg/?oo", "/etc/ign/", "/etc/app/conf.d", "foo", "/etc/a*", "*", "/*",
            "/etc/**/x", "/e?c/f*o", "/etc/f", "*.conf", "/etc/*/", "?", "/opt/*/sub/*", "*o*o*", "/etc/ign/*"]
    comps = ["etc", "etcetera", "opt", "cfg", "app", "conf.d", "foo", "bar.conf", "ign", "f", "fooo", ".keep", ".keep_a-1", "sub", "x", "a b"]
    n_set = ctx.n(40, 400)
    batch = []
    for k in range(n_set):
        base = tempfile.mkdtemp(dir=scratch)
        root = os.path.join(base, "r")
        style = rng.choice(["plain", "trailing", "dotted", "double", "slash"])
        offset = {"plain": root, "trailing": root + "/", "dotted": base + "/./r", "double": base + "//r", "slash": root}[style]
        prot = [rng.choice(["/opt/cfg", "/opt/cfg/", "/usr/share/x", "/var/lib", "/etc/app", "/opt//cfg/.", "/opt", "/", "/etc/app/../app", "opt/cfg"]) for _ in range(rng.randrange(3))]
        mask = [rng.choice(["/etc/app", "/etc/app/conf.d", "/opt/cfg/sub", "/etc/ign/", "/usr/share", "/etc/ap", "/etc"]) for _ in range(rng.randrange(3))]
        ign = [rng.choice(pats) for _ in range(rng.randrange(4))]
        dirs = [d for d in ("/etc/ign", "/etc/app/conf.d", "/etc/foo", "/foo", "/etc/f") if rng.random() < 0.4]
        os.makedirs(root + "/etc/env.d")
        for d in dirs:
            os.makedirs(root + d, exist_ok=True)
        locs = []
        for _ in range(60):
            locs.append(root + "/" + "/".join(rng.choice(comps) for _ in range(rng.randint(1, 4))))
        locs += [root, root + "/etc", "/etc/foo", root + "x/etc/foo"]
        alld = set()
        for d in dirs + ["/etc/env.d"]:
            while d not in ("/", ""):
                alld.add(d)
                d = posixpath.dirname(d)
        # the filters are asked for again and again by one process (every trigger run of every package): second and third round on the same root after
        # env.d was rewritten in place with other settings
        for rnd in range(rng.choice([1, 2, 2, 3])):
            if rnd:
                style = rng.choice([style, style, "plain", "double"])
                offset = {"plain": root, "trailing": root + "/", "dotted": base + "/./r", "double": base + "//r", "slash": root}[style]
                prot = [rng.choice(["/opt/cfg", "/usr/share/x", "/var/lib", "/etc/app", "/opt", "/"]) for _ in range(rng.randrange(3))]
                mask = [rng.choice(["/etc/app", "/etc/app/conf.d", "/opt/cfg/sub", "/usr/share", "/etc"]) for _ in range(rng.randrange(3))]
                ign = [rng.choice(pats) for _ in range(rng.randrange(4))]
                ctx.count("filter_settings_rewritten_in_place")
            with open(root + "/etc/env.d/50x", "w") as f:
                f.write('CONFIG_PROTECT="%s"\nCONFIG_PROTECT_MASK="%s"\n' % (" ".join(prot), " ".join(mask)))
                if ign:
                    f.write('COLLISION_IGNORE="%s"\n' % " ".join(ign))
            try:
                pf = etriggers.gen_config_protect_filter(offset).match
                igf = etriggers.gen_collision_ignore_filter(offset).match
                impl = [[bool(pf(l)), bool(igf(l))] for l in locs]
            except Exception as e:
                ctx.violation({"offset_style": style, "protects": prot, "masks": mask, "ignores": ign}, f"building/applying the filters raised {type(e).__name__}: {e}")
                break
            batch.append(({"cmd": "c21.filters", "offset": offset, "protects": prot, "masks": mask, "ignores": ign, "dirs": sorted(root + d for d in alld) + [root], "locs": locs},
                          (style + (" (round %d on this root: env.d rewritten in place)" % (rnd + 1) if rnd else ""), prot, mask, ign, dirs, sorted(alld), root, locs, impl)))
        shutil.rmtree(base, ignore_errors=True)
    # offset "/" (read-only): whatever the real /etc/env.d says, on a fixed list of paths
    try:
        cd, _i, _c = etriggers.collapse_envd("/etc/env.d")
        prot, mask = list(cd.get("CONFIG_PROTECT", [])), list(cd.get("CONFIG_PROTECT_MASK", []))
        ign = cd.get("COLLISION_IGNORE", [])
        ign = ign.split() if isinstance(ign, str) else list(ign)
        locs = ["/etc/passwd", "/etc/env.d/00basic", "/usr/bin/env", "/etc", "/etcetera/x", "/etc/.keep", "/usr/share/.keep_x-0", "/opt/cfg/a", "/", "/etc/app/._cfg0000_x"]
        pf = etriggers.gen_config_protect_filter("/").match
        igf = etriggers.gen_collision_ignore_filter("/").match
        impl = [[bool(pf(l)), bool(igf(l))] for l in locs]
        isd = [l.rstrip("/") for l in ign if l.startswith("/") and os.path.isdir(l)]
        batch.append(({"cmd": "c21.filters", "offset": "/", "protects": prot, "masks": mask, "ignores": ign, "dirs": isd, "locs": locs},
                      ("root", prot, mask, ign, isd, isd, "", locs, impl)))
        ctx.count("root_offset_filter_check")
    except Exception as e:
        ctx.violation({"offset": "/"}, f"building the filters for the root offset raised {type(e).__name__}: {e}")
    for (req, (style, prot, mask, ign, dirs, alld, root, locs, impl)), rep in zip(batch, ctx.model([b[0] for b in batch])):
        # the property's own reading, on root-relative paths
        orc_case = {"envd": [{"name": "50x", "vars": {"CONFIG_PROTECT": prot, "CONFIG_PROTECT_MASK": mask, "COLLISION_IGNORE": ign}}], "extra_protects": [], "extra_masks": [],
                    "live": {}, "live_dirs": sorted(alld)}
        orc = Oracle(orc_case, root)
        for l, got, m in zip(locs, impl, rep if isinstance(rep, list) else [None] * len(locs)):
            ctx.evaluations += 1
            case = {"offset_style": style, "protects": prot, "masks": mask, "ignores": ign, "dirs": dirs, "loc": l[len(root):] if l.startswith(root + "/") else l}
            if l.startswith(root + "/"):
                rel = l[len(root):]
                want_p = any(orc.under(rel, d) for d in orc.un_prot) and not any(orc.under(rel, mm) for mm in orc.un_mask)
                want_i = orc.ignored(rel)
                if got != [want_p, want_i]:
                    ctx.violation(case, f"filters give protected={got[0]} ignored={got[1]}; the settings say protected={want_p} ignored={want_i}")
                    continue
            if m != got:
                ctx.mismatch(case, f"real filters give {got}, the Lean model gives {m}")
        ctx.count("filter_settings")


def run(ctx):
    from pkgcore.fs import contents, livefs
    from pkgcore.merge import engine
    from pkgcore.merge import triggers as mtriggers
    from pkgcore.ebuild import triggers as etriggers
    from pkgcore.operations import observer as observer_mod

    class Pkg:
        def __init__(self, c):
            self.contents = c

        def __str__(self):
            return "verif/c21-1"

    mods = (contents, livefs, engine, mtriggers, etriggers, observer_mod, Pkg)
    rng = ctx.rng
    cases = [dict(c) for c in CORPUS]
    if ctx.replay_cases:
        cases = [c for c in ctx.replay_cases if "envd" in c] + cases
    for _ in range(ctx.n(300, 6000)):
        cases.append(gen_case(rng))
    # runs with the engine's default plugins spawn ldconfig and are slow: keep a bounded number of them
    budget = ctx.n(5, 60)
    for c in cases:
        if c["plugins"]:
            if budget <= 0:
                c["plugins"] = False
            budget -= 1
    # histories: several operations of this one process on one root, env.d and config files edited in between
    hists = [{"steps": [dict(c) for c in h["steps"]]} for h in HISTORY_CORPUS]
    if ctx.replay_cases:
        hists = [h for h in ctx.replay_cases if "steps" in h] + hists
    for _ in range(ctx.n(70, 1400)):
        hists.append(gen_history(rng))
    runs = [{"steps": [c]} for c in cases] + hists
    scratch = tempfile.mkdtemp(prefix="verif-c21-", dir="/dev/shm" if os.access("/dev/shm", os.W_OK) else None)
    # hash with the two handlers a vdb CONTENTS file records (md5 + size): with the full handler set snakeoil starts ten threads per file
    from snakeoil import chksum
    chksum.get_handlers()
    saved_handlers = dict(chksum.chksum_types)
    for k in list(chksum.chksum_types):
        if k not in ("md5", "size"):
            del chksum.chksum_types[k]
    pending = []
    chains = []
    try:
        for h in runs:
            steps = h["steps"]
            single = len(steps) == 1
            results = run_steps(steps, scratch, mods)
            ok = len(results) == len(steps)
            if not single:
                ctx.count("histories")
                ctx.count("history_length_%d" % len(steps))
            for i, (c, res) in enumerate(results):
                report = c if single else h            # what a replay needs
                where = "" if single else (f"operation {i + 1} of {len(steps)} in one process ({c['mode']}; env.d files {'/'.join(res['envd_edits']) or 'unchanged'} "
                                           f"since the previous operation, now CONFIG_PROTECT/MASK/COLLISION_IGNORE = {settings_of(c)}): ")
                orc = Oracle(c, res["root"])
                exp, numbering, notes = expected_tree(c, orc)
                ctx.case(report, bool(numbering or notes["kept"]) and bool(notes["merged"] or notes["removed"]), key=repr(sorted((k, repr(v)) for k, v in c.items())))
                ctx.count("mode_" + c["mode"])
                ctx.count("offset_" + c["offset_style"])
                if c.get("dir_links"):
                    ctx.count("operations_on_roots_with_directory_symlinks")
                    if any(p.startswith(l + "/") for p in numbering for l in c["dir_links"]):
                        ctx.count("protected_files_reached_through_a_directory_symlink")
                    if any(p.startswith(l + "/") for p in notes["merged"] for l in c["dir_links"]):
                        ctx.count("files_merged_through_a_directory_symlink")
                ctx.count("protected_files", len(numbering))
                ctx.count("kept_at_unmerge", len(notes["kept"]))
                if i:
                    ctx.count("later_operation_envd_" + ("+".join(res["envd_edits"]) or "unchanged"))
                    prev = results[i - 1][0]
                    po = Oracle(dict(c, envd=prev["envd"], extra_protects=prev["extra_protects"], extra_masks=prev["extra_masks"]), res["root"])
                    un = c["mode"] == "uninstall"
                    if any(po.protected(p, uninstall=un) != orc.protected(p, uninstall=un) for p in list(numbering) + notes["kept"] + notes["merged"] + notes["removed"]):
                        ctx.count("later_operation_decided_by_changed_settings")
                if res["exc"]:
                    ctx.violation(report, where + res["exc"])
                    ok = False
                    continue
                bad = check_property(c, res, orc)
                if bad:
                    ctx.violation(report, where + bad)
                    ok = False
                    continue
                pending.append((c, res))
            if ok and not single and all(c["mode"] != "replace" for c in steps):
                chains.append((h, results))
        # ---- edge A: the Lean model of the triggers on the same cases
        ids = {}
        reqs, owners = [], []
        for c, res in pending:
            root = res["root"]
            offset = {"plain": root, "trailing": root + "/", "dotted": posixpath.dirname(root) + "/./root", "double": posixpath.dirname(root) + "//root"}[c["offset_style"]]
            for kind, r in model_requests(c, root, offset, ids):
                reqs.append(r)
                owners.append((c, res, kind))
        by_case = {}
        for (c, res, kind), rep in zip(owners, ctx.model(reqs)):
            by_case.setdefault(id(c), (c, res, {}))[2][kind] = rep
        inv = {v: k for k, v in ids.items()}
        for c, res, reps in by_case.values():
            root = res["root"]
            files = {p: v[1] for p, v in res["tree"].items() if v[0] == "f"}
            if any(r == "bad-op" for r in reps.values()):
                ctx.mismatch(c, "driver rejected the request")
                continue
            cur = None
            if "install" in reps:
                m = reps["install"]
                cur = {d[len(root):] + "/" + b: inv[cn] for d, b, cn in m["merged"]}
                restored = sorted(d[len(root):] + "/" + b for d, b, _, _ in m["restored"])
                if res["recorded"] is not None and restored != res["recorded"]:
                    ctx.mismatch(c, f"recorded contents: implementation {res['recorded']}, Lean model {restored}")
                    continue
            if "uninstall" in reps:
                if cur is None:
                    cur = {d[len(root):] + "/" + b: inv[cn] for d, b, cn in reps["uninstall"]["after"]}
                else:
                    # replace: the model's unmerge decision applies to the files that were live before; entries written by the merge stay
                    kept_before = {d[len(root):] + "/" + b for d, b, cn in reps["uninstall"]["after"]}
                    for p in list(cur):
                        if p in c["old"] and p not in c["image"] and p not in kept_before:
                            del cur[p]
            if cur != files:
                diff = {k: (cur.get(k), files.get(k)) for k in set(cur) | set(files) if cur.get(k) != files.get(k)}
                ctx.mismatch(c, f"live files after the run (model, implementation): {dict(sorted(diff.items()))}")
                continue
            ctx.traces += 1
        # ---- edge A for whole histories: Model.runOps (the state an operation finds = what the operations before left) against the real trees
        reqs = []
        for h, results in chains:
            ops = []
            for i, (c, res) in enumerate(results):
                root = res["root"]
                offset = {"plain": root, "trailing": root + "/", "dotted": posixpath.dirname(root) + "/./root", "double": posixpath.dirname(root) + "//root"}[c["offset_style"]]
                ops.append({"op": "edit", "files": [{"dir": split(root, p)[0], "base": split(root, p)[1], "content": ids.setdefault(cc, len(ids) + 1)}
                                                    for p, cc in h["steps"][i]["live"].items()]})
                (kind, r), = model_requests(c, root, offset, ids)
                r = {k: v for k, v in r.items() if k not in ("cmd", "live")}
                r["op"] = kind
                ops.append(r)
            reqs.append({"cmd": "c21.history", "live": [], "ops": ops})
        inv = {v: k for k, v in ids.items()}
        for (h, results), rep in zip(chains, ctx.model(reqs)):
            ctx.evaluations += 1
            if not isinstance(rep, list) or len(rep) != 2 * len(results):
                ctx.mismatch(h, f"driver rejected the history request: {rep!r}")
                continue
            for i, (c, res) in enumerate(results):
                root = res["root"]
                files = {p: v[1] for p, v in res["tree"].items() if v[0] == "f"}
                cur = {d[len(root):] + "/" + b: inv[cn] for d, b, cn in rep[2 * i + 1]}
                if cur != files:
                    diff = {k: (cur.get(k), files.get(k)) for k in set(cur) | set(files) if cur.get(k) != files.get(k)}
                    ctx.mismatch(h, f"live files after operation {i + 1} of the history (Model.runOps, implementation): {dict(sorted(diff.items()))}")
                    break
            else:
                ctx.traces += 1
                ctx.count("histories_matching_model_runOps")
        filter_differential(ctx, etriggers, scratch)
        # ---- pending-update names: parse / format
        names = []
        for _ in range(ctx.n(300, 5000)):
            num = rng.choice(["0000", "0001", "0042", "9999", "12", "00a1", "00011", "", "1", "123", "12345"])
            names.append("._cfg" + num + rng.choice(["_", "_", "-", ""]) + rng.choice(["foo", "", "a_b", "._cfg0000_x", "é"]))
            names.append(rng.choice(["", "._cf", "x._cfg0000_foo", "._cfg", "._CFG0000_foo"]))
        nums = [rng.choice([0, 1, 9, 10, 99, 100, 999, 1000, 9999, 10000, 12345]) for _ in names]
        for name, n, rep in zip(names, nums, ctx.model([{"cmd": "c21.cfg", "name": x, "n": n, "fname": "foo"} for x, n in zip(names, nums)])):
            ctx.evaluations += 1
            try:
                if not name.startswith("._cfg"):
                    raise ValueError
                cnt = int(name[5:9])
                if name[9] != "_":
                    raise ValueError
                want = [cnt, name[10:]]
            except (ValueError, IndexError):
                want = None
            if rep["parse"] != want or rep["name"] != f"._cfg{n:04d}_foo":
                ctx.mismatch({"name": name, "n": n}, f"python parses {want} / formats {f'._cfg{n:04d}_foo'}; the Lean model {rep}")
    finally:
        chksum.chksum_types.update(saved_handlers)
        shutil.rmtree(scratch, ignore_errors=True)


LEVEL_TEXT = ("Kernel-checked Lean 4 theorems about a model of gen_config_protect_filter, gen_collision_ignore_filter, ConfigProtectInstall and "
              "ConfigProtectUninstall (merge/unmerge abstracted): the protect filter is 'below some CONFIG_PROTECT entry taken under the offset, below no "
              "CONFIG_PROTECT_MASK entry', component-wise; the glob matcher accepts exactly the denoted strings and absolute patterns are matched root-relative "
              "under any offset; ._cfgNNNN_ names and (number, file) pairs correspond one to one; the number given is that of an identical pending update or "
              "exceeds all; for every package, live tree, settings and offset a protected live file holds its old content after trigger + merge "
              "(protected_never_overwritten) and the incoming file is found beside it under that name; unmerge keeps exactly the protected files whose content "
              "differs from the recorded one. The model is tied to the code by complete install / replace / uninstall runs of the real MergeEngine with the ebuild "
              "triggers on scratch roots (env.d files, pending updates, globs, directory entries, unnormalised offsets), whose resulting trees and recorded "
              "contents are compared with the model and judged by an oracle written from the property text, plus differential tests of both filters and of the "
              "name parser. Histories (history_* theorems over Model.runOps: each operation takes the settings env.d holds when it runs, earlier operations under "
              "other settings pass on nothing but the file system) are tied to the code by runs of several operations of one process on one root with env.d "
              "rewritten in place, extended or reduced in between, each step judged by the oracle and the whole chain compared with runOps.")
LEVEL_NOTE = ("Partial: the clause 'the recorded contents keep the real name' (ConfigProtectInstall_restore) is modelled and compared on every sampled run but not "
              "proved; merge/unmerge are abstracted (C18/C20); env.d parsing, checksums, fnmatch bracket classes and int() on exotic digit strings are trusted / "
              "not generated; offset '/' is exercised for the filters only.")
