"""C44 — query strings select exactly the packages they describe."""
import fnmatch
import itertools

PID = "C44"
LEAN_MODULES = ["Pkgcore.Props.C44"]
OBLIGATIONS = [
    "Pkgcore.C44.glob_regex_eq_fnmatch",
    "Pkgcore.C44.query_selects_exactly",
    "Pkgcore.C44.atom_query_selects_atom",
    "Pkgcore.C44.categoryless_atom_query",
    "Pkgcore.C44.slot_glob_atom_query",
    "Pkgcore.C44.blockers_rejected",
    "Pkgcore.C44.ops_table",
]
TRUSTED = [
    "the atom parser and atom.match are parameters of the model (AtomEnv); each run evaluates them on the real pkgcore.ebuild.atom for exactly "
    "the strings the model asks about and passes the answers to the model (atom matching itself belongs to C03/C04)",
    "regular expressions (valid_globbing, the StrRegex built by convert_glob, isvalid_version_re) are re-expressed as structural recognisers and "
    "differential-tested against the real `re` objects in every run (c44.glob / c44.lexver cases)",
    "C01 order for the version operator (VersionMatch with rev=None behaves like revision 0)",
]
ASSUMPTIONS = [
    "query strings are ASCII and contain no white space inside (str.strip() is modelled for ASCII white space; \\w is modelled as [A-Za-z0-9_])",
    "a version operator combined with a glob needs the category/package form ('>=*/alsa-*-1.1.7'), as documented by parse_globbed_version; "
    "'>=alsa-*-1' is refused by the code with a ParseError and is outside the class of query strings",
    "every pattern part of a query is non-empty",
]
RULE = ("structured glob queries (patterns derived from field values of the package universe by replacing random substrings with '*', near-miss "
        "literals with '.', '+', '-'; optional operator+version, slot, sub-slot, repository) rendered to text, plus plain atoms, category-less atoms, "
        "slot globs next to plain atoms, blockers and malformed strings, each evaluated on 14-20 packages sampled from a 400-package universe; "
        "non-trivial = a glob query with a '*' next to a literal that selects at least one but not all sampled packages")

SUFS = ["alpha", "beta", "pre", "rc", "p"]
CATS = ["dev-libs", "dev-lang", "app-misc", "sys-apps", "media-libs", "x11-libs", "dev-qt", "x.y", "xzy", "x.y.z", "x+y", "xxy"]
PKGS = ["alsa-lib", "alsa-utils", "alsa-plugins", "boost", "python", "gcc", "axb", "a_b", "abbc", "ab+c", "abc", "foo_bar", "portage",
        "libX11", "pkg", "qtcore", "qt-core"]
SLOTS = ["0", "1", "2", "1.2", "3.11", "5", "stable", "11", "112", "1x2"]
SUBSLOTS = ["0", "1", "1.60", "2", "5.15", "stable", "1.6", "1x60"]
REPOS = ["gentoo", "overlay", "local"]
VERS = [
    {"comps": ["1"], "letter": None, "sufs": []},
    {"comps": ["1", "0"], "letter": None, "sufs": []},
    {"comps": ["1", "00"], "letter": None, "sufs": []},
    {"comps": ["1", "1", "7"], "letter": None, "sufs": []},
    {"comps": ["1", "1", "8"], "letter": None, "sufs": []},
    {"comps": ["1", "2"], "letter": "b", "sufs": []},
    {"comps": ["2"], "letter": None, "sufs": [["rc", "1"]]},
    {"comps": ["2"], "letter": None, "sufs": []},
    {"comps": ["2"], "letter": None, "sufs": [["p", "3"]]},
    {"comps": ["2", "01"], "letter": None, "sufs": [["alpha", ""], ["p", "1"]]},
    {"comps": ["10"], "letter": None, "sufs": []},
    {"comps": ["0", "9", "12"], "letter": None, "sufs": [["beta", "2"]]},
]
REVS = ["", "", "", "0", "1", "2", "10"]
OPS = ["<", "<=", "=", ">=", ">", "~"]


def gen_tables(repo):
    from pkgcore.ebuild import atom
    from pkgcore.util import parserestrict
    extra = [chr(c) for c in range(33, 127)
             if parserestrict.valid_globbing(chr(c)) and not (chr(c).isalnum() or chr(c) in "_*")]
    ops = sorted(atom.valid_ops)
    text = ("-- GENERATED from /repo by harness/props/c44.py (gen_tables); do not edit\n"
            "namespace Pkgcore.Generated.C44\n"
            "def globExtra : List Char := [%s]\n"
            "def validOps : List String := [%s]\n"
            "end Pkgcore.Generated.C44\n") % (", ".join("'%s'" % c for c in extra), ", ".join('"%s"' % o for o in ops))
    return {"Pkgcore/Generated/C44Tables.lean": text}


def render_ver(v):
    s = ".".join(v["comps"]) + (v["letter"] or "")
    for n, d in v["sufs"]:
        s += "_" + n + d
    return s


def globify(rng, value, alt):
    """a pattern related to `value`: exact, starred, near miss"""
    k = rng.random()
    if k < 0.15:
        return value
    if k < 0.20:
        return rng.choice(alt)
    if k < 0.30:
        return "*"
    s = value if k < 0.93 else rng.choice(alt)
    n = rng.choice([1, 1, 1, 2, 2, 3])
    for _ in range(n):
        i = rng.randint(0, len(s))
        j = min(len(s), i + rng.choice([0, 0, 1, 1, 2, 3, len(s)]))
        s = s[:i] + "*" + s[j:]
    while "**" in s:
        s = s.replace("**", "*")
    if rng.random() < 0.06 and len(s) > 1:
        i = rng.randrange(len(s))
        if s[i] != "*":
            s = s[:i] + rng.choice("ab.+-_1x") + s[i + 1:]
    return s


def gen_query(rng, pool):
    """a structured glob query, biased towards matching something in the pool"""
    base = rng.choice(pool)
    form = rng.choice(["a", "a", "b", "b", "b", "c", "c"])
    q = {"op": None, "cat": None, "pkg": None, "slot": None, "subslot": None, "repo": None}
    if form == "a":
        for _ in range(50):
            q["pkg"] = globify(rng, base["package"], PKGS)
            if "*" in q["pkg"]:
                break
        else:
            q["pkg"] = "*"
    else:
        for _ in range(50):
            q["cat"] = globify(rng, base["category"], CATS)
            q["pkg"] = globify(rng, base["package"], PKGS)
            if "*" in q["cat"] + q["pkg"]:
                break
        else:
            q["cat"] = "*"
        if form == "c":
            v = base["ver"] if rng.random() < 0.6 else rng.choice(VERS)
            q["op"] = {"op": rng.choice(OPS), "text": render_ver(v), "ver": v}
    if rng.random() < 0.45:
        q["slot"] = globify(rng, base["slot"], SLOTS)
        if rng.random() < 0.5:
            q["subslot"] = globify(rng, base["subslot"], SUBSLOTS)
    if rng.random() < 0.25:
        q["repo"] = base["repo"] if rng.random() < 0.7 else rng.choice(REPOS)
    q["_base"] = base
    return q


def render_query(q):
    s = ""
    if q["op"]:
        s += q["op"]["op"]
    if q["cat"] is not None:
        s += q["cat"] + "/"
    s += q["pkg"]
    if q["op"]:
        s += "-" + q["op"]["text"]
    if q["slot"] is not None:
        s += ":" + q["slot"]
        if q["subslot"] is not None:
            s += "/" + q["subslot"]
    if q["repo"] is not None:
        s += "::" + q["repo"]
    return s


def gen_other(rng, pool):
    """(kind, text): plain atoms, category-less atoms, slot globs next to atoms, blockers, malformed strings"""
    base = rng.choice(pool)
    cat, pkg = base["category"], base["package"]
    v = base["ver"] if rng.random() < 0.6 else rng.choice(VERS)
    vt = render_ver(v) + ("-r" + rng.choice(["0", "1", "2"]) if rng.random() < 0.3 else "")
    slotpart = ""
    if rng.random() < 0.4:
        slotpart = ":" + (base["slot"] if rng.random() < 0.7 else rng.choice(SLOTS))
        if rng.random() < 0.4:
            slotpart += "/" + (base["subslot"] if rng.random() < 0.7 else rng.choice(SUBSLOTS))
    repopart = "::" + (base["repo"] if rng.random() < 0.7 else rng.choice(REPOS)) if rng.random() < 0.25 else ""
    k = rng.random()
    if k < 0.22:
        op = rng.choice(OPS + ["", "", ""])
        text = (op + cat + "/" + pkg + ("-" + vt if op else "")) + slotpart + repopart
        if op == "=" and rng.random() < 0.2:
            text = "=" + cat + "/" + pkg + "-" + render_ver(v)[:1] + "*" + slotpart
        return "atom", text
    if k < 0.42:
        op = rng.choice(OPS + ["", "", ""])
        return "nocat_atom", op + pkg + ("-" + vt if op else "") + slotpart + repopart
    if k < 0.57:
        op = rng.choice(OPS + ["", "", "", ""])
        sl = globify(rng, base["slot"], SLOTS)
        ss = globify(rng, base["subslot"], SUBSLOTS) if rng.random() < 0.5 else None
        if "*" not in sl + (ss or ""):
            sl = sl[:1] + "*"
        return "slotglob_atom", op + cat + "/" + pkg + ("-" + vt if op else "") + ":" + sl + ("/" + ss if ss else "") + repopart
    if k < 0.70:
        q = gen_query(rng, pool)
        q.pop("_base", None)
        t = render_query(q)
        i = rng.randint(0, len(t))
        return "blocker", t[:i] + "!" + t[i:]
    if k < 0.76:
        return "blocker", rng.choice(["!", "!!"]) + cat + "/" + pkg + slotpart
    # malformed / unusual strings
    q = gen_query(rng, pool)
    q.pop("_base", None)
    t = render_query(q)
    m = rng.randrange(9)
    if m == 0:
        t = t.replace("*", "**", 1)
    elif m == 1:
        i = rng.randint(0, len(t))
        t = t[:i] + rng.choice("?#@%") + t[i:]
    elif m == 2:
        t = rng.choice(OPS) + t if not q["op"] else t[len(q["op"]["op"]):]
    elif m == 3:
        t = rng.choice([" ", "  ", "\t"]) + t + rng.choice(["", " ", "\n"])
    elif m == 4:
        t = rng.choice(OPS) + globify(rng, pkg, PKGS) + "-" + vt
    elif m == 5:
        t = rng.choice(OPS) + "*/" + globify(rng, pkg, PKGS) + rng.choice(["", "-" + render_ver(v)[:1] + "*", "-r1", "-" + vt + "-x"])
    elif m == 6:
        i = rng.randint(0, len(t))
        t = t[:i] + rng.choice([":", "::", "/", "-"]) + t[i:]
    elif m == 7:
        t = rng.choice(["", "*", "*/*", "*/", "/*", ":", "::", "::gentoo", "*::gentoo", "*:", "*:*", "*:*/*", "/", "a/", "/b", "=", ">=", "~*", "*/*/*"])
    else:
        i = rng.randint(0, max(0, len(t) - 1))
        t = t[:i] + t[i + 1:]
    return "malformed", t


CORPUS_QUERIES = [
    # the defect fixed in /repo: the slot (and repository) of a globbed query with a version operator was dropped
    {"op": {"op": ">=", "text": "1.1.7", "ver": VERS[3]}, "cat": "*", "pkg": "alsa-*", "slot": "2", "subslot": None, "repo": None},
    {"op": {"op": "<", "text": "2", "ver": VERS[7]}, "cat": "*", "pkg": "*", "slot": "3.11", "subslot": "1*", "repo": "gentoo"},
    {"op": {"op": "~", "text": "1.0", "ver": VERS[1]}, "cat": "dev-*", "pkg": "a*", "slot": None, "subslot": None, "repo": "overlay"},
    {"op": {"op": "=", "text": "1.00", "ver": VERS[2]}, "cat": "*", "pkg": "*b*", "slot": None, "subslot": None, "repo": None},
    # docstring examples
    {"op": None, "cat": None, "pkg": "*", "slot": None, "subslot": None, "repo": None},
    {"op": None, "cat": "dev-*", "pkg": "*", "slot": None, "subslot": None, "repo": None},
    {"op": None, "cat": None, "pkg": "alsa-*", "slot": None, "subslot": None, "repo": None},
    {"op": None, "cat": "*-libs", "pkg": "alsa*", "slot": None, "subslot": None, "repo": None},
    {"op": None, "cat": "dev-qt", "pkg": "*", "slot": "5", "subslot": None, "repo": None},
    # literal '.', '+', '-' must not act as regex operators
    {"op": None, "cat": "x.y*", "pkg": "*", "slot": None, "subslot": None, "repo": None},
    {"op": None, "cat": None, "pkg": "ab+c*", "slot": None, "subslot": None, "repo": None},
    {"op": None, "cat": "*x.y.z", "pkg": "a*", "slot": "1.*", "subslot": None, "repo": None},
    {"op": None, "cat": "x+*", "pkg": "*", "slot": "*.2", "subslot": "1.6*", "repo": None},
    {"op": None, "cat": "*", "pkg": "alsa*lib", "slot": "*", "subslot": "1.6*", "repo": None},
    {"op": None, "cat": None, "pkg": "a*b*c", "slot": None, "subslot": None, "repo": "local"},
]
CORPUS_OTHER = [
    ("slotglob_atom", "dev-libs/boost:1*"),          # second defect fixed: refused with ParseError
    ("slotglob_atom", "=dev-libs/boost-1.0:0/1.6*"),
    ("slotglob_atom", "dev-libs/boost:*/1*::gentoo"),
    ("atom", "dev-libs/boost:*"),
    ("atom", "=dev-libs/boost-1*"),
    ("atom", "dev-libs/boost:0/1.60::gentoo"),
    ("nocat_atom", "boost:0/1.60"),
    ("nocat_atom", ">=portage-2.1"),
    ("nocat_atom", "~alsa-lib-1.1.7-r1:2::overlay"),
    ("blocker", "!dev-libs/boost"), ("blocker", "!!dev-libs/boost"), ("blocker", "dev-libs/bo!ost"), ("blocker", "*/*:1!"), ("blocker", "!*"),
    ("malformed", ">=*/alsa-*"), ("malformed", "=*/alsa-1*"), ("malformed", "=*-1"), ("malformed", "a**b"), ("malformed", "=dev-util/*diffball-0.4*"),
    ("malformed", "::gentoo"), ("malformed", "dev-util/diffball-0.4"), ("malformed", " */* "), ("malformed", "==*/a-1-2"), ("malformed", "*/b/c"),
]


def run(ctx):
    from pkgcore.ebuild import atom as atom_mod, cpv
    from pkgcore.ebuild.atom import atom
    from pkgcore.ebuild.errors import MalformedAtom
    from pkgcore.restrictions.util import collect_package_restrictions
    from pkgcore.test.misc import FakePkg, FakeRepo
    from pkgcore.util import parserestrict
    from pkgcore.util.parserestrict import ParseError, parse_match

    rng = ctx.rng

    # ---- regex recognisers vs the real `re` objects
    alpha_p, alpha_s = "ab.*", "ab."
    pats = ["".join(p) for n in range(1, ctx.n(4, 5)) for p in itertools.product(alpha_p, repeat=n)]
    strs = ["".join(p) for n in range(0, ctx.n(3, 5)) for p in itertools.product(alpha_s, repeat=n)]
    extra_p = ["a+b*", "*-1.2*", "a*b*c*", "*_x", "x,y*", "*a*a*a*a*b", "a-*-b", "*.*", "+*+"]
    extra_s = ["a+b", "aab", "a-1.2-r1", "abc", "aXbYc", "_x", "x,y", "x,yz", "aaaaaaaaaaaaaaaaaaaaaaaa", "a--b", "a-x-b", "..", "+a+", "++"]
    for _ in range(ctx.n(300, 3000)):
        extra_p.append(globify(rng, rng.choice(PKGS + CATS + SLOTS), PKGS))
    reqs = [{"cmd": "c44.glob", "pat": p, "strs": strs + extra_s + PKGS} for p in pats + extra_p]
    for req, rep in zip(reqs, ctx.model(reqs)):
        p = req["pat"]
        case = {"glob": p}
        if rep == "bad-op":
            ctx.mismatch(case, "driver rejected the request")
            continue
        valid = parserestrict.valid_globbing(p) is not None
        if valid != rep["valid"]:
            ctx.mismatch(case, f"valid_globbing gives {valid}, model validGlob gives {rep['valid']}")
            continue
        ctx.count("glob_valid" if valid else "glob_invalid")
        if not valid or "*" not in p or p == "*":
            continue
        r = parserestrict.convert_glob(p)
        for s, m, sp in zip(req["strs"], rep["model"], rep["spec"]):
            real = bool(r.match(s))
            want = fnmatch.fnmatchcase(s, p)
            ctx.evaluations += 1
            if real != want:
                ctx.violation({"glob": p, "string": s}, f"convert_glob({p!r}).match({s!r}) = {real}, shell pattern match = {want}")
            elif sp != want:
                ctx.mismatch({"glob": p, "string": s}, f"Lean globMatch = {sp}, fnmatch = {want}")
            elif m != real:
                ctx.mismatch({"glob": p, "string": s}, f"model regex items give {m}, real StrRegex gives {real}")
    vcands = [render_ver(v) for v in VERS] + ["", "1.", ".1", "1..2", "1a", "1ab", "a", "1_p", "1_pre2", "1_pr", "1_rc_p1", "1_beta1_alpha", "1_foo", "1-r1",
                                               "01.02", "1.2b_alpha3_p", "1_", "1__p", "1.2.a", "1*", "r1", "1_p1a", "1A", "1.0_rc01"]
    for _ in range(ctx.n(200, 3000)):
        vcands.append("".join(rng.choice(["1", "0", "2", ".", "_", "p", "re", "rc", "alpha", "beta", "a", "b", "12"]) for _ in range(rng.randint(1, 6))))
    for s, rep in zip(vcands, ctx.model([{"cmd": "c44.lexver", "s": s} for s in vcands])):
        real = cpv.isvalid_version_re.match(s) is not None
        ctx.evaluations += 1
        ctx.count("lexver_valid" if real else "lexver_invalid")
        if real != (rep is not None):
            ctx.mismatch({"version_text": s}, f"isvalid_version_re accepts: {real}; model lexVer: {rep}")
        elif real and render_ver(rep) != s:
            ctx.mismatch({"version_text": s}, f"lexVer lexes {s!r} as {rep}")

    # ---- package universe
    pool = []
    seen = set()
    for _ in range(3000):
        if len(pool) >= 400:
            break
        p = {"category": rng.choice(CATS), "package": rng.choice(PKGS), "ver": rng.choice(VERS), "rev": rng.choice(REVS),
             "slot": rng.choice(SLOTS), "subslot": rng.choice(SUBSLOTS), "repo": rng.choice(REPOS)}
        key = (p["category"], p["package"], render_ver(p["ver"]), p["rev"], p["slot"], p["subslot"], p["repo"])
        if key in seen:
            continue
        seen.add(key)
        pool.append(p)
    repos = {r: FakeRepo(repo_id=r) for r in REPOS}

    def mkpkg(p, category=None):
        cpvs = f"{category or p['category']}/{p['package']}-{render_ver(p['ver'])}" + (f"-r{p['rev']}" if p["rev"] else "")
        return FakePkg(cpvs, slot=p["slot"], subslot=p["subslot"], repo=repos[p["repo"]])
    for p in pool:
        p["_real"] = mkpkg(p)
        p["_twin"] = mkpkg(p, "category")

    def pub(p):
        return {k: v for k, v in p.items() if not k.startswith("_")}

    # ---- the query cases
    cases = []     # (kind, text, query or None)
    if ctx.replay_cases:
        for c in ctx.replay_cases:
            if "text" in c and "kind" in c:
                cases.append((c["kind"], c["text"], c.get("query")))
    for q in CORPUS_QUERIES:
        cases.append(("glob", render_query(q), q))
    cases += [(k, t, None) for k, t in CORPUS_OTHER]
    for _ in range(ctx.n(2500, 40000)):
        if rng.random() < 0.6:
            q = gen_query(rng, pool)
            cases.append(("glob", render_query(q), q))
        else:
            k, t = gen_other(rng, pool)
            cases.append((k, t, None))
    by_pkg, by_cat = {}, {}
    for p in pool:
        by_pkg.setdefault(p["package"], []).append(p)
        by_cat.setdefault(p["category"], []).append(p)
    samples = []
    for i, (kind, text, q) in enumerate(cases):
        n = rng.choice([14, 16, 20])
        pk = []
        base = q.pop("_base", None) if q else None
        if base is not None:
            pk = [base] + rng.sample(by_pkg[base["package"]], min(4, len(by_pkg[base["package"]]))) \
                + rng.sample(by_cat[base["category"]], min(3, len(by_cat[base["category"]])))
        pk += rng.sample(pool, n)
        uniq = []
        for p in pk:
            if not any(p is u for u in uniq):
                uniq.append(p)
        samples.append(uniq[:n])

    # phase 1: which atoms does the model want to know about
    areps = ctx.model([{"cmd": "c44.atoms", "text": t} for _, t, _ in cases])
    acache = {}

    def atom_of(s):
        if s not in acache:
            try:
                a = atom(s)
                acache[s] = (a, list(collect_package_restrictions(a.restrictions, attrs=("category",), invert=True)))
            except MalformedAtom:
                acache[s] = None
            except Exception as e:      # accidental rejections of the atom parser (IndexError ...), C03's business
                ctx.note(f"atom({s!r}) raised {type(e).__name__} instead of MalformedAtom")
                ctx.count("atom_parser_accidental_exception")
                acache[s] = None
        return acache[s]

    reqs = []
    for (kind, text, q), pk, arep in zip(cases, samples, areps):
        oracles = []
        for s in (arep if isinstance(arep, list) else []):
            a = atom_of(s)
            if a is None:
                oracles.append({"s": s, "ok": False, "match": [], "nocat": []})
            else:
                oracles.append({"s": s, "ok": True, "match": [bool(a[0].match(p["_real"])) for p in pk],
                                "nocat": [all(r.match(p["_real"]) for r in a[1]) for p in pk]})
        reqs.append({"cmd": "c44.eval", "text": text, "pkgs": [pub(p) for p in pk], "atoms": oracles})
        if q is not None:
            reqs.append({"cmd": "c44.spec", "query": q, "pkgs": [pub(p) for p in pk]})
    replies = iter(ctx.model(reqs))

    for (kind, text, q), pk in zip(cases, samples):
        mrep = next(replies)
        srep = next(replies) if q is not None else None
        case = {"kind": kind, "text": text, "query": q, "packages": [f"{p['category']}/{p['package']}-{render_ver(p['ver'])}" + (f"-r{p['rev']}" if p['rev'] else "")
                                                                     + f":{p['slot']}/{p['subslot']}::{p['repo']}" for p in pk]}
        if mrep == "bad-op" or srep == "bad-op":
            ctx.mismatch(case, "driver rejected the request")
            continue
        try:
            r = parse_match(text)
            real = [bool(r.match(p["_real"])) for p in pk]
            rkind = "ok"
        except ParseError:
            real, rkind = None, "err"
        except Exception as e:
            real, rkind = None, "exc:" + type(e).__name__
        ctx.count("kind_" + kind)
        ctx.count("result_" + rkind)
        nontriv = False
        if kind == "glob":
            if srep["text"] != text:
                ctx.mismatch(case, f"Lean render gives {srep['text']!r}")
                continue
            want = srep["selects"]
            parts = [x for x in (q["cat"], q["pkg"], q["slot"], q["subslot"]) if x]
            nontriv = any("*" in x and x != "*" for x in parts) and any(want) and not all(want)
            ctx.count("form_" + ("c" if q["op"] else "b" if q["cat"] is not None else "a") + ("+slot" if q["slot"] else "") + ("+repo" if q["repo"] else ""))
            ctx.count("selected_%s" % ("none" if not any(want) else "all" if all(want) else "some"))
            if q["op"] and atom_of(text) is not None:
                ctx.note(f"atom() accepts the globbed query {text!r}; outside the class of glob queries")
                ctx.case(case, False, key=text)
                continue
            if rkind != "ok":
                ctx.violation(case, f"parse_match refuses the glob query ({rkind})")
            elif real != want:
                bad = [case["packages"][i] for i in range(len(pk)) if real[i] != want[i]]
                ctx.violation(case, f"parse_match({text!r}) selects differently from the whole-string pattern semantics for {bad[:4]}: "
                                    f"real={[real[i] for i in range(len(pk)) if real[i] != want[i]][:4]}")
        elif kind == "blocker":
            if rkind != "err":
                ctx.violation(case, f"a string containing '!' is not rejected with ParseError ({rkind})")
        elif kind == "atom" and rkind == "ok":
            a = atom_of(text.strip())
            if a is not None:
                want = [bool(a[0].match(p["_real"])) for p in pk]
                nontriv = any(want) and not all(want)
                if real != want:
                    ctx.violation(case, "parse_match of a plain atom string does not select what the atom matches")
        elif kind == "nocat_atom" and rkind == "ok":
            # the atom with an arbitrary category, applied to the package as if it were in that category
            t = text.strip()
            repo = None
            if "::" in t:
                t, repo = t.rsplit("::", 1)
            slotpart = None
            if ":" in t:
                t, slotpart = t.rsplit(":", 1)
            i = 0
            while i < len(t) and t[i] in "<=>~":
                i += 1
            a = atom_of(t[:i] + "category/" + t[i:])
            if a is not None:
                want = []
                for p in pk:
                    ok = bool(a[0].match(p["_twin"]))
                    if slotpart:
                        sl, _, ss = slotpart.partition("/")
                        ok = ok and (not sl or p["slot"] == sl) and (not ss or p["subslot"] == ss)
                    if repo is not None:
                        ok = ok and p["repo"] == repo
                    want.append(ok)
                    if all(r.match(p["_real"]) for r in a[1]) != bool(a[0].match(p["_twin"])):
                        ctx.mismatch(case, "contract of the atom parameter broken: restrictions minus category != match in the atom's category")
                nontriv = any(want) and not all(want)
                if real != want:
                    ctx.violation(case, "category-less atom query does not select what the atom matches in any category")
        elif kind == "slotglob_atom" and rkind == "ok":
            t = text.strip()
            repo = None
            if "::" in t:
                t, repo = t.rsplit("::", 1)
            t, slotpart = t.rsplit(":", 1)
            a = atom_of(t)
            if a is not None:
                sl, _, ss = slotpart.partition("/")
                want = [bool(a[0].match(p["_real"])) and (not sl or fnmatch.fnmatchcase(p["slot"], sl)) and (not ss or fnmatch.fnmatchcase(p["subslot"], ss))
                        and (repo is None or p["repo"] == repo) for p in pk]
                nontriv = any(want) and not all(want)
                if real != want:
                    ctx.violation(case, "slot glob next to a plain atom: selection differs from atom match and whole-string slot patterns")
        elif kind == "slotglob_atom" and rkind == "err":
            t = text.strip().rsplit("::", 1)[0].rsplit(":", 1)[0]
            if atom_of(t) is not None:
                ctx.violation(case, "slot glob next to a valid atom is refused")
        ctx.case(case, nontriv, key=text + "|" + "|".join(case["packages"]))
        # edge A
        if rkind.startswith("exc:"):
            if mrep["res"] != "err":
                ctx.mismatch(case, f"parse_match raised {rkind}, model accepts")
            else:
                ctx.note(f"parse_match({text!r}) raised {rkind[4:]} where the model says ParseError")
                ctx.count("accidental_exception")
            continue
        if mrep["res"] != rkind:
            ctx.mismatch(case, f"parse_match: {rkind}, Lean model: {mrep['res']}")
        elif rkind == "ok" and mrep["matches"] != real:
            ctx.mismatch(case, f"parse_match(...).match gives {real}, Lean model gives {mrep['matches']}")


LEVEL_TEXT = ("Kernel-checked Lean 4 theorems about a string-level model of parse_match/convert_glob/collect_ops/parse_globbed_version: for every "
              "well-formed glob query (any patterns over the glob alphabet, optional operator+version, slot, sub-slot, repository) parsing its rendered "
              "text yields a restriction that matches exactly the packages selected by whole-string shell patterns, the PMS version relation (C01) and "
              "the repository (query_selects_exactly); the compiled regex equals shell matching (glob_regex_eq_fnmatch); plain atoms select what the atom "
              "matches; strings containing '!' are rejected. Atom parsing/matching are parameters evaluated on the real code in the correspondence run, "
              "which also compares the real parse_match with the specification directly.")
LEVEL_NOTE = ("Trusted: Lean kernel; standard axioms; regexes re-expressed structurally (differential-tested every run); the atom parser and matcher "
              "as parameters with a recorded contract; ASCII queries.")
