"""C10 — REQUIRED_USE solving is sound, complete and preference-first."""
import itertools

PID = "C10"
LEAN_MODULES = ["Pkgcore.Props.C10", "Pkgcore.Props.C10Solver"]
OBLIGATIONS = [
    "Pkgcore.C10.split_preserves_conjunction",
    "Pkgcore.C10.compile_equiv_partial",
    "Pkgcore.C10.compile_equiv_counterexample",
    "Pkgcore.C10.domains_correct",
    "Pkgcore.C10.forced_outside_iuse_ignored",
    "Pkgcore.C10.solutions_sound",
    "Pkgcore.C10.solutions_complete",
    "Pkgcore.C10.solutions_nodup",
    "Pkgcore.C10.preferred_first",
    # the preferred assignment is the one the property words (independent of the order of the domains)
    "Pkgcore.C10.preferred_is_property_preference",
    "Pkgcore.C10.preferred_is_property_preference_counterexample",
    "Pkgcore.C10.preferred_first_property",
    # the solver itself (faithful model of snakeoil.constraints.Problem), for every problem
    "Pkgcore.C10.Solver.forward_check_sound",
    "Pkgcore.C10.Solver.solver_sound",
    "Pkgcore.C10.Solver.solver_sound_counterexample",
    "Pkgcore.C10.Solver.solver_complete",
    "Pkgcore.C10.Solver.solver_nodup",
    "Pkgcore.C10.Solver.solver_order",
    "Pkgcore.C10.Solver.solver_preferred_first",
    # C10's solver-dependent theorems again, without the contract
    "Pkgcore.C10.solutions_exact_faithful",
    "Pkgcore.C10.solutions_exact_faithful_counterexample",
    "Pkgcore.C10.solutions_sound_faithful",
    "Pkgcore.C10.solutions_complete_faithful",
    "Pkgcore.C10.solutions_nodup_faithful",
    "Pkgcore.C10.preferred_first_faithful",
    "Pkgcore.C10.preferred_first_faithful_property",
    "Pkgcore.C10.faithful_perm_contract",
]
TRUSTED = [
    "snakeoil.constraints.Problem (outside /repo) is modelled faithfully (Model/C10Solver.lean: _Domain with its hidden-value and state stacks, "
    "__check with forward checking, the degree/MRV/name variable choice, the one-variable preprocessing of __iter__, the backtracking search) and "
    "the theorems are proved of that model; what is trusted is the reading of the Python text: the iterative loop of __solve with its explicit "
    "queue of frames is modelled as the recursion it flattens (a frame is pushed when the checks pass and popped, with pop_state, when the deeper "
    "search is exhausted), dicts are association lists read by lookup, the iteration order of frozensets/sets (constraint scopes, the order of "
    "self.variables) is taken to be immaterial (the code only takes a min over triples ending in the unique name and loops over all domains), a "
    "constraint callable is a function of the values of its own variables. The run compares the real solver's ORDERED solution sequence with the "
    "model's on every generated REQUIRED_USE query and on random raw constraint problems given directly to the real Problem",
    "the earlier contract model (cartesian product filtered by the constraints) is kept; faithful_perm_contract proves the modelled solver yields "
    "exactly its solutions (structures without empty groups), so the contract is a theorem now, not an assumption",
    "the REQUIRED_USE structure is the Dep of C09 as built by the real DepSet.parse (converted per case)",
]
ASSUMPTIONS = [
    "force_true and force_false are disjoint (a flag in both makes add_variable raise AssertionError)",
    "groups are non-empty and not negated, as the parser builds them",
]
RULE = ("random REQUIRED_USE strings (||, ^^, ??, all-of, conditionals, negated conditionals and literals, depth <= 3) over up to 5 flags, parsed by "
        "the real DepSet.parse; every IUSE subset for <= 3 flags (random subsets above), random forced/preferred sets drawn from the mentioned "
        "flags and two unmentioned ones whether or not they are in IUSE (0 .. all flags forced, so that whole rules are pinned; handed over as "
        "set/frozenset/tuple/list); hand-written queries with a forced-on, a forced-off, a preferred and a plain flag together; satisfying "
        "sets enumerated by brute force with the specification, the preferred assignment computed from the wording; then *sessions* in one process: the same "
        "and related queries started again after a full enumeration, while earlier result iterators are suspended after 0..n items, drained "
        "later or closed early, every answer judged like a first answer; non-trivial = the constraint has a choice group or a conditional and "
        "at least two variables; raw constraint problems for the solver: 3-6 variables with domains of 1-3 values in random order, 0-5 random "
        "table constraints over 1-3 variables (also constraints without variables, repeated constraints, unsatisfiable ones), non-trivial = at "
        "least one constraint over two or more variables")

FLAGS = ["a", "b", "c", "d", "e"]


def wording_preferred(variables, iuse, ft, ff, pt):
    """The preferred assignment, from the property's wording alone (no model, no solver domains): forced flags as forced,
    preferred flags on, all others off; a flag the package does not have (outside IUSE) is off whatever the profile
    forces or the caller prefers.  Defined only for queries the real call accepts (no IUSE flag forced both ways)."""
    out = {}
    for f in variables:
        if f not in iuse:
            out[f] = False
        elif f in ft:
            out[f] = True
        elif f in ff:
            out[f] = False
        else:
            out[f] = f in pt
    return out


def gen_ru(rng, flags, depth):
    r = rng.random()
    if depth <= 0 or r < 0.4:
        return rng.choice(["", "", "!"]) + rng.choice(flags)
    n = rng.choice([1, 2, 2, 3])
    kids = " ".join(gen_ru(rng, flags, depth - 1) for _ in range(n))
    if r < 0.6:
        return rng.choice(["", "!"]) + rng.choice(flags) + "? ( " + kids + " )"
    return rng.choice(["|| ( ", "^^ ( ", "?? ( ", "( "]) + kids + " )"


CORPUS = [
    "|| ( x? ( a ) b )", "^^ ( a b c )", "?? ( a b )", "a? ( b )", "!a? ( b ) a? ( !b )", "|| ( a b ) ^^ ( b c )", "?? ( a )", "^^ ( a )",
    "a", "!a", "a !a", "|| ( ( a b ) c )", "a? ( || ( b c ) ) !a? ( ^^ ( b c ) )", "^^ ( x? ( a ) b )", "?? ( ( x? ( a ) ) b )",
    "|| ( a? ( a ) )", "a? ( b? ( c? ( d ) ) )", "|| ( !a !b )", "",
]


def run(ctx):
    rng = ctx.rng
    from pkgcore.ebuild.conditionals import DepSet
    from pkgcore.ebuild.ebuild_src import base as ebase
    from pkgcore.restrictions import boolean, values, required_use
    from props.c09 import Real
    real = Real()
    ops = {"||": boolean.OrRestriction, "": boolean.AndRestriction, "^^": boolean.JustOneRestriction, "??": boolean.AtMostOneOfRestriction}

    def parse(s):
        return DepSet.parse(s, values.ContainmentMatch, operators=ops, element_func=ebase._mk_required_use_node, attr="REQUIRED_USE")

    def query(d, iuse, ft, ff, pt, shape=0):
        """the real call; the forced / preferred collections are handed over as different container types"""
        mk = (set, frozenset, tuple, list)[shape % 4]
        return required_use.find_constraint_satisfaction(d, set(iuse), mk(ft), mk(ff), mk(pt) if shape % 3 else set(pt))

    canon = lambda a: tuple(sorted(a.items()))

    cases = []
    replay_sessions = []
    if ctx.replay_cases:
        cases += [(c["required_use"], c["iuse"], c["force_true"], c["force_false"], c["prefer_true"]) for c in ctx.replay_cases
                  if "required_use" in c and "steps" not in c]
        replay_sessions = [c for c in ctx.replay_cases if "steps" in c]
        for c in replay_sessions:
            cases += [(c["required_use"], q["iuse"], q["force_true"], q["force_false"], q["prefer_true"]) for q in c["queries"]]
    strings = [c.replace("x", "e") for c in CORPUS]
    for _ in range(ctx.n(600, 8000)):
        flags = FLAGS[: rng.choice([2, 3, 3, 4, 5])]
        strings.append(" ".join(gen_ru(rng, flags, rng.choice([1, 2, 2, 3])) for _ in range(rng.choice([1, 1, 2, 3]))))
    for s in strings:
        try:
            d = parse(s)
        except Exception:
            continue
        mentioned = sorted(set(required_use.iter_flags(d)) if s.strip() else [])
        universe = sorted(set(mentioned) | {"z"})
        if len(universe) <= 3:
            iuses = [list(c) for r in range(len(universe) + 1) for c in itertools.combinations(universe, r)]
        else:
            iuses = [universe, mentioned] + [[f for f in universe if rng.random() < 0.7] for _ in range(2)]
        for iuse in iuses:
            # forced flags come from the profile (use.force / use.mask): they are not limited to the package's IUSE.
            # Draw them from everything in sight, from none up to all flags (then whole rules are pinned).
            rest = list(iuse) if rng.random() < 0.4 else sorted(set(universe) | {"y"})
            rng.shuffle(rest)
            k = rng.choice([0, 0, 1, 1, 2, 2, 3, len(rest)])
            ft = rest[:k] if rng.random() < 0.6 else []
            ff = [f for f in rest[k:k + rng.choice([0, 0, 0, 1, 1, 2, len(rest)])]]
            pt = [f for f in universe if rng.random() < 0.3]
            cases.append((s, iuse, ft, ff, pt))

    # hand-written preference cases: forced-on / forced-off / preferred / plain flags together, preferred flags that are
    # forced off or outside IUSE, forced flags outside IUSE, rules the preferred assignment satisfies and rules it does not
    for s in ("|| ( a b c d )", "?? ( a b ) || ( c d )", "c? ( !d )", "^^ ( c d )", "a? ( c ) !b? ( || ( c d ) )", "", "!c", "d"):
        cases.append((s, ["a", "b", "c", "d"], ["a"], ["b"], ["c"]))
        cases.append((s, ["a", "b", "c", "d"], ["a", "y"], ["b", "c"], ["b", "c", "d", "z"]))
        cases.append((s, ["b", "c", "d"], ["a"], ["b"], ["a", "c"]))
        cases.append((s, ["a", "b", "c", "d"], [], [], ["a", "b", "c", "d"]))

    reqs, meta = [], []
    for s, iuse, ft, ff, pt in cases:
        d = parse(s)
        j = [real.to_json(r) for r in d.restrictions]
        reqs.append({"cmd": "c10.solve", "deps": j, "iuse": iuse, "force_true": ft, "force_false": ff, "prefer_true": pt})
        meta.append((s, d, j, iuse, ft, ff, pt))
    reps = ctx.model(reqs)
    ereqs, emeta = [], []
    for (s, d, j, iuse, ft, ff, pt), rep in zip(meta, reps):
        case = {"required_use": s, "iuse": iuse, "force_true": ft, "force_false": ff, "prefer_true": pt}
        if rep == "bad-op":
            ctx.mismatch(case, "driver rejected the request")
            continue
        try:
            sols = list(query(d, iuse, ft, ff, pt, shape=len(meta) + len(ereqs)))
        except Exception as e:
            ctx.violation(case, f"find_constraint_satisfaction raised {type(e).__name__}: {e}")
            continue
        variables = sorted(set(iuse) | set(required_use.iter_flags(d))) if s.strip() else sorted(iuse)
        # the preferred assignment comes from the property's wording, computed here; the model's own notion ("the last value
        # of every domain it builds") is only compared with it
        wpref = wording_preferred(variables, iuse, ft, ff, pt)
        ctx.count("preferred_on_%d" % min(sum(wpref.values()), 4))
        kinds = (any(f in iuse for f in ft), any(f in iuse for f in ff), any(f in iuse and f not in ft and f not in ff for f in pt),
                 any(f in iuse and f not in ft and f not in ff and f not in pt for f in variables))
        ctx.count("flag_kinds_forcedon%d_forcedoff%d_preferred%d_plain%d" % tuple(map(int, kinds)))
        if canon(rep["preferred"]) != canon(wpref):
            ctx.mismatch(case, f"the model's preferred assignment {rep['preferred']} is not the one the property words: {wpref}")
        nontriv = any(tok in s for tok in ("||", "^^", "??", "?")) and len(variables) >= 2
        ctx.case(case, nontriv, key=repr(case))
        ctx.count("variables_%d" % min(len(variables), 6))
        ctx.count("solutions_%s" % (len(sols) if len(sols) < 5 else "5+"))
        ctx.count("forced_outside_iuse_%s" % bool([f for f in ft + ff if f not in iuse]))
        got = sorted(canon(a) for a in sols)
        want = sorted(canon(a) for a in rep["solutions"])
        ordered_real = [canon(a) for a in sols]
        ordered_model = [canon(a) for a in rep["ordered"]]
        ctx.count("order_equals_product_order_%s" % (ordered_real == [canon(a) for a in rep["solutions"]]))
        if got != want:
            ctx.mismatch(case, f"solver returns {len(got)} solutions {got[:3]}..., the model {len(want)} {want[:3]}...")
        elif ordered_real != ordered_model:
            k = next(i for i, (x, y) in enumerate(zip(ordered_real, ordered_model)) if x != y) if len(ordered_real) == len(ordered_model) else -1
            ctx.mismatch(case, f"the real solver yields its {len(ordered_real)} solutions in another order than the solver model "
                               f"(first difference at position {k}): real {ordered_real[:4]}..., model {ordered_model[:4]}...")
        # (beyond the first solution, and when the preferred assignment fails, the real solver's dynamic variable ordering
        # decides the order; the property only fixes the preferred-first case, judged below against the worded assignment)
        # ---- the property on the real output
        if len(set(got)) != len(got):
            ctx.violation(case, "a solution was produced more than once")
        for a in sols:
            bad = [f for f in ft if f in iuse and not a.get(f)] + [f for f in ff if f in iuse and a.get(f)] + \
                  [f for f in a if f not in iuse and a[f]]
            if bad:
                ctx.violation(case, f"solution {a} breaks the forced / outside-IUSE flags {bad}")
        # brute force over the admissible assignments, judged by the specification (and by the compiled constraints)
        free = [f for f in variables if f in iuse and f not in ft and f not in ff]
        admissible = []
        for r in range(len(free) + 1):
            for on in itertools.combinations(free, r):
                admissible.append(sorted(set(on) | {f for f in ft if f in iuse}))
        try:
            pinned = [v for _c, v in required_use._compiled_constraints(d) if all(f not in iuse or f in ft or f in ff for f in v)]
            ctx.count("rules_all_pinned_%s" % min(len(pinned), 2))
        except Exception:
            pass
        ereqs.append({"cmd": "c10.eval", "deps": j, "ons": admissible})
        emeta.append((case, variables, admissible, sols, rep, d, wpref))
    by_string = {}
    for (case, variables, admissible, sols, rep, d, wpref), out in zip(emeta, ctx.model(ereqs)):
        produced = {tuple(sorted(f for f, v in a.items() if v)) for a in sols}
        guard = rep["guard"]
        for on, (code_ok, spec_ok) in zip(admissible, out):
            ctx.evaluations += 1
            key = tuple(on)
            if (key in produced) != code_ok:
                ctx.mismatch(dict(case, on=on), f"assignment produced={key in produced}, the compiled constraints (model) say {code_ok}")
            if (key in produced) != spec_ok:
                detail = (f"assignment with {on} on is {'produced' if key in produced else 'not produced'} but "
                          f"{'satisfies' if spec_ok else 'does not satisfy'} REQUIRED_USE (as ebd._check_required_use / Portage read it)")
                ctx.violation(dict(case, on=on), detail, finding=None if guard else "C10-unmet-conditional-in-choice-group")
        pref = {f for f, v in wpref.items() if v}          # from the wording, not from the model
        idx = next((i for i, on in enumerate(admissible) if set(on) == pref), None)
        if idx is None:
            ctx.mismatch(case, f"the worded preferred assignment {sorted(pref)} is not among the admissible assignments (harness)")
        pref_ok = idx is not None and (out[idx][0] or tuple(sorted(pref)) in produced)
        ctx.count("preferred_satisfies_%s" % bool(pref_ok))
        if pref_ok:
            first = {f for f, v in sols[0].items() if v} if sols else None
            if first != pref:
                ctx.violation(case, f"the preferred assignment {sorted(pref)} (forced as forced, preferred on, others off) satisfies the "
                                    f"constraint but the first solution is {sorted(first) if first is not None else 'missing: no solution'}")
        by_string.setdefault(case["required_use"], []).append(
            {"case": case, "d": d, "first_answer": sorted(canon(a) for a in sols),
             "preferred": canon(wpref) if pref_ok else None})

    # ------------------------------------------------------------------ the solver itself: raw constraint problems given directly to
    # the real snakeoil Problem and to the solver model; the ORDERED solution sequences must agree, and the real output is judged
    # by brute force (every assignment of domain values satisfying all constraints with a variable, each once).
    from snakeoil.constraints import Problem

    def real_csp(vars_, cons):
        p = Problem()
        for n, vals in vars_:
            p.add_variable(tuple(vals), n)
        for sc, rows in cons:
            allowed = {tuple(r) for r in rows}
            p.add_constraint((lambda sc, allowed: lambda **kw: tuple(kw[n] for n in sc) in allowed)(tuple(sc), allowed), frozenset(sc))
        names = [n for n, _ in vars_]
        return [[s[n] for n in names] for s in p]

    def gen_csp():
        nv = rng.randint(3, 6)
        names = rng.sample(["a", "b", "c", "d", "e", "f", "ab", "ba", "B", "a_", "aa"], nv)
        vars_ = [[n, rng.sample([0, 1, 2, 3], rng.randint(1, 3))] for n in names]
        doms = dict(vars_)
        cons = []
        for _ in range(rng.choice([0, 1, 2, 2, 3, 3, 4, 5])):
            sc = rng.sample(names, rng.choice([1, 2, 2, 2, 3, 3]))
            allt = list(itertools.product(*[doms[n] for n in sc]))
            keep = rng.choice([0.0] + [0.3, 0.5, 0.6, 0.7, 0.8, 0.9, 1.0] * 3)
            rows = [list(t) for t in allt if rng.random() < keep]
            cons.append([sc, rows])
            if rng.random() < 0.1:
                cons.append([sc, rows])                    # the same constraint twice
        if rng.random() < 0.05:
            cons.insert(rng.randint(0, len(cons)), [[], rng.choice([[], [[]]])])   # no variables: false / true; never called
        return vars_, cons

    csp_corpus = [
        ([["a", [0, 1]], ["b", [0, 1]], ["c", [0, 1]]], []),
        ([["a", [1]], ["b", [0, 1, 2]], ["c", [2, 0]]], [[["a", "b"], [[1, 0], [1, 2]]], [["b", "c"], [[0, 0], [2, 2], [2, 0]]]]),
        ([["x", [0, 1, 2]], ["y", [0, 1, 2]], ["z", [0, 1, 2]]], [[["x", "y"], [[0, 1], [0, 2], [1, 0], [1, 2], [2, 0], [2, 1]]],
                                                                     [["y", "z"], [[0, 1], [0, 2], [1, 2]]], [["z"], [[1], [2]]]]),
        ([["a", [0, 1]], ["b", [0, 1]], ["c", [0, 1]]], [[["a"], []]]),                          # a one-variable constraint empties a domain
        ([["a", [0, 1]], ["b", [0, 1]], ["c", [0, 1]]], [[[], []]]),                             # false constraint without variables: ignored
        ([["a", [0, 1]], ["b", [1, 0]], ["c", [0, 1]]], [[["a", "b", "c"], [[0, 0, 1], [1, 1, 0], [1, 0, 1]]]]),
        ([["b", [2, 1, 0]], ["a", [0, 1, 2]], ["c", [1, 2, 0]]], [[["a", "b"], [[0, 1], [1, 2], [2, 0], [2, 2]]], [["b", "c"], [[1, 1], [2, 0], [0, 2], [2, 2]]],
                                                                       [["a", "c"], [[0, 1], [1, 0], [2, 2], [2, 0]]]]),
    ]
    csps = csp_corpus + [gen_csp() for _ in range(ctx.n(1500, 30000))]
    if ctx.replay_cases:
        csps = [(c["csp_vars"], c["csp_cons"]) for c in ctx.replay_cases if "csp_vars" in c] + csps
    creps = ctx.model([{"cmd": "c10.csp", "vars": v, "cons": c} for v, c in csps])
    for (vars_, cons), rep in zip(csps, creps):
        case = {"csp_vars": vars_, "csp_cons": cons}
        if rep == "bad-op":
            ctx.mismatch(case, "driver rejected the raw constraint problem")
            continue
        try:
            got = real_csp(vars_, cons)
        except Exception as e:
            ctx.mismatch(case, f"snakeoil Problem raised {type(e).__name__}: {e}")
            continue
        nontriv = any(len(sc) >= 2 for sc, _ in cons)
        ctx.case(case, nontriv, key="CSP|" + repr(case))
        ctx.count("csp_variables_%d" % len(vars_))
        ctx.count("csp_solutions_%s" % (len(got) if len(got) < 4 else "4-15" if len(got) < 16 else "16+"))
        for sc, _ in cons:
            ctx.count("csp_constraint_arity_%d" % len(sc))
        names = [n for n, _ in vars_]
        brute = [list(t) for t in itertools.product(*[list(reversed(vals)) for _, vals in vars_])
                 if all(not sc or [t[names.index(n)] for n in sc] in rows for sc, rows in cons)]
        ctx.count("csp_order_equals_product_order_%s" % (got == brute))
        if got != rep:
            same = sorted(got) == sorted(rep)
            ctx.mismatch(case, (f"the real solver and the solver model yield the same {len(got)} solutions in different orders: real {got[:4]}..., model {rep[:4]}..."
                                if same else f"the real solver yields {len(got)} solutions {got[:3]}..., the solver model {len(rep)} {rep[:3]}..."))
        if sorted(got) != sorted(brute):
            ctx.mismatch(case, f"the real solver yields {len(got)} solutions, brute force (each assignment of domain values satisfying every constraint "
                               f"with a variable, once) finds {len(brute)}")
        elif brute and brute[0] == [vals[-1] for _, vals in vars_] and got[0] != brute[0]:
            ctx.mismatch(case, f"the all-last-values assignment {brute[0]} is a solution but the real solver yields {got[0]} first")

    # ------------------------------------------------------------------ sessions: the property holds for *every* call, whatever
    # was asked before in the same process and whatever became of the earlier result iterators.  Queries on one parsed
    # REQUIRED_USE (identical ones on purpose) are started, advanced by single steps, drained, closed, in random interleavings;
    # every answer is judged like a first answer: the same solutions, each once, the preferred assignment first when it satisfies.
    def run_session(string, queries, steps):
        """steps: ["start", query index] | ["next", handle] | ["drain", handle] | ["close", handle]; -> list of complaints"""
        handles, log, complaints = [], [], []

        def describe():
            return {"required_use": string, "queries": [q["case"] for q in queries], "steps": steps[:len(log)]}

        def take(h, n):
            it = h["it"]
            for _ in range(n) if n is not None else itertools.count():
                try:
                    a = next(it)
                except StopIteration:
                    h["done"] = True
                    return
                h["got"].append(canon(a))

        def judge(h, complete):
            q = queries[h["q"]]
            got, want = h["got"], q["first_answer"]
            label = f"query #{h['q']} ({q['case']}) started at step {h['at']}"
            if len(set(got)) != len(got):
                complaints.append(f"{label}: a solution was produced more than once: {got}")
            extra = [a for a in got if a not in want]
            if extra:
                complaints.append(f"{label}: produced {dict(extra[0])}, which the same query asked on its own does not produce")
            if complete and not extra and sorted(set(got)) != want:
                missing = [a for a in want if a not in got]
                complaints.append(f"{label}: {len(missing)} of its {len(want)} solutions never produced, e.g. {dict(missing[0])}")
            if q["preferred"] is not None and got and got[0] != q["preferred"]:
                complaints.append(f"{label}: the preferred assignment {dict(q['preferred'])} satisfies, but the first one produced is {dict(got[0])}")

        for step in steps:
            op, arg = step
            log.append(step)
            try:
                if op == "start":
                    q = queries[arg]["case"]
                    it = query(queries[arg]["d"], q["iuse"], q["force_true"], q["force_false"], q["prefer_true"], shape=len(handles))
                    handles.append({"q": arg, "it": it, "got": [], "done": False, "closed": False, "at": len(log) - 1})
                    continue
                h = handles[arg]
                if h["closed"]:
                    continue
                if op == "next":
                    take(h, 1)
                elif op == "drain":
                    take(h, None)
                elif op == "close":
                    close = getattr(h["it"], "close", None)
                    if close is not None:
                        close()
                    h["closed"] = True
                    judge(h, False)
                if h["done"] and not h["closed"]:
                    h["closed"] = True
                    judge(h, True)
            except Exception as e:
                complaints.append(f"step {len(log) - 1} {step} raised {type(e).__name__}: {e}")
                break
        return describe(), complaints

    def gen_steps(nq):
        steps, started, live = [], [], []
        for _ in range(rng.randint(3, 10)):
            r = rng.random()
            if not live or r < 0.4:
                # repeat an earlier query more often than not
                qi = rng.choice(started) if started and rng.random() < 0.65 else rng.randrange(nq)
                started.append(qi)
                live.append(len(started) - 1)
                steps.append(["start", qi])
                if rng.random() < 0.5:      # the usual caller: take everything at once
                    steps.append(["drain", live.pop()])
            elif r < 0.7:
                steps.append(["next", rng.choice(live)])
            elif r < 0.9:
                steps.append(["drain", live.pop(rng.randrange(len(live)))])
            else:
                steps.append(["close", live.pop(rng.randrange(len(live)))])
        while live:
            steps.append([rng.choice(["drain", "drain", "drain", "close"]), live.pop(rng.randrange(len(live)))])
        return steps

    sessions = []
    for c in replay_sessions:
        qs = [q for q in by_string.get(c["required_use"], []) if q["case"] in c["queries"]]
        if len(qs) >= len(c["queries"]):
            qs = [next(q for q in qs if q["case"] == want) for want in c["queries"]]
            sessions.append((c["required_use"], qs, c["steps"]))
    for string, qs in by_string.items():
        if not ctx.quick() or string in strings[:len(CORPUS)] or rng.random() < 0.7:
            pick = rng.sample(qs, min(len(qs), rng.choice([1, 1, 2, 3])))
            # the plain pattern first: ask, take everything, ask again; then ask while the first answer is still pending
            sessions.append((string, pick, [["start", 0], ["drain", 0], ["start", 0], ["next", 1], ["start", 0], ["drain", 2], ["drain", 1]]))
            sessions.append((string, pick, gen_steps(len(pick))))
    nsess = 0
    for string, qs, steps in sessions:
        desc, complaints = run_session(string, qs, steps)
        nsess += 1
        ctx.evaluations += sum(1 for st in steps if st[0] == "start")
        nontriv = any(tok in string for tok in ("||", "^^", "??", "?")) and any(len(q["first_answer"]) >= 2 for q in qs)
        ctx.case(desc, nontriv, key="S|" + repr(desc))
        ctx.count("session_steps_%s" % min(len(steps), 12))
        for msg in complaints[:1]:
            ctx.violation(desc, "in a sequence of queries in one process: " + msg)
    ctx.extra["sessions"] = nsess


LEVEL_TEXT = ("Kernel-checked Lean 4 theorems about a model of required_use.py: splitting into several constraints preserves the conjunction; the "
              "compiled constraints equal the REQUIRED_USE semantics pkgcore itself checks with (evaluate, then match) on every structure without a "
              "conditional below ||/^^/?? (proved counterexample outside); every assignment of the domains built by find_constraint_satisfaction "
              "keeps forced-on flags on and forced-off / outside-IUSE flags off, and forced flags outside IUSE change nothing. The solver "
              "(snakeoil.constraints.Problem) is modelled faithfully - domains with hidden-value and state stacks, forward checking, degree/MRV "
              "variable choice, backtracking, one-variable preprocessing - and proved, for every problem, sound, complete (a value hidden by forward "
              "checking has no consistent extension), duplicate-free, to enumerate the values of the branching variable from the end of its domain, "
              "and to yield the all-last-values assignment first when it is a solution; instantiated with the problem find_constraint_satisfaction "
              "builds this gives, with no solver contract, that the solutions are sound, complete, duplicate-free and the preferred assignment comes "
              "first when it satisfies (the earlier contract model is proved to have exactly the same solutions); the preferred assignment is "
              "proved, flag by flag and without reference to the order of the domains, to be the one the property words: on iff in IUSE and "
              "(forced on, or not forced off and in the preferred set). Tied to the code by a differential "
              "run that compares the real solver's ORDERED solution sequence with the solver model (REQUIRED_USE queries and random raw constraint "
              "problems given directly to snakeoil's Problem) and the solutions with a brute-force enumeration judged by the specification, and "
              "that computes the preferred assignment in Python from the wording (not from the model) and demands it as the real first solution "
              "whenever it satisfies, and that re-asks the same and related queries in one process (after full enumerations, with earlier result iterators suspended, "
              "drained later or closed) demanding the same answer every time.")
LEVEL_NOTE = ("The solver is no longer a contracted parameter: it is modelled and proved. Trusted about it: that the recursive model is the explicit-queue "
              "loop of __solve and that set/dict iteration order is immaterial (compared per run, ordered). The solver never calls a constraint "
              "without variables (proved counterexample; an empty ||/^^/?? group, which the parser never builds). "
              "The model is a pure function of the query; that the real function is one too (no state shared between calls) is checked by the "
              "session runs only. "
              "Open finding: an unmet conditional directly inside ||/^^/?? is compiled to 'true' while pkgcore's own checker and Portage drop it.")
