"""C27 — metadata cache entries round-trip and are replaced atomically."""
import math
import os
import resource
import shutil
import signal
import tempfile

from props import c24 as _c24        # shared audit-hook tracer (one hook per process)

PID = "C27"
LEAN_MODULES = ["Pkgcore.Props.C27"]
OBLIGATIONS = [
    "Pkgcore.C27.cache_roundtrip",
    "Pkgcore.C27.store_crash_safe",
    "Pkgcore.C27.keys_never_partial",
    "Pkgcore.C27.store_completes",
    "Pkgcore.C27.parseEntry_render",
    "Pkgcore.C27.reconstruct_deconstruct",
    "Pkgcore.C27.temp_rename_prefix",
    "Pkgcore.C27.tmpOf_not_listed",
    "Pkgcore.C27.store_failure_keeps_old",
]
TRUSTED = [
    "str.split('=',1), '\\t'.join/split, str.strip (white-space table generated from str.isspace), sorted() on distinct keys, '%x'/rjust, "
    "int(s,16), f'{floor(t):.0f}' and floor(float(s)) are re-expressed in Lean; the last two as exact integer printing/parsing (true for |t| < 2**53)",
    "text-mode file iteration (universal newlines) as uniGo/fileLines; UTF-8 codec not modelled",
    "_setitem = [mkdir*, open(tmp,'w'), write*, close, chown, chmod, rename]; the real os-level operation sequence is recorded with an audit hook "
    "and compared with the model's list; rename(2) atomic; process-crash model (no fsync)",
    "metadata_keys, eclass_splitter, chf types, default perms and the white-space table are regenerated from the imported modules on every run",
]
ASSUMPTIONS = [
    "values are str (what ebuild metadata is); keys contain no '=' or line break and are not the reserved names _chf_/_eclasses_/_mtime_/_md5_",
    "eclass names are non-empty words without white space; eclass directories contain no tab or line break; md5 values are non-negative",
    "the pid in the temporary name contains no '/' (it is a decimal number)",
]
RULE = ("metadata dicts for flat_hash.database and md5_cache: 0-12 of the known keys plus unknown ones, values with leading/trailing/inner blanks, tabs, "
        "'=', other white space, non-ASCII, empty; _chf_ objects with float/int mtimes or 128-bit md5s; _eclasses_ absent, empty or 1-5 eclasses with "
        "paths containing blanks/unicode; stored under one- to three-level cpvs into a directory that already holds entries and a stale temporary "
        "file; re-read and listed; a subset of stores (replacing an existing entry in two of three cases) is made to fail at every os-level operation: "
        "death before it (fork + _exit), error return from it once, error return from it and from every later call of the same kind, error "
        "return followed by a death at one of the next three operations, SIGXFSZ mid-write, and an exception raised while a value is rendered; "
        "after each the previous entry or the new one must be readable and listed. ~3% of dicts contain "
        "a multi-line value (outside the property's domain, model-vs-code only). non-trivial = at least 3 known keys and a value with outer white space, "
        "'=' or non-ASCII")


def gen_tables(repo):
    from pkgcore.cache import flat_hash
    d = tempfile.mkdtemp(prefix="verif-c27-t-")
    try:
        db = flat_hash.database(d)
        md = flat_hash.md5_cache(d)
        keys = ", ".join('"%s"' % k for k in db.default_keys)
        for k in db.default_keys:
            if not k.replace("_", "").isalnum():
                raise ValueError("unexpected metadata key " + k)
        sp = [c for c in range(0x110000) if chr(c).isspace()]
        text = ("-- GENERATED from /repo by harness/props/c27.py (gen_tables); do not edit\n"
                "namespace Pkgcore.Generated.C27\n"
                f"def metadataKeys : List String := [{keys}]\n"
                f"def eclassSplitter : Char := Char.ofNat {ord(db.eclass_splitter)}\n"
                f"def flatChf : String := \"{db.chf_type}\"\n"
                f"def flatEclassChfs : List String := [{', '.join(chr(34) + c + chr(34) for c in db.eclass_chf_types)}]\n"
                f"def md5Chf : String := \"{md.chf_type}\"\n"
                f"def md5EclassChfs : List String := [{', '.join(chr(34) + c + chr(34) for c in md.eclass_chf_types)}]\n"
                f"def entryPerms : Nat := {db._perms}\n"
                f"def pySpaces : List Nat := {sp}\n"
                "end Pkgcore.Generated.C27\n")
        if (db.chf_type, tuple(db.eclass_chf_types), md.chf_type, tuple(md.eclass_chf_types), db.mtime_in_entry, db.cleanse_keys) != \
                ("mtime", ("eclassdir", "mtime"), "md5", ("md5",), True, False):
            raise ValueError("cache layouts changed; the Lean model of the two layouts no longer applies")
    finally:
        shutil.rmtree(d, ignore_errors=True)
    return {"Pkgcore/Generated/C27Tables.lean": text}


class H:
    def __init__(self, **kw):
        self.__dict__.update(kw)


KNOWN = ["BDEPEND", "DEPEND", "RDEPEND", "PDEPEND", "IDEPEND", "DEFINED_PHASES", "DESCRIPTION", "EAPI", "HOMEPAGE", "INHERIT", "INHERITED", "IUSE",
         "KEYWORDS", "LICENSE", "PROPERTIES", "REQUIRED_USE", "RESTRICT", "SLOT", "SRC_URI"]
UNKNOWN = ["UNKNOWN", "FOO", "", "X Y", "depend", "_md5", "mtime", "SLOT ", "é"]
VALUES = ["", "0", "foo bar", "foo bar ", " 0", "  ", "\t", "a=b", "=", ">=dev-lang/python-3.12:= x? ( y )", "é ü", "日本語 ", "\U0001f600", "x\x0b", "\x0c y", "nbsp\xa0",
          "a\tb", "trailing\t", "http://x/?a=1&b=2 ", "~amd64 x86", "compile install", "\u2028sep", "x\x85"]
ECLASSES = ["eutils", "flag-o-matic", "python-r1", "toolchain-funcs", "a", "multilib_minimal", "é", "x.y"]
EDIRS = ["/var/db/repos/gentoo/eclass", "/o/e class", "eclass", "", "/é/日本", "/x ", " /lead"]


def gen_value(rng, multiline):
    if multiline and rng.random() < 0.5:
        return rng.choice(["a\nb", "x\r", "\n", "l1\r\nl2", "t\n"])
    k = rng.random()
    if k < 0.7:
        return rng.choice(VALUES)
    return "".join(rng.choice("ab =\té ") for _ in range(rng.randrange(0, 12)))


def gen_values(rng, kind, multiline=False):
    n = rng.choice([0, 1, 3, 5, 8, 12])
    keys = rng.sample(KNOWN, min(n, len(KNOWN)))
    if rng.random() < 0.4:
        keys += rng.sample(UNKNOWN, rng.randrange(1, 3))
    vals = {k: gen_value(rng, multiline) for k in keys}
    mt = rng.choice([0, 1, 1700000000, 1700000000.7, 0.5, 2 ** 31 + 0.25, 1e12, rng.randrange(0, 2 ** 32), rng.random() * 2e9])
    vals["_chf_"] = H(mtime=mt, md5=rng.choice([0, 1, 0xabc, 2 ** 128 - 1, rng.getrandbits(128)]))
    r = rng.random()
    if r < 0.25:
        pass
    elif r < 0.35:
        vals["_eclasses_"] = {}
    else:
        ecl = {}
        for name in rng.sample(ECLASSES, rng.randrange(1, 6)):
            d = rng.choice(EDIRS)
            ecl[name] = H(path=(d + "/" if d else "") + name + ".eclass", mtime=rng.choice([5, 5.5, 1600000000.9, rng.randrange(0, 2 ** 31)]),
                          md5=rng.getrandbits(128) if rng.random() < 0.8 else rng.choice([0, 1, 0xdef]))
        vals["_eclasses_"] = ecl
    return vals


def to_model_entry(values, kind):
    chf = values["_chf_"]
    e = {"vals": [[k, v] for k, v in values.items() if k not in ("_chf_", "_eclasses_")],
         "chf": str(math.floor(chf.mtime) if kind == "flat" else chf.md5), "eclasses": None}
    if "_eclasses_" in values:
        e["eclasses"] = [[n, os.path.dirname(d.path), str(math.floor(d.mtime) if kind == "flat" else d.md5)] for n, d in values["_eclasses_"].items()]
    return e


def expected_py(values, kind, known):
    """the property, independently: known keys/values, chf, eclass data"""
    chf = values["_chf_"]
    out = {"vals": sorted([k, v] for k, v in values.items() if k in known and k != "_eclasses_"),
           "chf": str(math.floor(chf.mtime) if kind == "flat" else chf.md5), "eclasses": None}
    if "_eclasses_" in values:
        out["eclasses"] = [[n, os.path.dirname(d.path) if kind == "flat" else "", str(math.floor(d.mtime) if kind == "flat" else d.md5)]
                           for n, d in values["_eclasses_"].items()]
    return out


def canon_item(d, kind):
    chf_key = "_mtime_" if kind == "flat" else "_md5_"
    out = {"vals": sorted([k, v] for k, v in d.items() if k not in (chf_key, "_eclasses_")), "chf": str(d[chf_key]), "eclasses": None}
    if "_eclasses_" in d:
        ecl = []
        for name, chfs in d["_eclasses_"]:
            c = dict(chfs)
            ecl.append([name, c.get("eclassdir", ""), str(c["mtime"] if kind == "flat" else c["md5"])])
        out["eclasses"] = ecl
    return out


def canon_model(rep):
    if "ok" in rep:
        e = rep["ok"]
        return {"vals": sorted(e["vals"]), "chf": e["chf"], "eclasses": e["eclasses"]}, None
    return None, rep["err"]


def in_domain(values):
    for k, v in values.items():
        if k in ("_chf_", "_eclasses_"):
            continue
        if "\n" in v or "\r" in v or "=" in k or "\n" in k or "\r" in k:
            return False
    return True


RAW = [
    "", "_mtime_=5\n", "_md5_=00ab\n", "SLOT=0\n_mtime_=5\n_md5_=0f\n", "SLOT=0\n", "SLOT\n_mtime_=5\n_md5_=1\n", "SLOT=0\n\n_mtime_=5\n_md5_=1\n", "SLOT=0\r\n_mtime_=5\r\n_md5_=1\r\n",
    "SLOT=0\r_mtime_=5\r_md5_=1", "SLOT=0\n_mtime_=abc\n_md5_=xyz\n", "SLOT=a\nSLOT=b\n_mtime_=5\n_md5_=1\n", "=x\n_mtime_=5\n_md5_=1\n", "FOO=bar\n_mtime_=5\n_md5_=1\n",
    "_eclasses_=\n_mtime_=5\n_md5_=1\n", "_eclasses_=a\t/d\t5\n_mtime_=5\n_md5_=1\n", "_eclasses_=a\t0f\n_mtime_=5\n_md5_=1\n", "_eclasses_=a\n_mtime_=5\n_md5_=1\n",
    "_eclasses_= a\t/d\t5 \n_mtime_=5\n_md5_=1\n", "_eclasses_=a\t/d\tx\n_mtime_=5\n_md5_=1\n", "_eclasses_=a\t/d\t5\tb\t/e\t6\n_mtime_=5\n_md5_=1\n", "_eclasses_=a\t0f\tb\t1\n_mtime_=5\n_md5_=1\n",
    "_eclasses_=\t\n_mtime_=5\n_md5_=1\n", "SLOT= 0 \n_mtime_=-5\n_md5_=0ABC\n", "SLOT=0\n_mtime_=5\n_md5_=1", "DESCRIPTION=a=b=c\n_mtime_=5\n_md5_=1\n",
    "_eclasses_=a\t\t5\n_mtime_=5\n_md5_=1\n", "_eclasses_=\xa0a\t/d\t5\n_mtime_=5\n_md5_=1\n",
]


def run(ctx):
    from pkgcore.cache import errors, flat_hash

    rng = ctx.rng
    root = os.path.realpath(tempfile.mkdtemp(prefix="verif-c27-"))
    KL = {"flat": flat_hash.database, "md5": flat_hash.md5_cache}

    def mk(kind, sub):
        c = KL[kind](os.path.join(root, sub))
        return c

    def get(cache, kind, cpv):
        try:
            return canon_item(cache[cpv], kind), None
        except errors.CacheCorruption:
            return None, "corrupt"
        except KeyError:
            return None, "keyerror" if os.path.exists(os.path.join(cache.location, cpv)) else "missing"

    def snapshot(cache):
        out = []
        for dp, _, files in os.walk(cache.location):
            for f in files:
                p = os.path.join(dp, f)
                with open(p, "rb") as fh:
                    out.append([os.path.relpath(p, cache.location), fh.read().decode("utf8", "ignore")])
        return sorted(out)

    try:
        known = {k: set(mk(k, "k-" + k)._known_keys) for k in KL}
        # ---------------- raw texts: the reader alone
        reqs, got = [], []
        for kind in KL:
            cache = mk(kind, "raw-" + kind)
            os.makedirs(os.path.join(cache.location, "cat"), exist_ok=True)
            for t in RAW:
                with open(os.path.join(cache.location, "cat", "p-1"), "w", encoding="utf8", newline="") as f:
                    f.write(t)
                got.append((kind, t, get(cache, kind, "cat/p-1")))
                reqs.append({"cmd": "c27.parse", "kind": kind, "text": t})
        for (kind, t, (item, err)), rep in zip(got, ctx.model(reqs)):
            case = {"raw_text": t, "kind": kind}
            ctx.case(case, False)
            ctx.count("raw_" + (err or "ok"))
            m, merr = canon_model(rep)
            if (item, err) != (m, merr):
                ctx.mismatch(case, f"cache[cpv] gives {item if err is None else err}, the model {m if merr is None else merr}")

        # ---------------- generated dicts: store, read, list
        cases = []
        CORPUS = [
            ("flat", "cat/pkg-1", {"DESCRIPTION": "foo bar ", "SLOT": " 0", "EAPI": "", "UNKNOWN": "x", "DEPEND": "a=b", "_chf_": H(mtime=1700000000.7, md5=0xabc),
                                   "_eclasses_": {"eutils": H(path="/repo/eclass/eutils.eclass", mtime=5.5, md5=0xdef), "flag-o": H(path="/o/eclass/flag-o.eclass", mtime=7, md5=1)}}),
            ("md5", "cat/pkg-1", {"DESCRIPTION": "trailing tab\t", "KEYWORDS": "\xa0", "_chf_": H(mtime=1, md5=2 ** 128 - 1), "_eclasses_": {}}),
            ("flat", "pkg", {"_chf_": H(mtime=0, md5=0)}),
            ("md5", "a/b/c-1.0", {"SLOT": "0/1=", "_chf_": H(mtime=3, md5=3), "_eclasses_": {"x": H(path="x.eclass", mtime=1, md5=1)}}),
            ("flat", "cat/multi", {"DESCRIPTION": "line1\nline2", "_chf_": H(mtime=3, md5=3)}),      # outside the domain
        ]
        for kind, cpv, values in CORPUS:
            cases.append((kind, cpv, values, "corpus"))
        for _ in range(ctx.n(1000, 30000)):
            kind = rng.choice(["flat", "md5"])
            cpv = rng.choice(["cat/pkg-1", "cat/pkg-2", "dev-lang/python-3.12.1", "pkg", "a/b/c-1.0", "cat/.hidden", "cat/x.cpickle.y", "virtual/update.1"])
            cases.append((kind, cpv, gen_values(rng, kind, multiline=rng.random() < 0.03), "gen"))
        caches = {k: mk(k, "main-" + k) for k in KL}
        for k, c in caches.items():        # a stale temporary file of an earlier, crashed store
            os.makedirs(os.path.join(c.location, "cat"), exist_ok=True)
            with open(os.path.join(c.location, "cat", ".update.999.pkg-9"), "w") as f:
                f.write("DESCRIPTION=half")
        reqs, meta = [], []
        for idx, (kind, cpv, values, origin) in enumerate(cases):
            cache = caches[kind]
            case = {"kind": kind, "cpv": cpv, "origin": origin,
                    "values": {k: (v if isinstance(v, str) else {"mtime": v.mtime, "md5": v.md5} if k == "_chf_" else
                                   {n: {"path": d.path, "mtime": d.mtime, "md5": d.md5} for n, d in v.items()}) for k, v in values.items()}}
            traced = idx % 8 == 0
            had_dir = os.path.isdir(os.path.dirname(os.path.join(cache.location, cpv)))
            if traced:
                _c24.trace_on(root)
            try:
                cache[cpv] = values
                serr = None
            except Exception as e:
                serr = f"{type(e).__name__}: {e}"
            finally:
                events = _c24.trace_off() if traced else None
            if serr is not None:
                ctx.case(case, False)
                ctx.violation(case, f"store raised {serr}")
                continue
            path = os.path.join(cache.location, cpv)
            with open(path, encoding="utf8", newline="") as f:
                text = f.read()
            item, err = get(cache, kind, cpv)
            listed = sorted(cache.keys())
            on_disk = [p for p, _ in snapshot(cache)]
            reqs.append({"cmd": "c27.render", "kind": kind, "entry": to_model_entry(values, kind)})
            reqs.append({"cmd": "c27.parse", "kind": kind, "text": text})
            reqs.append({"cmd": "c27.keys", "fs": [[p, ""] for p in on_disk]})
            if traced:
                reqs.append({"cmd": "c27.storeops", "pid": str(os.getpid()), "cpv": cpv, "gid": cache._gid, "mkdirs": [], "chunks": [text]})
            meta.append((case, kind, cpv, values, text, item, err, listed, on_disk, events, had_dir, cache.location))
        replies = iter(ctx.model(reqs))
        for case, kind, cpv, values, text, item, err, listed, on_disk, events, had_dir, loc in meta:
            mrender, mparse, mkeys = next(replies), next(replies), next(replies)
            mops = next(replies) if events is not None else None
            dom = in_domain(values)
            nk = [k for k in values if k in known[kind]]
            nontrivial = len(nk) >= 3 and any(isinstance(v, str) and (v != v.strip() or "=" in v or any(ord(c) > 127 for c in v)) for v in values.values())
            ctx.case(case, nontrivial and dom, key=repr(case))
            ctx.count("kind_" + kind)
            ctx.count("nkeys_%d" % min(len(nk), 12))
            ctx.count("eclasses_" + ("absent" if "_eclasses_" not in values else str(min(len(values["_eclasses_"]), 5))))
            ctx.count("domain" if dom else "multiline_value")
            if any(isinstance(v, str) and v != v.strip() for v in values.values()):
                ctx.count("value_with_outer_whitespace")
            # --- edge A
            if mrender["text"] != text:
                ctx.mismatch(case, f"cache file text {text[:200]!r} differs from the model's {mrender['text'][:200]!r}")
            m, merr = canon_model(mparse)
            if (item, err) != (m, merr):
                ctx.mismatch(case, f"cache[cpv] gives {str(item)[:300] if err is None else err}, the model {str(m)[:300] if merr is None else merr}")
            if sorted(mkeys) != listed:
                ctx.mismatch(case, f"keys() lists {listed}, the model {sorted(mkeys)} for the files {on_disk}")
            if events is not None:
                ctx.traces += 1
                want = [o for o in mops if o[0] not in ("write", "close")]
                have = [[(-1 if isinstance(a, int) and a == 2 ** 32 - 1 else a) for a in e]       # uid_t -1 as seen by the audit hook
                        for e in events if e[0] not in ("mkdir",) and not os.path.isdir(e[1])]
                if not had_dir and have and have[0][0] == "creat":
                    have = have[1:]                     # first open() failed with ENOENT before the directories were made
                want = [[o[0], os.path.join(loc, o[1])] + ([os.path.join(loc, o[2])] if o[0] == "rename" else o[2:]) for o in want]
                if have != want:
                    ctx.mismatch(case, f"os-level operations of the store {have} differ from the model's {want}")
            # --- edge C
            if any(".update." in os.path.basename(p) for p in listed):
                ctx.violation(case, f"keys() reports a temporary file as a package: {[p for p in listed if '.update.' in p]}")
            if cpv not in listed:
                ctx.violation(case, f"keys() does not list the stored entry {cpv}")
            if not dom:
                continue
            exp = expected_py(values, kind, known[kind])
            ms = mrender["expected"]
            if {"vals": sorted(ms["vals"]), "chf": ms["chf"], "eclasses": ms["eclasses"]} != exp:
                ctx.mismatch(case, "Lean Spec.expected disagrees with the harness' reading of the property")
            if err is not None:
                ctx.violation(case, f"reading the stored entry back raised {err}")
            elif item != exp:
                diff = [k for k in ("vals", "chf", "eclasses") if item[k] != exp[k]]
                ctx.violation(case, f"read back differs in {diff}: {str([item[k] for k in diff])[:300]} instead of {str([exp[k] for k in diff])[:300]}")

        # ---------------- crash injection
        ccases = [(k, c, v) for k, c, v, o in cases if in_domain(v)][: ctx.n(5, 100)]
        big = {k: ("x%d " % i) * 3000 for i, k in enumerate(KNOWN[:8])}
        big["_chf_"] = H(mtime=9, md5=9)
        ccases.insert(0, ("flat", "cat/big-1", big))
        creqs, cmeta = [], []
        for ci, (kind, cpv, values) in enumerate(ccases):
            sub = "crash-%d" % ci
            cache = mk(kind, sub)
            # old state: two other entries, a stale temp file, and (every other case) an older version of the same entry
            old_other = {"SLOT": "1", "_chf_": H(mtime=1, md5=1)}
            cache["other/pkg-0"] = old_other
            if ci % 3 != 2:
                cache[cpv] = {"SLOT": "old", "DESCRIPTION": "previous entry", "_chf_": H(mtime=2, md5=2)}
            if ci % 3 == 1:
                cache["cat/sibling-1"] = old_other
            old_snap = snapshot(cache)
            old_items = {k: get(cache, kind, k) for k in cache.keys()}
            exp = expected_py(values, kind, known[kind])
            # reference run in a scratch copy to learn the text and the event list
            ref = mk(kind, sub + "-ref")
            shutil.copytree(cache.location, ref.location, dirs_exist_ok=True)
            _c24.trace_on(root)
            ref[cpv] = values
            events = _c24.trace_off()
            with open(os.path.join(ref.location, cpv), encoding="utf8", newline="") as f:
                new_text = f.read()
            mkdirs = [os.path.relpath(e[1], ref.location) for e in events if e[0] == "mkdir"]
            nev = len(events)
            points = [("event", j) for j in range(nev)] + [("fsize", rng.randrange(0, max(1, len(new_text.encode("utf8"))))) for _ in range(2)]
            # error returns instead of deaths: once, persistently (ENOSPC/EIO do not go away), and followed by a death at one of the
            # operations the error handling itself performs; plus an exception raised while the values are rendered
            points += [("fault", j) for j in range(nev)] + [("persist", j) for j in range(nev)]
            points += [("fault+crash", (j, m)) for j in range(nev) for m in (1, 2)]
            points += [("render-raises", None)]
            for pkind, arg in points:
                shutil.rmtree(cache.location)
                os.makedirs(cache.location)
                for p, c in old_snap:
                    os.makedirs(os.path.dirname(os.path.join(cache.location, p)), exist_ok=True)
                    with open(os.path.join(cache.location, p), "w", encoding="utf8", newline="") as f:
                        f.write(c)
                crashed, status, raised = False, None, None
                if pkind in ("event", "fsize", "fault+crash"):
                    pid = os.fork()
                    if pid == 0:
                        try:
                            if pkind == "event":
                                _c24.trace_on(root, crash_at=arg)
                            elif pkind == "fault+crash":
                                _c24.trace_on(root, crash_at=arg[0] + arg[1], faults={arg[0]: "persist"})
                            else:
                                signal.signal(signal.SIGXFSZ, signal.SIG_DFL)
                                resource.setrlimit(resource.RLIMIT_FSIZE, (arg, arg))
                            cache[cpv] = values
                        finally:
                            os._exit(0)
                    _, status = os.waitpid(pid, 0)
                    crashed = (os.WIFEXITED(status) and os.WEXITSTATUS(status) == 99) or os.WIFSIGNALED(status)
                else:
                    pid = os.getpid()
                    vals = values
                    if pkind == "render-raises":
                        class Unrenderable(str):
                            def __format__(self, spec):
                                raise RuntimeError("injected while rendering a value")
                        vals = dict(values)
                        vals["KEYWORDS"] = Unrenderable("x")          # sorts between other keys: some lines are already written
                        vals.setdefault("DEPEND", "a")
                        vals.setdefault("SLOT", "0")
                        _c24.trace_on(root)
                    else:
                        _c24.trace_on(root, faults={arg: "oserror" if pkind == "fault" else "persist"})
                    try:
                        cache[cpv] = vals
                    except Exception as e:
                        raised = type(e).__name__
                    finally:
                        _c24.trace_off()
                case = {"crash": pkind, "at": arg, "kind": kind, "cpv": cpv, "nkeys": len(values), "had_old": ci % 3 != 2}
                if raised is not None:
                    case["store_raised"] = raised
                ctx.case(case, True, key=repr((ci, pkind, arg)))
                ctx.count("crash_" + pkind)
                ctx.count("crashed" if crashed else "store_raised" if raised else "completed")
                if pkind == "event" and not crashed:
                    ctx.mismatch(case, f"the child did not crash at operation {arg} (status {status})")
                if pkind == "render-raises" and raised is None:
                    ctx.mismatch(case, "the unrenderable value did not make the store raise")
                snap = snapshot(cache)
                listed = sorted(cache.keys())
                # --- the property after the crash
                for k in listed:
                    item, err = get(cache, kind, k)
                    if k == cpv:
                        if (item, err) != old_items.get(k, (None, "missing")) and (err is not None or item != exp):
                            ctx.violation(case, f"after the crash cache[{k!r}] is neither the previous entry nor the new one: {str(item)[:200] if err is None else err}")
                    elif k not in old_items:
                        ctx.violation(case, f"after the crash keys() reports {k!r}, which was never stored")
                    elif (item, err) != old_items[k]:
                        ctx.violation(case, f"after the crash another entry changed: {k!r}")
                if cpv not in listed and cpv in old_items:
                    ctx.violation(case, "after the crash / failed store the previous entry is gone")
                for k in old_items:
                    if k not in listed:
                        ctx.violation(case, f"after the crash the entry {k!r} disappeared from keys()")
                # --- the model at the corresponding prefix
                tmp_rel = os.path.join(os.path.dirname(cpv), ".update.%d.%s" % (pid, os.path.basename(cpv)))
                tmp_now = dict(snap).get(tmp_rel)
                if pkind not in ("event", "fsize"):
                    if raised is not None and cpv in old_items and get(cache, kind, cpv) != old_items[cpv]:
                        ctx.violation(case, f"the store failed with {raised} but the previous entry is not what a reader gets any more")
                    if pkind != "fault+crash":
                        # the same process tries again (whatever the failed attempt left behind is still there) with a short entry
                        retry = {"SLOT": "0", "_chf_": H(mtime=4, md5=4)}
                        try:
                            cache[cpv] = retry
                            back = get(cache, kind, cpv)
                        except Exception as e:
                            back = (None, f"store raised {type(e).__name__}")
                        if back != (expected_py(retry, kind, known[kind]), None):
                            ctx.violation(dict(case, retry="store {'SLOT': '0'} again in the same process"),
                                          f"a store repeated after the failed one does not read back: {str(back)[:300]}")
                    continue
                if pkind == "event":
                    # k = number of model operations completed before the event `arg` of the real trace
                    done = [e for e in events[:arg]]
                    k = len([e for e in done if e[0] == "mkdir"])
                    rest = [e for e in done if e[0] != "mkdir" and not os.path.isdir(e[1])]
                    if mkdirs and rest and rest[0][0] == "creat":
                        rest = rest[1:]                 # the failed first open()
                    n_rest = len(rest)                  # of: creat, chown, chmod, rename
                    k += 0 if n_rest == 0 else 1 if n_rest == 1 else (1 + 1 + 1 + (n_rest - 1))   # creat | creat write close + chown..
                    chunks = [new_text]
                else:
                    part = tmp_now or ""
                    chunks = [part, new_text[len(part):]]
                    k = len(mkdirs) + 2
                creqs.append({"cmd": "c27.crash", "kind": kind, "pid": str(pid), "cpv": cpv, "gid": cache._gid, "mkdirs": mkdirs, "chunks": chunks, "k": k,
                              "fs": [[p, c] for p, c in old_snap]})
                cmeta.append((case, snap, listed, tmp_rel, pkind))
        for (case, snap, listed, tmp_rel, pkind), rep in zip(cmeta, ctx.model(creqs)):
            d = dict(snap)
            if rep["target"] != d.get(case["cpv"]):
                ctx.mismatch(case, "file system after the crash: entry content differs from the model's prefix state")
            if sorted(rep["keys"]) != listed:
                ctx.mismatch(case, f"after the crash keys() = {listed}, the model's prefix state lists {sorted(rep['keys'])}")
            if pkind == "event" and (rep["tmp"] is None) != (tmp_rel not in d):
                ctx.mismatch(case, f"after the crash the temp file {'exists' if tmp_rel in d else 'is absent'}, the model says {rep['tmp'] is not None}")
    finally:
        _c24.trace_off()
        shutil.rmtree(root, ignore_errors=True)


LEVEL_TEXT = ("Kernel-checked Lean 4 theorems about a model of cache.base.__setitem__/__getitem__, (de/re)construct_eclasses and "
              "flat_hash._setitem/_parse_data/keys for both the flat and the md5-cache layout: every metadata dict of the domain reads back with the same "
              "known keys and values, eclass data and chf (cache_roundtrip, no size bound); at every prefix of the store's operation list the entry "
              "path holds the previous or the complete new text and every other entry is untouched (store_crash_safe); every name keys() yields at "
              "any crash point is a previously listed entry or the completely stored one — the temporary file is never listed (keys_never_partial, "
              "tmpOf_not_listed); a completed store is listed and leaves no temp file (store_completes). Tied to the code by differential runs on "
              "generated dicts, raw texts, recorded os-level traces and real crashes (fork/_exit before each operation, SIGXFSZ mid-write).")
LEVEL_NOTE = ("Trusted: Lean kernel, standard axioms; Python string/number primitives as re-expressed (floats only through floor, exact below 2**53); "
              "atomic rename(2); process-crash model.")
