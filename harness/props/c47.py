"""C47 — tarball sync replaces a repository atomically and recovers from interruption."""
import contextlib
import functools
import http.server
import io
import os
import shutil
import tarfile
import tempfile
import threading

from props.c29 import CrashObserver, digest

PID = "C47"
LEAN_MODULES = ["Pkgcore.Props.C47"]
OBLIGATIONS = [
    "Pkgcore.C47.sync_old_or_new_partial",
    "Pkgcore.C47.sync_gap",
    "Pkgcore.C47.sync_gap_counterexample",
    "Pkgcore.C47.first_sync_old_or_new",
    "Pkgcore.C47.failed_sync_keeps_old",
    "Pkgcore.C47.next_sync_completes",
    "Pkgcore.C47.interrupted_sync_recovers",
    "Pkgcore.C47.new_tree_is_the_tarball",
    "Pkgcore.C47.unfixed_sync_stuck_counterexample",
]
TRUSTED = [
    "abstract file system of C29 (directory entries of the repos directory, rename(2) atomic, rename of a directory over an empty directory allowed); "
    "a tree is the flat list of its regular files",
    "the HTTP transfer and `tar --extract` are external: their outcomes (unreachable / unchanged / broken off / complete; unpack ok / fails after k files) "
    "are parameters of the model, universally quantified in the theorems and produced for real by a local HTTP server and real tarballs in the harness; "
    "tar is trusted to write below its -C directory only (the observer would see a changed repository tree otherwise)",
    "crash points are observed with the sys audit hook of C29 (mutating OS calls of the Python process); states inside the tar run are added "
    "synthetically as prefixes of the extracted tree in the staging directory",
    "the download goes to a temporary file outside the repos directory (tempfile.NamedTemporaryFile + AtomicWriteFile), not modelled",
]
ASSUMPTIONS = [
    "no regular file sits at the repository path or at the names .<repo>.update / .<repo>.old",
    "the repository tree is compared without the syncer's own bookkeeping files .etag and .modified",
    "process exit runs the atexit handlers that remove the staging directories; a killed process does not (both variants are exercised)",
]
RULE = ("a case = initial repos directory (no repository; repository from an earlier real sync; plus leftovers .repo.update / .repo.old — empty, partial or "
        "holding a tree; or the gap state: repository path missing and the tree in .repo.old) + one sync against a local HTTP server "
        "(tar.gz / tar.bz2 / tar.xz, good, truncated, corrupt, 404, short body, unchanged ETag / Last-Modified, force or not) + exit or kill; every "
        "mutating OS call is a crash point: the repository tree is read there, and a follow-up sync of another tarball is run from a copy of that "
        "state; non-trivial = the sync performed at least one OS call on the repos directory; key = initial state + tarball + options")
LEVEL_TEXT = ("Kernel-checked Lean 4 theorems about the operation list of tar_syncer.sync() (as repaired) on an abstract repos directory, for every "
              "initial state, tarball, outcome and prefix: a successful sync shows the old tree, the new tree or — between its two renames only — no "
              "repository path (sync_old_or_new_partial; sync_gap shows that window exists for every existing repository: open finding); the first "
              "sync is atomic (first_sync_old_or_new); a failed download or unpack never changes what a reader sees (failed_sync_keeps_old); from any "
              "state whatsoever the next successful sync ends with the complete new tree and no staging directory (next_sync_completes); after an "
              "interruption in the window the next sync first restores the old tree, also when it then fails (interrupted_sync_recovers). Tied to "
              "the code by running real syncs against a local HTTP server, reading the tree at every crash point, running a follow-up sync from "
              "every crash state, and comparing tree sequence, visible operations and final staging state with the model.")
LEVEL_NOTE = ("Trusted: Lean kernel; standard axioms only; abstract file system; HTTP and tar as outcome parameters. Partial: the two-rename window "
              "(open finding C47-tar-sync-gap).")

F_GAP = "C47-tar-sync-gap"
REPO = "gentoo"
BOOK = (".etag", ".modified")


# ------------------------------------------------------------------ tarballs and server

TREES = {
    "v1": [("profiles/repo_name", b"gentoo\n"), ("metadata/layout.conf", b"masters =\n"), ("dev-util/foo/foo-1.ebuild", b"EAPI=8\n")],
    "v2": [("profiles/repo_name", b"gentoo\n"), ("metadata/layout.conf", b"masters =\nthin-manifests = true\n"),
           ("dev-util/foo/foo-2.ebuild", b"EAPI=8\nSLOT=2\n"), ("dev-util/foo/Manifest", b"DIST x 1\n"), ("eclass/a.eclass", b"# a\n")],
    "v3": [("profiles/repo_name", b"gentoo\n"), ("a", b"1"), ("b/c/d/e", b"deep\n"), ("metadata/layout.conf", b"masters = x\n")] +
          [("many/f%02d" % i, b"x" * (37 * i)) for i in range(40)],
    "empty": [],
}


def make_tar(files, mode):
    buf = io.BytesIO()
    with tarfile.open(fileobj=buf, mode=mode) as t:
        top = tarfile.TarInfo("gentoo-master")
        top.type = tarfile.DIRTYPE
        top.mode = 0o755
        t.addfile(top)
        for p, data in files:
            ti = tarfile.TarInfo("gentoo-master/" + p)
            ti.size = len(data)
            ti.mode = 0o644
            t.addfile(ti, io.BytesIO(data))
    return buf.getvalue()


class Handler(http.server.BaseHTTPRequestHandler):
    catalog = {}

    def log_message(self, *a):
        pass

    def do_GET(self):
        ent = self.catalog.get(self.path.lstrip("/"))
        if ent is None:
            self.send_error(404)
            return
        body, etag, modified, short = ent
        if etag and self.headers.get("If-None-Match") == etag:
            self.send_response(304)
            self.end_headers()
            return
        self.send_response(200)
        self.send_header("Content-Length", str(len(body) + (1000 if short else 0)))
        if etag:
            self.send_header("ETag", etag)
        if modified:
            self.send_header("Last-Modified", modified)
        self.end_headers()
        self.wfile.write(body)
        if short == "reset":              # drop the connection with a RST while the client is still reading
            import socket, struct
            self.wfile.flush()
            self.connection.setsockopt(socket.SOL_SOCKET, socket.SO_LINGER, struct.pack("ii", 1, 0))
            self.close_connection = True


def build_catalog(rng):
    cat = {}
    for name, mode, ext in (("v1", "w:gz", "tar.gz"), ("v2", "w:bz2", "tar.bz2"), ("v3", "w:xz", "tar.xz"), ("v2", "w:gz", "tar.gz"),
                            ("empty", "w:gz", "tar.gz")):
        cat[f"{name}.{ext}"] = (make_tar(TREES[name], mode), None, None, False)
    good = make_tar(TREES["v3"], "w:gz")
    cat["v3-etag.tar.gz"] = (good, '"abc123"', None, False)
    cat["v3-modified.tar.gz"] = (good, None, "Wed, 21 Oct 2015 07:28:00 GMT", False)
    cat["v3-nomatch-etag.tar.gz"] = (good, 'W/"weak"', "Thu, 22 Oct 2015 07:28:00 GMT", False)
    cat["trunc.tar.gz"] = (good[: len(good) * 2 // 3], None, None, False)
    cat["trunc-early.tar.gz"] = (good[:60], None, None, False)
    cat["corrupt.tar.gz"] = (bytes(rng.randrange(256) for _ in range(3000)), None, None, False)
    cat["notgzip.tar.bz2"] = (good, None, None, False)                      # gzip data under a bzip2 name
    cat["short.tar.gz"] = (good[:500], None, None, True)                    # body shorter than Content-Length: read as a short file
    cat["reset.tar.gz"] = (good[:500], None, None, "reset")                 # connection reset while reading the body
    return cat


# ------------------------------------------------------------------ reading a repos directory

def read_tree(path):
    """what a reader finds at the repository path: relative file -> digest (None: no such directory)"""
    if not os.path.isdir(path):
        return None
    out = {}
    for dp, dn, fn in os.walk(path):
        for f in fn:
            rel = os.path.relpath(os.path.join(dp, f), path)
            if rel in BOOK:
                continue
            with open(os.path.join(dp, f), "rb") as fh:
                out[rel] = digest(fh.read())
    return out


def flat(path):
    """model view of a directory entry: sorted [(relative file, digest)] including bookkeeping files"""
    out = []
    for dp, dn, fn in os.walk(path):
        for f in fn:
            with open(os.path.join(dp, f), "rb") as fh:
                out.append([os.path.relpath(os.path.join(dp, f), path), digest(fh.read())])
    return sorted(out)


def abstract_repos(repos):
    store = []
    for n in sorted(os.listdir(repos)):
        p = os.path.join(repos, n)
        store.append([n, {"dir": flat(p)} if os.path.isdir(p) else {"file": "f"}])
    return store


def tree_of(name):
    return {p: digest(d) for p, d in TREES[name]}


# ------------------------------------------------------------------ scenarios

INITIALS = ["none", "v1", "v1+old-empty", "v1+old-tree", "v1+update-partial", "v1+both", "none+update-partial", "gap", "gap+update"]
TARBALLS = ["v1.tar.gz", "v2.tar.bz2", "v3.tar.xz", "v2.tar.gz", "empty.tar.gz", "v3-etag.tar.gz", "v3-modified.tar.gz", "v3-nomatch-etag.tar.gz",
            "trunc.tar.gz", "trunc-early.tar.gz", "corrupt.tar.gz", "notgzip.tar.bz2", "short.tar.gz", "reset.tar.gz", "missing.tar.gz", "refused"]
TREE_OF_TARBALL = {"v1.tar.gz": "v1", "v2.tar.bz2": "v2", "v3.tar.xz": "v3", "v2.tar.gz": "v2", "empty.tar.gz": "empty", "v3-etag.tar.gz": "v3",
                   "v3-modified.tar.gz": "v3", "v3-nomatch-etag.tar.gz": "v3"}


def write_tree(path, name):
    for p, data in TREES[name]:
        os.makedirs(os.path.dirname(os.path.join(path, p)) or path, exist_ok=True)
        with open(os.path.join(path, p), "wb") as f:
            f.write(data)


def build_initial(repos, initial):
    os.makedirs(repos)
    base = os.path.join(repos, REPO)
    upd, old = os.path.join(repos, f".{REPO}.update"), os.path.join(repos, f".{REPO}.old")
    parts = initial.split("+")
    if parts[0] == "v1":
        os.makedirs(base)
        write_tree(base, "v1")
    elif parts[0] == "gap":            # interrupted between the two renames
        os.makedirs(old)
        write_tree(old, "v1")
    for p in parts[1:]:
        if p == "old-empty":
            os.makedirs(old)
        elif p == "old-tree":
            os.makedirs(old)
            write_tree(old, "v2")
        elif p in ("update-partial", "update"):
            os.makedirs(upd)
            with open(os.path.join(upd, "half-extracted"), "w") as f:
                f.write("partial")
            os.makedirs(os.path.join(upd, "sub"))
            with open(os.path.join(upd, "sub", "x"), "w") as f:
                f.write("partial")
        elif p == "both":
            os.makedirs(old)
            write_tree(old, "v2")
            os.makedirs(upd)
            with open(os.path.join(upd, "half-extracted"), "w") as f:
                f.write("partial")


FAKE_TAR = r"""#!/bin/bash
# stand-in for tar that dies *silently* part-way: VERIF_FAKE_TAR = kill:K | exit:K  (K = number of files it still extracts)
plan="$VERIF_FAKE_TAR"; mode=${plan%%:*}; k=${plan##*:}
real=@REAL@
comp=; file=; args=("$@")
for ((i=0;i<${#args[@]};i++)); do
  case "${args[i]}" in --gzip|--bzip2|--xz) comp=${args[i]};; -f) file=${args[i+1]};; esac
done
mapfile -t members < <("$real" --list $comp -f "$file" 2>/dev/null | grep -v '/$' | head -n "$k")
if [ ${#members[@]} -gt 0 ]; then "$real" "$@" "${members[@]}" >/dev/null 2>&1; fi
if [ "$mode" = kill ]; then kill -KILL $$; fi
exit 2
"""


def gen_scenario(rng):
    sc = {"initial": rng.choice(INITIALS), "tarball": rng.choice(TARBALLS[:8] * 2 + TARBALLS[8:]), "force": rng.random() < 0.6,
          "prior_etag": rng.random() < 0.3, "exit": rng.choice(["exit", "kill"])}
    if sc["tarball"] in TREE_OF_TARBALL and rng.random() < 0.3:
        n = len(TREES[TREE_OF_TARBALL[sc["tarball"]]])
        sc["tar"] = rng.choice(["kill", "exit"]) + ":%d" % rng.choice([0, 1, n // 2, max(n - 1, 0), n])
    return sc


def corpus():
    S = lambda i, t, force=True, prior=False, ex="kill": {"initial": i, "tarball": t, "force": force, "prior_etag": prior, "exit": ex}
    return [
        S("v1+old-empty", "v2.tar.bz2"),            # the defect fixed in the repo: leftover staging directories
        S("v1+both", "v3.tar.xz"),
        S("none", "v1.tar.gz"), S("v1", "v2.tar.gz", ex="exit"), S("v1", "v3-etag.tar.gz"),
        S("gap", "v2.tar.bz2"), S("gap", "missing.tar.gz"), S("gap+update", "corrupt.tar.gz"), S("gap", "short.tar.gz"),
        S("v1", "trunc.tar.gz"), S("v1", "trunc-early.tar.gz"), S("v1", "corrupt.tar.gz"), S("v1", "notgzip.tar.bz2"),
        S("v1", "short.tar.gz"), S("v1", "reset.tar.gz"), S("v1", "missing.tar.gz"), S("v1", "refused"), S("none", "corrupt.tar.gz"), S("none+update-partial", "missing.tar.gz"),
        S("v1", "v3-etag.tar.gz", force=False, prior=True), S("v1", "v3-modified.tar.gz", force=False, prior=True),
        S("v1", "v3-nomatch-etag.tar.gz", force=False, prior=True), S("v1", "empty.tar.gz"),
        # the unpacker itself dies without a word (killed by a signal, or a bare non-zero exit) after part of the archive
        dict(S("v1", "v3-etag.tar.gz"), tar="kill:20"), dict(S("v1", "v2.tar.bz2"), tar="exit:2"), dict(S("v1", "v3.tar.xz"), tar="kill:0"),
        dict(S("v1+both", "v2.tar.gz"), tar="kill:5"), dict(S("none", "v1.tar.gz"), tar="exit:1"), dict(S("gap", "v3-modified.tar.gz"), tar="kill:44"),
    ]


# ------------------------------------------------------------------ the check

def run(ctx):
    from pkgcore.sync import base as sync_base
    from pkgcore.sync.tar import tar_syncer
    rng = ctx.rng
    root = tempfile.mkdtemp(prefix="verif-c47-")
    Handler.catalog = build_catalog(rng)
    srv = http.server.ThreadingHTTPServer(("127.0.0.1", 0), Handler)
    threading.Thread(target=srv.serve_forever, daemon=True).start()
    port = srv.server_address[1]
    dead = http.server.ThreadingHTTPServer(("127.0.0.1", 0), Handler)      # bound, never served, closed at once: connection refused
    dead_port = dead.server_address[1]
    dead.server_close()
    obs = CrashObserver.get()
    pending = []
    counter = [0]

    def uri(tarball):
        if tarball == "refused":
            return f"tar+http://127.0.0.1:{dead_port}/v1.tar.gz"
        return f"tar+http://127.0.0.1:{port}/{tarball}"

    fakebin = os.path.join(root, "fakebin")
    os.makedirs(fakebin)
    with open(os.path.join(fakebin, "tar"), "w") as f:
        f.write(FAKE_TAR.replace("@REAL@", shutil.which("tar") or "/usr/bin/tar"))
    os.chmod(os.path.join(fakebin, "tar"), 0o755)

    def do_sync(repos, tarball, force, exit_mode, tar_plan=None):
        """one sync() with a fresh syncer; returns 'ok' / 'unchanged-or-ok' result or the exception class name"""
        syncer = tar_syncer(os.path.join(repos, REPO), uri(tarball))
        saved_path = os.environ.get("PATH", "")
        try:
            if tar_plan:
                os.environ["PATH"] = fakebin + os.pathsep + saved_path
                os.environ["VERIF_FAKE_TAR"] = tar_plan
            with contextlib.redirect_stdout(io.StringIO()):
                ret = syncer.sync(force=force)
            res = "ok" if ret else "false"
        except sync_base.SyncError as e:
            res = "SyncError"
        except Exception as e:
            res = "exc:" + type(e).__name__
        finally:
            os.environ["PATH"] = saved_path
            os.environ.pop("VERIF_FAKE_TAR", None)
            with contextlib.suppress(Exception):
                syncer.tarball.close()
        if exit_mode == "exit":           # what the atexit handlers do at process exit
            for d in (getattr(syncer, "tempdir", None), getattr(syncer, "tempdir_old", None)):
                if d:
                    shutil.rmtree(d, ignore_errors=True)
        return res

    def follow_up(snapshot_dir, label, sc, expect_old):
        """from a crash state: (1) a failing sync must leave a complete old/new tree, (2) a good sync of another tarball must complete"""
        counter[0] += 1
        work = os.path.join(root, "f%d" % counter[0])
        shutil.copytree(snapshot_dir, work, symlinks=True)
        before = read_tree(os.path.join(work, REPO))
        r1 = do_sync(work, "missing.tar.gz", True, "kill")
        after_fail = read_tree(os.path.join(work, REPO))
        if r1 != "SyncError":
            ctx.violation(sc, f"follow-up sync of a missing tarball after a crash {label}: result {r1}")
        if (after_fail or {}) not in [t or {} for t in expect_old]:
            ctx.violation(sc, f"after a crash {label} and a failed follow-up sync the repository path holds neither the old nor the new tree: "
                              f"{sorted(after_fail or {})[:6]}")
        r2 = do_sync(work, "v2.tar.gz", True, "kill")
        t2 = read_tree(os.path.join(work, REPO))
        if r2 != "ok" or t2 != tree_of("v2") or os.path.exists(os.path.join(work, f".{REPO}.update")):
            ctx.violation(sc, f"follow-up sync after a crash {label} did not complete: result {r2}, tree {sorted(t2 or {})[:6]}, "
                              f"staging left: {os.path.exists(os.path.join(work, f'.{REPO}.update'))}")
        ctx.count("followup_syncs", 2)
        shutil.rmtree(work, ignore_errors=True)

    def run_scenario(sc):
        counter[0] += 1
        repos = os.path.join(root, "s%d" % counter[0], "repos")
        os.makedirs(os.path.dirname(repos))
        build_initial(repos, sc["initial"])
        base = os.path.join(repos, REPO)
        if sc["prior_etag"] and os.path.isdir(base):
            ent = Handler.catalog.get(sc["tarball"])
            stale = sc["tarball"] == "v3-nomatch-etag.tar.gz"
            if ent and ent[1]:
                with open(os.path.join(base, ".etag"), "w") as f:
                    f.write('"an-older-etag"' if stale else ent[1])
            if ent and ent[2]:
                with open(os.path.join(base, ".modified"), "w") as f:
                    f.write("Mon, 01 Jan 2001 00:00:00 GMT" if stale else ent[2])
        store0 = abstract_repos(repos)
        old_tree = read_tree(base)
        snaps = os.path.join(os.path.dirname(repos), "snaps")
        os.makedirs(snaps)
        points = []

        def probe(ev, paths):
            d = os.path.join(snaps, "p%d" % len(points))
            shutil.copytree(repos, d, symlinks=True)
            points.append([ev, read_tree(base), d])

        with obs.watch(repos, probe):
            result = do_sync(repos, sc["tarball"], sc["force"], "kill", sc.get("tar"))
        if any(e[0] == "observer-error" for e in obs.events):
            ctx.mismatch(sc, "observer failed: %r" % [e for e in obs.events if e[0] == "observer-error"][:2])
            return
        events = list(obs.events)
        final_dir = os.path.join(snaps, "final")
        shutil.copytree(repos, final_dir, symlinks=True)
        final_tree = read_tree(base)
        points.append([("end",), final_tree, final_dir])
        staging = [os.path.exists(os.path.join(repos, f".{REPO}.update")), os.path.exists(os.path.join(repos, f".{REPO}.old"))]
        extracted_n = len(flat(os.path.join(repos, f".{REPO}.update"))) if staging[0] else 0
        ctx.traces += 1
        ctx.count("crash_points", len(points))
        ctx.count("initial_" + sc["initial"])
        ctx.count("tarball_" + sc["tarball"])
        if sc.get("tar"):
            ctx.count("silent_tar_death_" + sc["tar"].split(":")[0])
        ctx.count("result_" + result)

        # ---- what should have happened (independent of the model)
        tname = TREE_OF_TARBALL.get(sc["tarball"])
        ent = Handler.catalog.get(sc["tarball"])
        restored = tree_of("v1") if sc["initial"].startswith("gap") else None
        unchanged = bool(not sc["force"] and sc["prior_etag"] and old_tree is not None and ent and (ent[1] or ent[2])
                         and sc["tarball"] in ("v3-etag.tar.gz", "v3-modified.tar.gz"))
        success = tname is not None and not unchanged and not sc.get("tar")
        effective_old = restored if restored is not None else old_tree
        if success:
            new_tree = tree_of(tname)
            if result != "ok" or final_tree != new_tree:
                ctx.violation(sc, f"sync of a good tarball: result {result}, final tree {sorted(final_tree or {})[:6]}")
        else:
            new_tree = None
            if unchanged:
                if result != "ok":
                    ctx.violation(sc, f"unchanged content: result {result}")
            elif result == "ok":
                ctx.violation(sc, "a failed download/unpack was reported as a successful sync")
            elif result != "SyncError":
                ctx.note(f"a failed transfer surfaces as {result} instead of SyncError (file system effects are checked regardless)")
            if (final_tree or {}) != (effective_old or {}):
                ctx.violation(sc, f"a failed or unchanged sync altered the repository tree: {sorted(final_tree or {})[:6]} vs old {sorted(effective_old or {})[:6]}")
        if sc.get("tar") and tname and not unchanged and not sc["prior_etag"]:     # (with prior_etag the old tree itself carries that ETag)
            # the archive was fine, only the unpacker died: a plain re-sync (not forced) must now install the complete tree,
            # it must not be told "unchanged" on the strength of an ETag recorded by the failed run
            counter[0] += 1
            work = os.path.join(root, "t%d" % counter[0])
            shutil.copytree(repos, work, symlinks=True)
            r2 = do_sync(work, sc["tarball"], False, "kill")
            t2 = read_tree(os.path.join(work, REPO))
            if r2 != "ok" or t2 != tree_of(tname):
                ctx.violation(sc, f"re-sync after the unpacker died silently: result {r2}, tree {sorted(t2 or {})[:6]} instead of the complete new tree")
            shutil.rmtree(work, ignore_errors=True)
        # ---- every crash point: complete old or complete new tree
        changed = False
        for ev, tree, d in points:
            if tree != old_tree:
                changed = True
            allowed = [old_tree or {}, effective_old or {}] + ([new_tree] if new_tree is not None else [])
            if (tree or {}) in allowed:
                continue
            if tree is None and success and old_tree:
                ctx.violation(sc, f"crash before {ev}: the repository path does not exist (old tree moved away, new tree not yet in place)", finding=F_GAP)
            else:
                ctx.violation(sc, f"crash before {ev}: the repository path holds neither the complete old nor the complete new tree: {sorted(tree or {})[:8]}")
        ctx.case(sc, nontrivial=len(events) > 0, key=repr(sorted(sc.items())))

        # ---- follow-up syncs from the crash states (distinct states only), plus synthetic states inside the tar run
        seen = set()
        expect = [old_tree, effective_old] + ([new_tree] if new_tree is not None else [])
        budget = ctx.n(2, 40)
        distinct = []
        for ev, tree, d in points:
            sig = repr(abstract_repos(d))
            if sig not in seen:
                seen.add(sig)
                distinct.append((ev, tree, d))
        # most interesting first: repository path missing, then a populated staging directory, then the rest
        distinct.sort(key=lambda p: (p[1] is not None, not os.path.isdir(os.path.join(p[2], f".{REPO}.update"))))
        for ev, tree, d in distinct[:budget]:
            follow_up(d, f"before {ev}", sc, expect)
        if success and tname and TREES[tname]:
            spawn = [p for p in points if p[0][0] == "spawn"]
            if spawn:
                for k in sorted(({len(TREES[tname]) // 2} if ctx.quick() else {1, len(TREES[tname]) // 2, len(TREES[tname]) - 1}) - {0}):
                    counter[0] += 1
                    syn = os.path.join(root, "y%d" % counter[0])
                    shutil.copytree(spawn[0][2], syn, symlinks=True)
                    for p, data in TREES[tname][:k]:
                        fp = os.path.join(syn, f".{REPO}.update", p)
                        os.makedirs(os.path.dirname(fp), exist_ok=True)
                        with open(fp, "wb") as f:
                            f.write(data)
                    if (read_tree(os.path.join(syn, REPO)) or {}) != (effective_old or {}):
                        ctx.mismatch(sc, "synthetic mid-extraction state construction is off")
                    follow_up(syn, f"while tar had extracted {k} files", sc, expect)
                    shutil.rmtree(syn, ignore_errors=True)
        if sc["exit"] == "exit":
            for n in (f".{REPO}.update", f".{REPO}.old"):
                shutil.rmtree(os.path.join(repos, n), ignore_errors=True)
            follow_up(repos, "after a normal exit", sc, [final_tree])

        # ---- material for edge A
        seq = []
        for ev, tree, d in points:
            item = [sorted((tree or {}).items()), tree is not None]
            if not seq or seq[-1] != item:
                seq.append(item)
        vis = []
        for ev in events:
            tops = [p.split(os.sep)[0] for p in ev[1:]]
            if REPO not in tops:
                continue
            rel = ev[1].split(os.sep)
            if ev[0] in ("open-trunc", "open-write"):
                vis.append(["put", REPO, os.sep.join(rel[1:])])
            elif ev[0] == "mkdir":
                vis.append(["mkdir", REPO] if len(rel) == 1 else ["mkdir-inside", ev[1]])
            elif ev[0] == "rename":
                vis.append(["rename"] + tops)
            else:
                vis.append([ev[0]] + list(ev[1:]))
        if not success:
            download = "unchanged" if unchanged else ("broken" if result.startswith("exc:") and events and not sc.get("tar") else
                                                      "unreachable" if sc["tarball"] in ("missing.tar.gz", "refused") else "ok")
        else:
            download = "ok"
        fails = None if success or download != "ok" else extracted_n
        files_name = tname or "v3"
        pending.append((sc, {"cmd": "c47.sync", "store": store0, "repo": REPO, "download": download, "unpack_fails_after": fails,
                             "files": [[p, digest(d)] for p, d in TREES[files_name]],
                             "etag": "e" if (success and ent and ent[1]) else None, "modified": "m" if (success and ent and ent[2]) else None},
                        seq, vis, staging))
        shutil.rmtree(os.path.dirname(repos), ignore_errors=True)

    try:
        scenarios = corpus() + [gen_scenario(rng) for _ in range(ctx.n(3, 250))]
        for sc in scenarios:
            run_scenario(sc)
    finally:
        srv.shutdown()
        srv.server_close()
        shutil.rmtree(root, ignore_errors=True)

    # ---- edge A: the Lean model
    for (sc, req, seq, vis, staging), rep in zip(pending, ctx.model([p[1] for p in pending])):
        if not isinstance(rep, dict):
            ctx.mismatch(sc, f"driver answered {rep!r}")
            continue
        mseq = [[sorted((p, c) for p, c in t), ex] for t, ex in rep["trees"]]
        rseq = [[[tuple(x) for x in t], ex] for t, ex in seq]
        mseq = [[[tuple(x) for x in t], ex] for t, ex in mseq]
        if rseq != mseq:
            short = lambda s: [["%d files #%s" % (len(t), digest(repr(t).encode())), ex] for t, ex in s]
            ctx.mismatch(sc, f"sequence of distinct repository trees at the crash points: implementation {short(rseq)} vs Lean model {short(mseq)}")
        mvis = []
        for o in rep["ops"]:
            if o[-1] or o[0] == "noop":
                continue
            mvis.append(["put", o[1], o[2]] if o[0] == "put" else [o[0]] + o[1:-1])
        if vis != mvis:
            ctx.mismatch(sc, f"operations on the repository path: implementation {vis} vs Lean model {mvis}")
        if staging != [rep["final"]["update"], rep["final"]["old"]]:
            ctx.mismatch(sc, f"staging directories left behind (update, old): implementation {staging} vs Lean model "
                             f"{[rep['final']['update'], rep['final']['old']]}")
