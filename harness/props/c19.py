"""C19 — an interrupted merge never leaves a replaced file half-written.

Every mutating call of a real merge (os.* and write-mode open/write, seen by interposition) is a crash point: the
merge is re-run from an identical scratch root and killed (BaseException, all later mutating calls suppressed)
right before call k, for every k; the surviving file system is compared with the model's state after the same
prefix of its log and judged by the Lean specification.  Additionally: crashes in the middle of a write (half the
data on disk) and EIO injected into call k (the code's own error handling then runs).
"""
import os

from . import c18
from .c18 import (Recorder, Crash, Ids, snapshot, fs_json, canon_fs, entry_json, make_cset, gen_pre, gen_entries,
                  has_symlinked_ancestor, classify_exc, model_trace, env_json, resolve_entries, diff_fs, gen_remerge, next_build, _f, _d, _s, _e)

PID = "C19"
LEAN_MODULES = ["Pkgcore.Props.C19"]
OBLIGATIONS = [
    "Pkgcore.C19.merge_crash_safe_partial",
    "Pkgcore.C19.merge_crash_states",
    "Pkgcore.C19.merge_log_is_trajectory",
    "Pkgcore.C19.merge_crash_safe_counterexample",
    "Pkgcore.C19.atomic_replace_prefix",
    "Pkgcore.C19.outside_paths_untouched",
    "Pkgcore.C19.crashSafe_bounded_iff",
]
TRUSTED = c18.TRUSTED + [
    "a crash is simulated at system-call granularity (the process dies between two calls, or in the middle of a write with half of "
    "the data stored); reordering of completed calls below the syscall layer (power loss without fsync) is outside the model",
    "rename(2) replaces the destination atomically (POSIX), as the abstract file system states",
]
ASSUMPTIONS = c18.ASSUMPTIONS + [
    "the theorem quantifies over every prefix of the calls of every merge, whatever it would return (normally or an exception "
    "half-way); half-written data blocks and injected EIO faults (the code's error handling under faults the model does not "
    "produce) are covered by the sampled runs only",
]
RULE = ("random small contents trees over random pre-existing roots (generators of C18) and re-merges (the root holds an earlier build of the "
        "same package: same data and mtime with other owner and/or mode, same-size new data, other mtime, other type, dropped and new entries), upgrades of live programs and "
        "'alternatives'-style roots (names that are symlinks to existing files outside the contents set, replaced by the new build); the target directory is given as part "
        "of the locations, as the canonical absolute offset, as an offset relative to the working directory (from the parent, a sibling, the root itself) or as a non-normalised absolute path; pre-existing files really carry "
        "set-uid/set-gid/sticky/empty permission bits and have further hard-link names outside the contents set (own directory, top level, sibling); for each, every mutating call k of the real merge "
        "is a crash point (fresh identical root, killed before call k), plus half-write crashes and EIO injection at every k; "
        "non-trivial = a crash point of a merge that replaces at least one pre-existing non-directory path and lies strictly inside the merge")

# scratch roots: the shared builder sets the owner before the permissions (chown(2) clears set-uid/set-gid — for root as
# well), so pre-existing files really carry the special permission bits of their node
Sandbox = c18.Sandbox


# permission bits a live file can carry besides rwx: set-uid, set-gid, both, sticky, with and without x; and none at all
SPECIAL_MODES = [0o4755, 0o4711, 0o2755, 0o6755, 0o4750, 0o2711, 0o2644, 0o1755, 0o4000, 0o6000, 0]
STASH = "stash"      # a directory name no generator of contents uses: other names of live files go here


def with_other_names(rng, pre, ents, p_mode=0.45, p_link=0.45):
    """the same pre-existing root, but live regular files may carry special permission bits and may have further names
    (hard links) that are NOT in the contents set: in a directory of their own, at the top level, or next to them.
    What `ln`, a backup tool, a package splitting its files, or an attacker keeping an old set-id binary alive do."""
    pre = [dict(n) for n in pre]
    ent_paths = {tuple(e["p"]) for e in ents}
    used = {tuple(n["p"]) for n in pre}
    kinds = {tuple(n["p"]): n["k"] for n in pre}
    extra, stash_made = [], (STASH,) in used
    for n in list(pre):
        if n["k"] != "file" or n.get("link_to") is not None:
            continue
        if rng.random() < p_mode:
            n["mode"] = rng.choice(SPECIAL_MODES)
        for _ in range(rng.choice([1, 1, 2])):
            if rng.random() >= p_link:
                continue
            where = rng.random()
            par = tuple(n["p"][:-1])
            if where < 0.5:
                q = (STASH, "kept-%d" % len(extra))
            elif where < 0.75 or any(kinds.get(par[:i]) != "dir" for i in range(1, len(par) + 1)):
                q = (".other-%d" % len(extra),)
            else:
                q = par + (n["p"][-1] + ".orig",)
            if q in used or q in ent_paths or any(q[:i] in ent_paths for i in range(1, len(q))) \
                    or any(tuple(e["p"])[:len(q)] == q for e in ents) or q[-1].endswith("#new"):
                continue
            if q[0] == STASH and not stash_made:
                extra.append({"p": [STASH], "k": "dir", "mode": 0o700, "uid": MY(0), "gid": MY(1), "mtime": 5})
                used.add((STASH,))
                stash_made = True
            used.add(q)
            extra.append({"p": list(q), "k": "file", "link_to": list(n["p"]), "data": n["data"], "mode": n["mode"], "uid": n["uid"],
                          "gid": n["gid"], "mtime": n["mtime"]})
    return pre + extra


def MY(i):
    return (c18.MY_UID, c18.MY_GID)[i]


def gen_upgrade(rng):
    """a directory of live programs — some set-uid / set-gid, some with other names elsewhere — and their next version:
    new content for most of them (same or other size, mode, owner), some as a hard-link group of the new build
    (do_link's '#new' + rename over a live file), some unchanged"""
    top = rng.choice([[], ["bin"], ["usr", "bin"]])
    pre = [_d(top[:i], mode=0o755) for i in range(1, len(top) + 1)]
    ents = [_e(top[:i], "dir", mode=0o755, mtime=1111) for i in range(1, len(top) + 1)]
    names = rng.sample(["su", "sg", "ls", "ping", "mount", "x y", "a"], rng.randint(1, 3))
    group = None
    for nm in names:
        uid, gid = c18.gen_owner(rng)
        old = _f(top + [nm], c18.gen_data(rng) or "6f6c64", mode=rng.choice(SPECIAL_MODES[:8] + [0o755, 0o644]), uid=uid, gid=gid,
                 mtime=rng.choice([5, 1000, 77777]))
        pre.append(old)
        r = rng.random()
        if r < 0.12:
            continue                                   # not part of the new build
        e = _e(top + [nm], "reg", data=old["data"] if r < 0.25 else (c18.gen_data(rng) or "6e6577"), src=rng.choice(["mem", "file"]),
               mode=rng.choice([old["mode"], 0o4755, 0o2755, 0o755, 0o4711]) or 0o755, mtime=rng.choice([old["mtime"], 2000, 4242]))
        e["uid"], e["gid"] = rng.choice([(old["uid"], old["gid"]), c18.gen_owner(rng)])
        if rng.random() < 0.35:
            if group is None:
                group = dict(e, key=[1, rng.randint(2, 6)])
                e = dict(group, p=e["p"])
            else:
                e = dict(group, p=e["p"])
        if rng.random() < 0.1:
            e = _e(top + [nm], rng.choice(["sym", "fifo"]), target="busybox")
        ents.append(e)
    if rng.random() < 0.3:
        ents.append(_e(top + ["new-tool"], "reg", mode=0o4755))
    if not any(e["k"] != "dir" for e in ents):
        ents.append(_e(top + [names[0]], "reg", mode=0o4755))
    rng.shuffle(ents)
    ents.sort(key=lambda e: e["k"] != "dir")         # (contents order among non-directories stays random)
    return with_other_names(rng, pre, ents, p_mode=0.0, p_link=0.7), ents


def gen_relink(rng):
    """a live root in the 'alternatives' style: names that are symlinks to versioned programs next to them or to shared
    defaults elsewhere — targets that exist and belong to somebody else; the new build replaces such links by regular
    files, or by links to a new version it ships, and leaves some alone"""
    top = rng.choice([[], ["etc"], ["usr", "bin"]])
    pre = [_d(top[:i], mode=0o755) for i in range(1, len(top) + 1)] + [_d(["share"], mode=0o755)]
    ents = [_e(top[:i], "dir", mode=0o755, mtime=1111) for i in range(1, len(top) + 1)]
    for nm in rng.sample(["python", "editor", "app.conf", "x y", "cc"], rng.randint(1, 3)):
        uid, gid = c18.gen_owner(rng)
        if rng.random() < 0.5:
            tp, target = top + [nm + "-1.0"], nm + "-1.0"
        else:
            tp, target = ["share", nm + ".default"], "../" * len(top) + "share/" + nm + ".default"
        pre.append(_f(tp, c18.gen_data(rng) or "6f6c64", mode=rng.choice([0o755, 0o644, 0o4755]), uid=uid, gid=gid, mtime=rng.choice([5, 1000])))
        pre.append(_s(top + [nm], target))
        r = rng.random()
        if r < 0.45:
            ents.append(_e(top + [nm], "reg", data=c18.gen_data(rng) or "6e6577", src=rng.choice(["mem", "file"]), mode=rng.choice([0o755, 0o600])))
        elif r < 0.85:
            ents.append(_e(top + [nm], "sym", target=nm + "-2.0"))
            ents.append(_e(top + [nm + "-2.0"], "reg", data=c18.gen_data(rng) or "6e6577", mode=0o755))
        elif r < 0.92:
            ents.append(_e(top + [nm], "fifo"))
    if not any(e["k"] != "dir" for e in ents):
        ents.append(_e(top + ["readme"], "reg"))
    rng.shuffle(ents)
    ents.sort(key=lambda e: e["k"] != "dir")
    return pre, ents


CORPUS = [
    # replace a file, a symlink and a fifo through their '#new' siblings; create a new file next to them
    ([_d(["d"]), _f(["d", "f"], "6f6c646f6c64"), _s(["d", "s"], "f"), dict(_f(["d", "p"]), k="fifo")],
     [_e(["d"], "dir"), _e(["d", "f"], "reg"), _e(["d", "s"], "sym", target="x"), _e(["d", "p"], "reg"), _e(["d", "n"], "reg")], True),
    # stale '#new' siblings (file, and one that is hard-linked to an unrelated file)
    ([_f(["f"], "78"), _f(["keep"], "6b6565706b656570"), _f(["f#new"], link_to=["keep"])], [_e(["f"], "reg")], True),
    # hard-link group over existing targets (do_link: link '#new' + rename)
    ([_f(["a"], "6f"), _f(["b"], "70")], [_e(["a"], "reg", key=[1, 5]), _e(["b"], "reg", key=[1, 5]), _e(["c"], "reg", key=[1, 5])], True),
    # existing directory: ownership/mtime enforced, permissions kept
    ([_d(["d"], mode=0o700)], [_e(["d"], "dir", mode=0o755, mtime=31337), _e(["d", "x"], "fifo")], False),
    # open finding: directory entry over a dangling symlink (unlink, then mkdir)
    ([_s(["d"], "nowhere")], [_e(["d"], "dir"), _e(["d", "x"], "reg")], True),
    # directory entry over a symlink that leads to a directory (kept)
    ([_d(["t"]), _s(["d"], "t")], [_e(["d"], "dir")], True),
    # merges that fail on their own: file over directory, directory over file, after some work was done
    ([_d(["z"]), _f(["a"], "6f")], [_e(["a"], "reg"), _e(["z"], "reg")], True),
    ([_f(["z"]), _f(["a"], "6f")], [_e(["z"], "dir"), _e(["a"], "reg")], True),
    # missing parents
    ([], [_e(["n", "m", "o"], "reg"), _e(["n", "s"], "sym", target="m/o")], True),
    # re-merge of the same build with other ownership and permissions (data, size and mtime unchanged; on-disk source)
    ([_d(["b"]), _f(["b", "t"], "6e6577", mode=0o755, mtime=4242), _f(["b", "u"], "6e6577", mode=0o4711, mtime=4242)],
     [_e(["b"], "dir"), _e(["b", "t"], "reg", mode=0o700, uid=1234 if c18.CAN_CHOWN else c18.MY_UID, gid=1234 if c18.CAN_CHOWN else c18.MY_GID, src="file"),
      _e(["b", "u"], "reg", mode=0o755, uid=1000 if c18.CAN_CHOWN else c18.MY_UID, src="file")], True),
]


CORPUS += [
    # a live set-uid program that has a second name outside the contents set is replaced by its next version (copyfile: '#new' + rename);
    # an ordinary program next to it; the other name must keep inode, content and 04755 throughout
    ([_d(["bin"]), _d(["stash"], mode=0o700), _f(["bin", "su"], "6f6c64206f6c64", mode=0o4755), _f(["bin", "ls"], "6f6c64", mode=0o755),
      _f(["stash", "kept-su"], link_to=["bin", "su"])],
     [_e(["bin"], "dir"), _e(["bin", "su"], "reg", mode=0o4755, data="6e6577206e6577206e6577", src="file"), _e(["bin", "ls"], "reg", mode=0o755)], True),
    # the same through do_link: the new build ships su and sg as one hard-link group, both live ones are set-id and have other names
    ([_d(["bin"]), _f(["bin", "su"], "6f31", mode=0o4711), _f(["bin", "sg"], "6f32", mode=0o2755), _f(["bin", "su.orig"], link_to=["bin", "su"]),
      _f([".other"], link_to=["bin", "sg"])],
     [_e(["bin"], "dir"), _e(["bin", "su"], "reg", mode=0o6755, key=[1, 5]), _e(["bin", "sg"], "reg", mode=0o6755, key=[1, 5])], False),
    # two live names of one set-gid file, both replaced by separate files of the new build; a third name stays
    ([_f(["a"], "6f", mode=0o2755), _f(["b"], link_to=["a"]), _f(["c"], link_to=["a"])],
     [_e(["a"], "reg", mode=0o755), _e(["b"], "reg", data="62", mode=0o2755)], True),
    # live file without any permission bit (and another name) replaced; live set-uid file replaced by a symlink
    ([_f(["z"], "6f", mode=0), _f(["z2"], link_to=["z"]), _f(["s"], "6f", mode=0o4755), _f(["s2"], link_to=["s"])],
     [_e(["z"], "reg", mode=0o600), _e(["s"], "sym", target="z")], True),
]


# the target directory named relative to the working directory; entries replace live symlinks whose targets (a default
# configuration file, a versioned program) exist and are not part of the merge
_LINKS_PRE = [_d(["etc"]), _d(["share"]), _f(["share", "default.conf"], "64656661756c74"), _s(["etc", "app.conf"], "../share/default.conf"),
              _d(["bin"]), _f(["bin", "python3.11"], "33313131", mode=0o755), _s(["bin", "python"], "python3.11")]
_LINKS_ENTS = [_e(["etc"], "dir"), _e(["etc", "app.conf"], "reg", data="6e6577206e6577"), _e(["bin"], "dir"),
               _e(["bin", "python"], "sym", target="python3.12"), _e(["bin", "python3.12"], "reg", mode=0o755)]
CORPUS += [(_LINKS_PRE, _LINKS_ENTS, off) for off in (True, "rel", "rel-here", "rel-up", "dslash")]


# two-step cases: (pre, contents of the interrupted merge, offset, contents of the complete merge that follows)
SEQ_CORPUS = [
    # an upgrade turns a library into a symlink to a file of the same upgrade, is interrupted, then is rolled back
    ([_d(["lib"]), _f(["lib", "so"], "6f6c64")],
     [_e(["lib"], "dir"), _e(["lib", "so"], "sym", target="so.2"), _e(["lib", "so.2"], "reg")], True,
     [_e(["lib"], "dir"), _e(["lib", "so"], "reg", data="6f6c64")]),
    # the other way round: a link is replaced by a file, interrupted, and the link comes back
    ([_d(["lib"]), _s(["lib", "so"], "nowhere")],
     [_e(["lib"], "dir"), _e(["lib", "so"], "reg")], False,
     [_e(["lib"], "dir"), _e(["lib", "so"], "sym", target="so.3"), _e(["lib", "so.3"], "fifo")]),
    # hard-link group interrupted, merged again
    ([_f(["a"], "6f"), _f(["b"], "70")],
     [_e(["a"], "reg", key=[1, 5]), _e(["b"], "reg", key=[1, 5])], True,
     [_e(["a"], "reg", key=[1, 5]), _e(["b"], "reg", key=[1, 5]), _e(["c"], "reg", key=[1, 5])]),
]


# how the target directory is handed to merge_contents: False = no offset argument (the locations carry the root),
# True = offset = the root's canonical absolute path, or one of these spellings of the offset: relative to the working
# directory of the process (`merge_contents(cset, offset="image")` from a build directory; from inside the root: "."),
# or absolute but not normalised
OFFSETS = {
    "rel": ("base", "root"),            # cwd = the directory that holds the root
    "rel-dot": ("base", "./root/"),
    "rel-up": ("tmp", "../root"),       # cwd = a sibling directory
    "rel-here": ("root", "."),          # cwd = the root itself
    "dslash": (None, "//root"),         # <base>//root
}
SCALE = float(os.environ.get("VERIF_C19_SCALE", "1"))     # development only: fraction of the random budget


class offset_of:
    """context manager: the working directory the spelling needs; .kw = keyword arguments for merge_contents,
    .prefix = location prefix for make_cset"""

    def __init__(self, sb, off):
        self.cwd, self.prefix, self.kw = None, "", {}
        if off is False:
            self.prefix = sb.root
        elif off is True:
            self.kw = {"offset": sb.root}
        else:
            where, spelled = OFFSETS[off]
            if where is None:
                self.kw = {"offset": sb.base + spelled}
            else:
                self.cwd = {"base": sb.base, "tmp": sb.tmp, "root": sb.root}[where]
                if not os.path.isdir(self.cwd):             # the root does not exist yet
                    self.cwd, spelled = sb.base, "root"
                self.kw = {"offset": spelled}

    def __enter__(self):
        self.saved = os.getcwd()
        if self.cwd is not None:
            os.chdir(self.cwd)
        return self

    def __exit__(self, *a):
        os.chdir(self.saved)


def gen_offset(rng):
    r = rng.random()
    return True if r < 0.3 else False if r < 0.55 else rng.choice(sorted(OFFSETS))


def run_once(pre, ents, off, crash_at=None, eio_at=None, half=False):
    sb = Sandbox()
    try:
        um = os.umask(0o022)
        try:
            if pre is not None:
                sb.build(pre)
            pre_snap = snapshot(sb.root)
            with offset_of(sb, off) as o:
                cset, kw = make_cset(sb, ents, prefix=o.prefix), o.kw
                from pkgcore.fs import ops
                exc = None
                rec = Recorder(sb.root, crash_at=crash_at, eio_at=eio_at)
                rec.half_write = half
                with rec:
                    try:
                        ops.merge_contents(cset, **kw)
                    except Crash:
                        exc = "crash"
                    except Exception as e:  # noqa: BLE001
                        exc = e
            post = snapshot(sb.root)
        finally:
            os.umask(um)
        return {"pre": pre_snap, "post": post, "ops": rec.ops, "exc": exc, "n": rec.n, "outside": rec.outside}
    finally:
        sb.cleanup()


def run_then_remerge(pre, ents, off, k, ents2):
    """interrupt the merge of `ents` before call k, then merge `ents2` completely over what survived (the same
    long-lived root, as after a reboot); returns the snapshots before/after the second merge and its outcome"""
    sb = Sandbox()
    try:
        um = os.umask(0o022)
        try:
            from pkgcore.fs import ops
            if pre is not None:
                sb.build(pre)
            with offset_of(sb, off) as o:
                kw = o.kw
                with Recorder(sb.root, crash_at=k):
                    try:
                        ops.merge_contents(make_cset(sb, ents, prefix=o.prefix), **kw)
                    except Crash:
                        pass
                    except Exception:  # noqa: BLE001
                        pass
                mid = snapshot(sb.root)
                exc = None
                with Recorder(sb.root) as rec:
                    try:
                        ops.merge_contents(make_cset(sb, ents2, prefix=o.prefix), **kw)
                    except Exception as e:  # noqa: BLE001
                        exc = e
            post = snapshot(sb.root)
        finally:
            os.umask(um)
        return {"mid": mid, "post": post, "exc": exc, "outside": rec.outside}
    finally:
        sb.cleanup()


def run(ctx):
    rng = ctx.rng
    cases = [(pre, ents, off, "corpus") for pre, ents, off in CORPUS] + \
            [(pre, ents, off, ("corpus-2step", ents2)) for pre, ents, off, ents2 in SEQ_CORPUS]
    if ctx.replay_cases:
        cases = [(c["pre"], c["entries"], c["offset"], "replay") for c in map(c18.redangle, ctx.replay_cases) if "entries" in c] + cases
    for _ in range(int(ctx.n(60, 1600) * SCALE)):
        r = rng.random()
        if r < 0.15:
            # upgrade of live programs: special permission bits, other names outside the contents set
            pre, ents = gen_upgrade(rng)
            cases.append((pre, ents, gen_offset(rng), "upgrade"))
            continue
        if r < 0.27:
            pre, ents = gen_relink(rng)
            cases.append((pre, ents, gen_offset(rng), "relink"))
            continue
        if r < 0.55:
            # re-merge: the root already holds an earlier build (same data and mtime, other owner/mode, …)
            pre, ents = gen_remerge(rng, nmax=4)
            if ents:
                ents = ents[:6]
                if rng.random() < 0.5:
                    pre = with_other_names(rng, pre, ents, p_mode=0.2)
                cases.append((pre, ents, gen_offset(rng), "remerge"))
            continue
        pre = gen_pre(rng, size=rng.randint(1, 6))
        ents = gen_entries(rng, pre, wellformed=rng.random() < 0.9)[: rng.randint(1, 5)]
        if ents:
            if rng.random() < 0.5:
                pre = with_other_names(rng, pre, ents)
            cases.append((pre, ents, gen_offset(rng), "random"))
    reqs, runs = [], []
    for pre, ents, off, origin in cases:
        origin_second = None
        if isinstance(origin, tuple):          # two-step corpus case: (label, contents of the merge after the crash)
            origin, origin_second = origin
        full = run_once(pre, ents, off)
        ids = Ids()
        prej = fs_json(full["pre"], ids)
        npre = ids.n
        entj = [entry_json(e) for e in ents]
        literal = not has_symlinked_ancestor(full["pre"], ents)
        info = {"case": {"pre": pre, "entries": ents, "offset": off, "origin": origin}, "full": full, "prej": prej, "npre": npre,
                "entj": entj, "literal": literal, "points": [], "first_req": len(reqs)}
        reqs.append({"cmd": "c19.crash", "env": env_json(), "offset": bool(off), "fs": prej, "entries": entj})
        if not literal:
            runs.append(info)
            ctx.count("skipped_symlinked_ancestor_case")
            continue
        n = full["n"]
        for k in range(n + 1):
            for mode in ("crash", "eio", "half"):
                if mode != "crash" and k == n:
                    continue
                if mode == "half" and not (k < len(full["ops"]) and full["ops"][k][0] == "write" and len(full["ops"][k][2]) >= 4):
                    continue
                r = run_once(pre, ents, off, crash_at=k if mode != "eio" else None, eio_at=k if mode == "eio" else None,
                             half=(mode == "half"))
                ids2 = Ids()
                prej2 = fs_json(r["pre"], ids2)
                if prej2 != prej:
                    ctx.mismatch(info["case"], "the scratch root could not be rebuilt identically")
                    continue
                curj = fs_json(r["post"], ids2)
                info["points"].append({"k": k, "mode": mode, "curj": curj, "ops": r["ops"], "exc": r["exc"], "outside": r["outside"],
                                       "req": len(reqs)})
                reqs.append({"cmd": "c19.spec", "fs": prej, "entries": entj, "cur": curj})
        # multi-step: a complete merge (same build, or the next one) over what an interrupted merge left behind
        info["again"] = []
        if n >= 2 and full["exc"] is None:
            # preferably right before a rename (a finished '#new' sibling is lying around), plus a random point
            before_rename = [i for i, o in enumerate(full["ops"]) if o[0] == "rename" and 0 < i < n]
            ks = set(rng.sample(before_rename, min(2, len(before_rename)))) | {rng.randrange(1, n)}
            for k in sorted(ks):
                ents2 = origin_second if origin_second is not None else (ents if rng.random() < 0.4 else next_build(rng, ents))
                if not ents2:
                    continue
                r2 = run_then_remerge(pre, ents, off, k, ents2)
                if has_symlinked_ancestor(r2["mid"], ents2):
                    continue
                ids3 = Ids()
                midj = fs_json(r2["mid"], ids3)
                info["again"].append({"k": k, "ents2": ents2, "r": r2, "req": len(reqs)})
                reqs.append({"cmd": "c18.spec", "fs": midj, "entries": [entry_json(e) for e in ents2], "final": fs_json(r2["post"], ids3)})
        runs.append(info)
    replies = ctx.model(reqs)
    for info in runs:
        case, full = info["case"], info["full"]
        m = replies[info["first_req"]]
        if m == "bad-op":
            ctx.mismatch(case, "driver rejected the request")
            continue
        if not info["literal"]:
            continue
        res = classify_exc(full["exc"])
        guards = set(m["guards"])
        ctx.count("merge_" + res.split(":")[0])
        ctx.count("calls_%s" % (min(full["n"] // 10, 6) * 10))
        replaces = sum(1 for e in case["entries"] if e["k"] != "dir" and tuple(e["p"]) in full["pre"]
                       and full["pre"][tuple(e["p"])]["k"] != "dir")
        names_of = {}
        for q, nd in full["pre"].items():
            if nd["k"] == "file":
                names_of.setdefault(nd["id"], []).append(q)
        ent_locs = {tuple(e["p"]) for e in case["entries"]}
        for e in case["entries"]:
            nd = full["pre"].get(tuple(e["p"]))
            if e["k"] != "dir" and nd is not None and nd["k"] == "file":
                ctx.count("replaced_live_file" + ("_setid" if nd["mode"] & 0o6000 else "_sticky" if nd["mode"] & 0o1000 else "_mode0" if nd["mode"] == 0 else "")
                          + ("_with_name_outside_contents" if any(q not in ent_locs for q in names_of[nd["id"]]) else ""))
        ctx.count("origin_" + str(case["origin"]))
        ctx.count("offset_" + str(case["offset"]))
        for e in case["entries"]:
            nd = full["pre"].get(tuple(e["p"]))
            if e["k"] != "dir" and nd is not None and nd["k"] == "sym":
                t = os.path.normpath("/" + "/".join(e["p"][:-1]) + "/" + nd["target"]).strip("/")
                tn = full["pre"].get(tuple(t.split("/"))) if t else None
                ctx.count("replaced_live_symlink" + ("_to_existing_path_outside_contents" if tn is not None and tuple(t.split("/")) not in ent_locs else "")
                          + ("_relative_offset" if str(case["offset"]).startswith("rel") else ""))
        rt = model_trace(full["ops"])
        model_ok = m["result"] == res and rt == m["trace"]
        if not model_ok:
            # the property is still evaluated on the real crash states below (edge C)
            ctx.mismatch(case, "uninterrupted run: real %s / model %s, traces %s" % (res, m["result"], "equal" if rt == m["trace"] else "differ"))
        # model's own crash points obey the theorem
        if not (guards - {"dirsym"}):
            bad = [k for k, f in enumerate(m["fail" if "dirsym" not in guards else "failW"]) if f]
            if bad:
                ctx.mismatch(case, "model crash points %s violate the proved theorem?!" % bad[:5])
        for ag in info.get("again", []):
            sp2 = replies[ag["req"]]
            acase = dict(case, interrupted_before_call=ag["k"], second_merge=ag["ents2"])
            ctx.case(acase, ag["r"]["exc"] is None, key=repr((info["prej"], info["entj"], ag["k"], [entry_json(e) for e in ag["ents2"]])))
            ctx.count("remerge_after_crash_" + classify_exc(ag["r"]["exc"]).split(":")[0])
            if ag["r"]["outside"]:
                ctx.violation(acase, "the merge after the crash touched paths outside the root: %r" % ag["r"]["outside"][:3])
            elif ag["r"]["exc"] is None and sp2 != "bad-op" and sp2["placed"]:
                if set(sp2["guards"]) & {"tmpclash", "symoverdir", "tree", "distinct", "hardlinkdata", "symlinkshared", "root"}:
                    ctx.count("remerge_after_crash_in_a_C18_finding_or_illformed_class_not_claimed")
                else:
                    ctx.violation(acase, "a complete merge over the state the interrupted merge left behind does not place the contents "
                                  "exactly (clauses %s): the interruption is still visible" % sp2["placed"])
        for pt in info["points"]:
            sp = replies[pt["req"]]
            k, mode = pt["k"], pt["mode"]
            pcase = dict(case, crash_point=k, mode=mode)
            inside = 0 < k < full["n"]
            ctx.case(pcase, mode == "crash" and inside and replaces >= 1 and res == "ok",
                     key=repr((info["prej"], info["entj"], case["offset"], k, mode)))
            ctx.count("point_" + mode)
            if k < len(full["ops"]):
                ctx.count("killed_before_" + full["ops"][k][0])
            if pt["outside"]:
                ctx.violation(pcase, "touched paths outside the root: %r" % pt["outside"][:3])
                continue
            # ---- edge C: the property on the real interrupted file system
            fail, failw = sp["fail"], sp["failW"]
            illformed = bool(guards & {"tree", "distinct", "hardlinkdata", "tmpclash"})
            if illformed:
                ctx.count("illformed_contents_property_not_claimed")
            elif failw:
                ctx.violation(pcase, "after %s at call %d of %d the paths %s hold neither their complete old nor their complete new state "
                              "(or were created outside the contents)" % (mode, k, full["n"], failw[:4]))
            elif fail:
                ctx.violation(pcase, "after %s at call %d of %d: %s is absent / half set up (directory entry over a symlink)" % (mode, k, full["n"], fail[:4]),
                              finding="C19-dir-over-symlink-window")
            # ---- edge A: same prefix in the model
            if mode == "crash" and model_ok:
                ctx.traces += 1
                mk = len(model_trace(full["ops"][:k]))
                if model_trace(pt["ops"]) != m["trace"][:mk]:
                    ctx.mismatch(pcase, "calls made before the crash differ from the model's prefix")
                    continue
                real = canon_fs(pt["curj"], info["npre"])
                mod = canon_fs(m["states"][mk], info["npre"])
                if real != mod:
                    ctx.mismatch(pcase, "file system at crash point %d differs from the model's: %s" % (k, "; ".join(diff_fs(real, mod))))


LEVEL_TEXT = ("Kernel-checked Lean 4 theorem over the model of merge_contents (C18): for every pre-existing file system, contents set and every "
              "prefix of the logged system calls of a merge, each path that existed before holds its complete old or its complete new content "
              "and metadata (directories: same inode, permissions kept, owner old or recorded) and nothing outside the contents set but '#new' "
              "siblings is created or modified (in particular a hard link, outside the contents set, to a file that is being replaced keeps inode, "
              "content and metadata at every crash point: outside_paths_untouched); the replace-by-rename lemma is proved for every prefix. Tied to the code by killing real merges "
              "before every mutating call (and inside writes, and with EIO faults) and comparing the surviving file system with the model's "
              "prefix state and with the Lean specification.")
LEVEL_NOTE = ("Partial: a directory entry merged over a (dangling) symlink is unlinked before the directory is made (open finding; the theorem "
              "without that class is proved for every merge whatever its outcome, the weaker window statement covers the class); fault "
              "injection and half-written blocks are sampled only; no reordering below the syscall layer.")
