"""C19 — an interrupted merge never leaves a replaced file half-written.

Every mutating call of a real merge (os.* and write-mode open/write, seen by interposition) is a crash point: the
merge is re-run from an identical scratch root and killed (BaseException, all later mutating calls suppressed)
right before call k, for every k; the surviving file system is compared with the model's state after the same
prefix of its log and judged by the Lean specification.  Additionally: crashes in the middle of a write (half the
data on disk) and EIO injected into call k (the code's own error handling then runs).
"""
import os

from . import c18
from .c18 import (Sandbox, Recorder, Crash, Ids, snapshot, fs_json, canon_fs, entry_json, make_cset, gen_pre, gen_entries,
                  has_symlinked_ancestor, classify_exc, model_trace, env_json, resolve_entries, diff_fs, gen_remerge, next_build, _f, _d, _s, _e)

PID = "C19"
LEAN_MODULES = ["Pkgcore.Props.C19"]
OBLIGATIONS = [
    "Pkgcore.C19.merge_crash_safe_partial",
    "Pkgcore.C19.merge_crash_states",
    "Pkgcore.C19.merge_log_is_trajectory",
    "Pkgcore.C19.merge_crash_safe_counterexample",
    "Pkgcore.C19.atomic_replace_prefix",
    "Pkgcore.C19.crashSafe_bounded_iff",
]
TRUSTED = c18.TRUSTED + [
    "a crash is simulated at system-call granularity (the process dies between two calls, or in the middle of a write with half of "
    "the data stored); reordering of completed calls below the syscall layer (power loss without fsync) is outside the model",
    "rename(2) replaces the destination atomically (POSIX), as the abstract file system states",
]
ASSUMPTIONS = c18.ASSUMPTIONS + [
    "the theorem quantifies over every prefix of the calls of every merge, whatever it would return (normally or an exception "
    "half-way); half-written data blocks and injected EIO faults (the code's error handling under faults the model does not "
    "produce) are covered by the sampled runs only",
]
RULE = ("random small contents trees over random pre-existing roots (generators of C18) and re-merges (the root holds an earlier build of the "
        "same package: same data and mtime with other owner and/or mode, same-size new data, other mtime, other type, dropped and new entries); for each, every mutating call k of the real merge "
        "is a crash point (fresh identical root, killed before call k), plus half-write crashes and EIO injection at every k; "
        "non-trivial = a crash point of a merge that replaces at least one pre-existing non-directory path and lies strictly inside the merge")

CORPUS = [
    # replace a file, a symlink and a fifo through their '#new' siblings; create a new file next to them
    ([_d(["d"]), _f(["d", "f"], "6f6c646f6c64"), _s(["d", "s"], "f"), dict(_f(["d", "p"]), k="fifo")],
     [_e(["d"], "dir"), _e(["d", "f"], "reg"), _e(["d", "s"], "sym", target="x"), _e(["d", "p"], "reg"), _e(["d", "n"], "reg")], True),
    # stale '#new' siblings (file, and one that is hard-linked to an unrelated file)
    ([_f(["f"], "78"), _f(["keep"], "6b6565706b656570"), _f(["f#new"], link_to=["keep"])], [_e(["f"], "reg")], True),
    # hard-link group over existing targets (do_link: link '#new' + rename)
    ([_f(["a"], "6f"), _f(["b"], "70")], [_e(["a"], "reg", key=[1, 5]), _e(["b"], "reg", key=[1, 5]), _e(["c"], "reg", key=[1, 5])], True),
    # existing directory: ownership/mtime enforced, permissions kept
    ([_d(["d"], mode=0o700)], [_e(["d"], "dir", mode=0o755, mtime=31337), _e(["d", "x"], "fifo")], False),
    # open finding: directory entry over a dangling symlink (unlink, then mkdir)
    ([_s(["d"], "nowhere")], [_e(["d"], "dir"), _e(["d", "x"], "reg")], True),
    # directory entry over a symlink that leads to a directory (kept)
    ([_d(["t"]), _s(["d"], "t")], [_e(["d"], "dir")], True),
    # merges that fail on their own: file over directory, directory over file, after some work was done
    ([_d(["z"]), _f(["a"], "6f")], [_e(["a"], "reg"), _e(["z"], "reg")], True),
    ([_f(["z"]), _f(["a"], "6f")], [_e(["z"], "dir"), _e(["a"], "reg")], True),
    # missing parents
    ([], [_e(["n", "m", "o"], "reg"), _e(["n", "s"], "sym", target="m/o")], True),
    # re-merge of the same build with other ownership and permissions (data, size and mtime unchanged; on-disk source)
    ([_d(["b"]), _f(["b", "t"], "6e6577", mode=0o755, mtime=4242), _f(["b", "u"], "6e6577", mode=0o4711, mtime=4242)],
     [_e(["b"], "dir"), _e(["b", "t"], "reg", mode=0o700, uid=1234 if c18.CAN_CHOWN else c18.MY_UID, gid=1234 if c18.CAN_CHOWN else c18.MY_GID, src="file"),
      _e(["b", "u"], "reg", mode=0o755, uid=1000 if c18.CAN_CHOWN else c18.MY_UID, src="file")], True),
]


# two-step cases: (pre, contents of the interrupted merge, offset, contents of the complete merge that follows)
SEQ_CORPUS = [
    # an upgrade turns a library into a symlink to a file of the same upgrade, is interrupted, then is rolled back
    ([_d(["lib"]), _f(["lib", "so"], "6f6c64")],
     [_e(["lib"], "dir"), _e(["lib", "so"], "sym", target="so.2"), _e(["lib", "so.2"], "reg")], True,
     [_e(["lib"], "dir"), _e(["lib", "so"], "reg", data="6f6c64")]),
    # the other way round: a link is replaced by a file, interrupted, and the link comes back
    ([_d(["lib"]), _s(["lib", "so"], "nowhere")],
     [_e(["lib"], "dir"), _e(["lib", "so"], "reg")], False,
     [_e(["lib"], "dir"), _e(["lib", "so"], "sym", target="so.3"), _e(["lib", "so.3"], "fifo")]),
    # hard-link group interrupted, merged again
    ([_f(["a"], "6f"), _f(["b"], "70")],
     [_e(["a"], "reg", key=[1, 5]), _e(["b"], "reg", key=[1, 5])], True,
     [_e(["a"], "reg", key=[1, 5]), _e(["b"], "reg", key=[1, 5]), _e(["c"], "reg", key=[1, 5])]),
]


def run_once(pre, ents, off, crash_at=None, eio_at=None, half=False):
    sb = Sandbox()
    try:
        um = os.umask(0o022)
        try:
            if pre is not None:
                sb.build(pre)
            pre_snap = snapshot(sb.root)
            if off:
                cset, kw = make_cset(sb, ents), {"offset": sb.root}
            else:
                cset, kw = make_cset(sb, ents, prefix=sb.root), {}
            from pkgcore.fs import ops
            exc = None
            rec = Recorder(sb.root, crash_at=crash_at, eio_at=eio_at)
            rec.half_write = half
            with rec:
                try:
                    ops.merge_contents(cset, **kw)
                except Crash:
                    exc = "crash"
                except Exception as e:  # noqa: BLE001
                    exc = e
            post = snapshot(sb.root)
        finally:
            os.umask(um)
        return {"pre": pre_snap, "post": post, "ops": rec.ops, "exc": exc, "n": rec.n, "outside": rec.outside}
    finally:
        sb.cleanup()


def run_then_remerge(pre, ents, off, k, ents2):
    """interrupt the merge of `ents` before call k, then merge `ents2` completely over what survived (the same
    long-lived root, as after a reboot); returns the snapshots before/after the second merge and its outcome"""
    sb = Sandbox()
    try:
        um = os.umask(0o022)
        try:
            from pkgcore.fs import ops
            if pre is not None:
                sb.build(pre)
            kw = {"offset": sb.root} if off else {}
            with Recorder(sb.root, crash_at=k):
                try:
                    ops.merge_contents(make_cset(sb, ents, prefix="" if off else sb.root), **kw)
                except Crash:
                    pass
                except Exception:  # noqa: BLE001
                    pass
            mid = snapshot(sb.root)
            exc = None
            with Recorder(sb.root) as rec:
                try:
                    ops.merge_contents(make_cset(sb, ents2, prefix="" if off else sb.root), **kw)
                except Exception as e:  # noqa: BLE001
                    exc = e
            post = snapshot(sb.root)
        finally:
            os.umask(um)
        return {"mid": mid, "post": post, "exc": exc, "outside": rec.outside}
    finally:
        sb.cleanup()


def run(ctx):
    rng = ctx.rng
    cases = [(pre, ents, off, "corpus") for pre, ents, off in CORPUS] + \
            [(pre, ents, off, ("corpus-2step", ents2)) for pre, ents, off, ents2 in SEQ_CORPUS]
    if ctx.replay_cases:
        cases = [(c["pre"], c["entries"], c["offset"], "replay") for c in ctx.replay_cases if "entries" in c] + cases
    for _ in range(ctx.n(60, 1600)):
        if rng.random() < 0.45:
            # re-merge: the root already holds an earlier build (same data and mtime, other owner/mode, …)
            pre, ents = gen_remerge(rng, nmax=4)
            if ents:
                cases.append((pre, ents[:6], rng.random() < 0.5, "remerge"))
            continue
        pre = gen_pre(rng, size=rng.randint(1, 6))
        ents = gen_entries(rng, pre, wellformed=rng.random() < 0.9)[: rng.randint(1, 5)]
        if ents:
            cases.append((pre, ents, rng.random() < 0.5, "random"))
    reqs, runs = [], []
    for pre, ents, off, origin in cases:
        origin_second = None
        if isinstance(origin, tuple):          # two-step corpus case: (label, contents of the merge after the crash)
            origin, origin_second = origin
        full = run_once(pre, ents, off)
        ids = Ids()
        prej = fs_json(full["pre"], ids)
        npre = ids.n
        entj = [entry_json(e) for e in ents]
        literal = not has_symlinked_ancestor(full["pre"], ents)
        info = {"case": {"pre": pre, "entries": ents, "offset": off, "origin": origin}, "full": full, "prej": prej, "npre": npre,
                "entj": entj, "literal": literal, "points": [], "first_req": len(reqs)}
        reqs.append({"cmd": "c19.crash", "env": env_json(), "offset": off, "fs": prej, "entries": entj})
        if not literal:
            runs.append(info)
            ctx.count("skipped_symlinked_ancestor_case")
            continue
        n = full["n"]
        for k in range(n + 1):
            for mode in ("crash", "eio", "half"):
                if mode != "crash" and k == n:
                    continue
                if mode == "half" and not (k < len(full["ops"]) and full["ops"][k][0] == "write" and len(full["ops"][k][2]) >= 4):
                    continue
                r = run_once(pre, ents, off, crash_at=k if mode != "eio" else None, eio_at=k if mode == "eio" else None,
                             half=(mode == "half"))
                ids2 = Ids()
                prej2 = fs_json(r["pre"], ids2)
                if prej2 != prej:
                    ctx.mismatch(info["case"], "the scratch root could not be rebuilt identically")
                    continue
                curj = fs_json(r["post"], ids2)
                info["points"].append({"k": k, "mode": mode, "curj": curj, "ops": r["ops"], "exc": r["exc"], "outside": r["outside"],
                                       "req": len(reqs)})
                reqs.append({"cmd": "c19.spec", "fs": prej, "entries": entj, "cur": curj})
        # multi-step: a complete merge (same build, or the next one) over what an interrupted merge left behind
        info["again"] = []
        if n >= 2 and full["exc"] is None:
            # preferably right before a rename (a finished '#new' sibling is lying around), plus a random point
            before_rename = [i for i, o in enumerate(full["ops"]) if o[0] == "rename" and 0 < i < n]
            ks = set(rng.sample(before_rename, min(2, len(before_rename)))) | {rng.randrange(1, n)}
            for k in sorted(ks):
                ents2 = origin_second if origin_second is not None else (ents if rng.random() < 0.4 else next_build(rng, ents))
                if not ents2:
                    continue
                r2 = run_then_remerge(pre, ents, off, k, ents2)
                if has_symlinked_ancestor(r2["mid"], ents2):
                    continue
                ids3 = Ids()
                midj = fs_json(r2["mid"], ids3)
                info["again"].append({"k": k, "ents2": ents2, "r": r2, "req": len(reqs)})
                reqs.append({"cmd": "c18.spec", "fs": midj, "entries": [entry_json(e) for e in ents2], "final": fs_json(r2["post"], ids3)})
        runs.append(info)
    replies = ctx.model(reqs)
    for info in runs:
        case, full = info["case"], info["full"]
        m = replies[info["first_req"]]
        if m == "bad-op":
            ctx.mismatch(case, "driver rejected the request")
            continue
        if not info["literal"]:
            continue
        res = classify_exc(full["exc"])
        guards = set(m["guards"])
        ctx.count("merge_" + res.split(":")[0])
        ctx.count("calls_%s" % (min(full["n"] // 10, 6) * 10))
        replaces = sum(1 for e in case["entries"] if e["k"] != "dir" and tuple(e["p"]) in full["pre"]
                       and full["pre"][tuple(e["p"])]["k"] != "dir")
        rt = model_trace(full["ops"])
        model_ok = m["result"] == res and rt == m["trace"]
        if not model_ok:
            # the property is still evaluated on the real crash states below (edge C)
            ctx.mismatch(case, "uninterrupted run: real %s / model %s, traces %s" % (res, m["result"], "equal" if rt == m["trace"] else "differ"))
        # model's own crash points obey the theorem
        if not (guards - {"dirsym"}):
            bad = [k for k, f in enumerate(m["fail" if "dirsym" not in guards else "failW"]) if f]
            if bad:
                ctx.mismatch(case, "model crash points %s violate the proved theorem?!" % bad[:5])
        for ag in info.get("again", []):
            sp2 = replies[ag["req"]]
            acase = dict(case, interrupted_before_call=ag["k"], second_merge=ag["ents2"])
            ctx.case(acase, ag["r"]["exc"] is None, key=repr((info["prej"], info["entj"], ag["k"], [entry_json(e) for e in ag["ents2"]])))
            ctx.count("remerge_after_crash_" + classify_exc(ag["r"]["exc"]).split(":")[0])
            if ag["r"]["outside"]:
                ctx.violation(acase, "the merge after the crash touched paths outside the root: %r" % ag["r"]["outside"][:3])
            elif ag["r"]["exc"] is None and sp2 != "bad-op" and sp2["placed"]:
                if set(sp2["guards"]) & {"tmpclash", "symoverdir", "tree", "distinct", "hardlinkdata", "symlinkshared", "root"}:
                    ctx.count("remerge_after_crash_in_a_C18_finding_or_illformed_class_not_claimed")
                else:
                    ctx.violation(acase, "a complete merge over the state the interrupted merge left behind does not place the contents "
                                  "exactly (clauses %s): the interruption is still visible" % sp2["placed"])
        for pt in info["points"]:
            sp = replies[pt["req"]]
            k, mode = pt["k"], pt["mode"]
            pcase = dict(case, crash_point=k, mode=mode)
            inside = 0 < k < full["n"]
            ctx.case(pcase, mode == "crash" and inside and replaces >= 1 and res == "ok",
                     key=repr((info["prej"], info["entj"], case["offset"], k, mode)))
            ctx.count("point_" + mode)
            if k < len(full["ops"]):
                ctx.count("killed_before_" + full["ops"][k][0])
            if pt["outside"]:
                ctx.violation(pcase, "touched paths outside the root: %r" % pt["outside"][:3])
                continue
            # ---- edge C: the property on the real interrupted file system
            fail, failw = sp["fail"], sp["failW"]
            illformed = bool(guards & {"tree", "distinct", "hardlinkdata", "tmpclash"})
            if illformed:
                ctx.count("illformed_contents_property_not_claimed")
            elif failw:
                ctx.violation(pcase, "after %s at call %d of %d the paths %s hold neither their complete old nor their complete new state "
                              "(or were created outside the contents)" % (mode, k, full["n"], failw[:4]))
            elif fail:
                ctx.violation(pcase, "after %s at call %d of %d: %s is absent / half set up (directory entry over a symlink)" % (mode, k, full["n"], fail[:4]),
                              finding="C19-dir-over-symlink-window")
            # ---- edge A: same prefix in the model
            if mode == "crash" and model_ok:
                ctx.traces += 1
                mk = len(model_trace(full["ops"][:k]))
                if model_trace(pt["ops"]) != m["trace"][:mk]:
                    ctx.mismatch(pcase, "calls made before the crash differ from the model's prefix")
                    continue
                real = canon_fs(pt["curj"], info["npre"])
                mod = canon_fs(m["states"][mk], info["npre"])
                if real != mod:
                    ctx.mismatch(pcase, "file system at crash point %d differs from the model's: %s" % (k, "; ".join(diff_fs(real, mod))))


LEVEL_TEXT = ("Kernel-checked Lean 4 theorem over the model of merge_contents (C18): for every pre-existing file system, contents set and every "
              "prefix of the logged system calls of a merge, each path that existed before holds its complete old or its complete new content "
              "and metadata (directories: same inode, permissions kept, owner old or recorded) and nothing outside the contents set but '#new' "
              "siblings is created or modified; the replace-by-rename lemma is proved for every prefix. Tied to the code by killing real merges "
              "before every mutating call (and inside writes, and with EIO faults) and comparing the surviving file system with the model's "
              "prefix state and with the Lean specification.")
LEVEL_NOTE = ("Partial: a directory entry merged over a (dangling) symlink is unlinked before the directory is made (open finding; the theorem "
              "without that class is proved for every merge whatever its outcome, the weaker window statement covers the class); fault "
              "injection and half-written blocks are sampled only; no reordering below the syscall layer.")
